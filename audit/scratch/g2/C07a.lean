import BarterModel.Props.C07
open BarterModel.ExecManager BarterModel.Props.C07

-- attribution for responses is the hypothesis in disguise: without EchoesKey the event's key is
-- whatever the client wrote (already an `example` in the file). Reply cannot express a client that
-- answers Err(Connectivity(Timeout)) — so `fate = timeout ↔ outcome = timeout` holds by construction.

-- FAIR liveness (∀ schedules that eventually poll the request while the manager keeps running),
-- which the file only has for the single schedule `tick dt ++ settleSched`:

theorem status_running_back (c : Cfg) (s : State) (a : Action)
    (h : (step c s a).status = .running) : s.status = .running := by
  cases a with
  | tick dt => simpa [step] using h
  | intake q =>
    by_cases hs : s.status = .running
    · exact hs
    · simp [step, hs] at h
  | poll rid =>
    by_cases hs : s.status = .running
    · exact hs
    · simp [step, hs] at h
  | shutdown =>
    by_cases hs : s.status = .running
    · exact hs
    · simp [step, hs] at h

theorem run_running_back (c : Cfg) (bs : List Action) : ∀ (s : State),
    (run c s bs).status = .running → s.status = .running := by
  induction bs with
  | nil => intro s h; exact h
  | cons a bs ih =>
    intro s h
    exact status_running_back c s a (ih (step c s a) (by simpa [run] using h))

def Resolved (s : State) (r : Req) : Prop := ∃ x ∈ s.resolved, x.req = r

theorem resolved_mono (c : Cfg) (s : State) (a : Action) (r : Req) (h : Resolved s r) :
    Resolved (step c s a) r := by
  obtain ⟨x, hx, hr⟩ := h
  refine ⟨x, ?_, hr⟩
  cases a with
  | tick dt => simpa [step] using hx
  | intake q =>
    simp only [step]; split
    · exact hx
    · split <;> exact hx
  | poll rid =>
    simp only [step]; split
    · exact hx
    · split
      · exact hx
      · split
        · exact hx
        · simp [hx]
  | shutdown =>
    simp only [step]; split <;> exact hx

theorem resolved_mono_run (c : Cfg) (bs : List Action) : ∀ (s : State) (r : Req), Resolved s r →
    Resolved (run c s bs) r := by
  induction bs with
  | nil => intro s r h; exact h
  | cons a bs ih => intro s r h; exact ih _ r (resolved_mono c s a r h)

/-- pending-and-overdue is kept by every step that leaves the manager running, unless resolved -/
theorem overdue_step (c : Cfg) (s : State) (a : Action) (r : Req) (hi : Inv c s)
    (hr : r ∈ s.pending) (hd : c.deadline r ≤ s.now) (hrun : (step c s a).status = .running) :
    (r ∈ (step c s a).pending ∧ c.deadline r ≤ (step c s a).now) ∨ Resolved (step c s a) r := by
  have hs : s.status = .running := status_running_back c s a hrun
  cases a with
  | tick dt => left; simp [step]; exact ⟨hr, by omega⟩
  | intake q =>
    by_cases hc : c.configured q.key = true
    · left; simp [step, hs, hc]; exact ⟨Or.inl hr, hd⟩
    · simp [step, hs, hc] at hrun
  | shutdown => simp [step, hs] at hrun
  | poll rid =>
    simp only [step, hs, ne_eq, not_true_eq_false, if_false]
    cases hf : s.pending.find? (fun r => r.rid == rid) with
    | none => left; exact ⟨hr, hd⟩
    | some r0 =>
      simp only []
      cases hp : pollReq c r0 s.now with
      | none => left; exact ⟨hr, hd⟩
      | some f =>
        simp only []
        by_cases he : r0 = r
        · right; exact ⟨⟨r0, f, s.now⟩, by simp, he⟩
        · left; exact ⟨(List.mem_erase_of_ne (Ne.symm he)).mpr hr, hd⟩

theorem fair_liveness (c : Cfg) (bs : List Action) : ∀ (s : State) (r : Req), Inv c s →
    r ∈ s.pending → c.deadline r ≤ s.now → Action.poll r.rid ∈ bs →
    (run c s bs).status = .running → Resolved (run c s bs) r := by
  induction bs with
  | nil => intro s r _ _ _ hm; simp at hm
  | cons a bs ih =>
    intro s r hi hr hd hm hrun
    have hrun1 : (step c s a).status = .running := run_running_back c bs _ (by simpa [run] using hrun)
    have hs : s.status = .running := status_running_back c s a hrun1
    show Resolved (run c (step c s a) bs) r
    rcases List.mem_cons.mp hm with hm | hm
    · subst hm
      obtain ⟨f, _, hstep⟩ := poll_resolves hi hs hr (Nat.le_trans (deadline_ready c r) hd)
      apply resolved_mono_run
      rw [hstep]; exact ⟨⟨r, f, s.now⟩, by simp, rfl⟩
    · rcases overdue_step c s a r hi hr hd hrun1 with ⟨hr', hd'⟩ | hres
      · exact ih _ r (inv_step c s a hi) hr' hd' hm (by simpa [run] using hrun)
      · exact resolved_mono_run c bs _ r hres
