import BarterModel.Props.C06
open BarterModel.Book BarterModel.BinanceL2 BarterModel.Props.C06

-- snapshot taken exactly at the boundary id 2 (after exM1's range (0,2])
def snap2 : OrderBook := ⟨2, [⟨100, 1⟩], [⟨101, 2⟩]⟩

-- the gap-free in-order continuation after id 2 is [exM2] (range (2,3], pu = 2, U = 3)
example : GenuineRun .futures exVenue 2 [exM2] := ⟨by decide, trivial⟩
example : GenuineRun .spot exVenue 2 [exM2] := ⟨by decide, trivial⟩
-- spot: admitted, no error
example : (Local.run .spot (start 2 snap2) [exM2]).2 = none := by decide
-- futures: terminal error although nothing is missing between snapshot id 2 and pu = 2
example : (Local.run .futures (start 2 snap2) [exM2]).2 = some (.invalidSequence 2 3) := by decide
-- Covers is what excludes it
example : ¬ Covers .futures exVenue 2 2 [exM2] := by intro h; exact absurd h.1 (by decide)
-- preceded by the (not strictly older: u = s) message exM1 it is fine
example : (Local.run .futures (start 2 snap2) [exM1, exM2]).2 = none := by decide

-- book_is_truth only needs genuineness of NON-stale messages: stronger step lemma goes through
theorem synced_step' {r : Rules} {v : Venue} {l : Local} {m : Update} (hl : Synced v l)
    (hg : ¬ Stale r l.sequencer.lastUpdateId m → IsGenuine r v m) : Synced v (l.step r m).1 := by
  rcases local_step_cases r l m with ⟨_, hv⟩ | ⟨hs, he, hv⟩ | ⟨_, _, hv⟩
  · rw [hv]; exact hl
  · rw [hv]; exact synced_admit hl (hg hs) hs he
  · rw [hv]; exact hl

example : GenuineSnapshot exVenue 2 snap2 := by
  refine ⟨rfl, ?_, ?_⟩ <;> funext p <;>
    simp [snap2, exVenue, abs, bookAt, changesUpTo, applyLevels, setLevel] <;> grind
