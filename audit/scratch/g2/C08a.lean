import BarterModel.Props.C08
open BarterModel.MockExchange BarterModel.Props.C08

-- total ≠ free initial balance: the first order on that asset panics (assert_eq!)
def cBad : Cfg := { latency := 0, fee := 0, init := [(2, 2), (100, 90)], instruments := [⟨0, 1⟩] }
example : (openOrder (init cBad) buy0).2 = .panic := by decide +kernel
-- missing balance for an instrument asset: panic (expect)
def cBad2 : Cfg := { latency := 0, fee := 0, init := [(2, 2)], instruments := [⟨0, 1⟩] }
example : (openOrder (init cBad2) buy0).2 = .panic := by decide +kernel
-- negative price: a buy is accepted on an empty account and CREDITS the quote asset
def cZero : Cfg := { latency := 0, fee := 0, init := [(0, 0), (0, 0)], instruments := [⟨0, 1⟩] }
def buyNeg : Req := { buy0 with price := -10 }
example : (ledger (openOrder (init cZero) buyNeg).1) = [(0, 0), (20, 20)] := by decide +kernel
