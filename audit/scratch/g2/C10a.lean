import BarterModel.Props.C10
open BarterModel.Audit BarterModel.Engine BarterModel.Orders BarterModel.Props.C10

-- (A) static fields are outside `Synced`: request quantity 10, exchange report says quantity 5
def histQ : List (Event × Ask) :=
  [(.update (.price 0 100), ask0),
   (.update (.order 0 (.snapshot ⟨7, 5, 100, .active (.opn rep1), 0⟩)), askNone)]
example :
    ((engineRun demoEng histQ).instruments[0]?.bind fun s => (lookup s.orders 7).map (·.quantity)) = some 10 ∧
    ((replicaRun demoEng histQ).instruments[0]?.bind fun s => (lookup s.orders 7).map (·.quantity)) = some 5 ∧
    orderState (replicaRun demoEng histQ) 0 7 = strip (orderState (engineRun demoEng histQ) 0 7) := by
  decide +kernel

-- (B) the missing composition: the REAL replica loop (`Replica.run`) over the REAL tick list
-- (`runWithAudit`) is `replicaRun` over the processed prefix, and the engine is `engineRun` over it.
theorem replica_run_on_engine_stream (feed : List (Event × Ask)) :
    ∀ (s : EngA) (rep : Replica), rep.seq + 1 = s.seq →
    ∃ n, n ≤ feed.length ∧ ∃ rep', rep.run (runWithAudit s feed).2 = .ok rep' ∧
      rep'.state = replicaRun rep.state (feed.take n) ∧
      (runWithAudit s feed).1.eng = engineRun s.eng (feed.take n) := by
  induction feed with
  | nil =>
    intro s rep _
    exact ⟨0, by simp, rep, by simp [runWithAudit, Replica.run, Replica.step], rfl, rfl⟩
  | cons t rest ih =>
    intro s rep hseq
    obtain ⟨ev, ask⟩ := t
    have h1 : ¬ rep.seq ≥ s.seq := by omega
    have h2 : ¬ rep.seq + 1 ≠ s.seq := by omega
    simp only [runWithAudit]
    split
    · rename_i ht
      refine ⟨1, by simp, ⟨replicaApply rep.state ev, s.seq⟩, ?_, ?_, ?_⟩
      · simp only [processWithAudit] at ht
        simp [Replica.run, Replica.step, processWithAudit, h1, h2, ht]
      · simp [replicaRun]
      · simp [engineRun, processWithAudit]
    · rename_i ht
      obtain ⟨n, hn, rep', hr, hs, he⟩ :=
        ih (processWithAudit s ev ask).1 ⟨replicaApply rep.state ev, s.seq⟩ (by simp [processWithAudit])
      refine ⟨n + 1, by simpa using hn, rep', ?_, ?_, ?_⟩
      · simp only [processWithAudit] at ht hr
        simp [Replica.run, Replica.step, processWithAudit, h1, h2, ht]
        exact hr
      · simpa [replicaRun] using hs
      · simpa [engineRun, processWithAudit] using he
