import BarterModel.Props.C09
open BarterModel.Stale BarterModel.Orders BarterModel.Props.C09

-- (A) L1: event time ≠ payload time. Events (te, payload.tl): (10,10), (11, 5), (8, 8)
def pA : L1 := ⟨10, 1, 1, 2, 1⟩
def pB : L1 := ⟨5, 3, 1, 4, 1⟩     -- delivered with EVENT time 11
def pC : L1 := ⟨8, 5, 1, 6, 1⟩     -- delivered with event time 8 (older than 11 and than 10)
example : (((MarketData.init.bookL1 10 pA).bookL1 11 pB).bookL1 8 pC).l1 = some pC := by decide +kernel
-- i.e. the event with time 8 overwrote state written by the events with times 10 and 11

-- (B) orders: Open(t=5) ; Cancelled ; late Open(t=2)  ⇒ order tracked again with t=2
def o5 : Open := ⟨1, 5, 0⟩
def o2 : Open := ⟨1, 2, 0⟩
def cancelled (c : Nat) : Op := .snapshot ⟨c, 10, 100, .inactive .cancelled, 0⟩
example : stateOf (run [] [snapOpen 7 10 100 o5, cancelled 7, snapOpen 7 10 100 o2]) 7 = some (.opn o2) := by
  decide +kernel
-- while the permutation with the late report first ends untracked
example : stateOf (run [] [snapOpen 7 10 100 o2, snapOpen 7 10 100 o5, cancelled 7]) 7 = none := by
  decide +kernel
-- held time went 5 → (untracked) → 2
example : heldTime (stateOf (run [] [snapOpen 7 10 100 o5]) 7) = some 5 ∧
    heldTime (stateOf (run [] [snapOpen 7 10 100 o5, cancelled 7, snapOpen 7 10 100 o2]) 7) = some 2 := by
  decide +kernel
-- (C) a late fully-filled open report with an OLD timestamp removes a newer open order
def o1full : Open := ⟨1, 1, 10⟩
example : stateOf (run [] [snapOpen 7 10 100 o5, snapOpen 7 10 100 o1full]) 7 = none := by decide +kernel
