import BarterModel.Props.C11
open BarterModel.Index BarterModel.Props.C11

/-- per-exchange uniqueness only (what find_instrument_index actually keys on) -/
def WFNamesEx (defs : List Def) : Prop :=
  ∀ a ∈ defs, ∀ b ∈ defs, a.exchange = b.exchange → a.nameInternal = b.nameInternal → a = b

theorem lookups_inverse_instrument_weak {defs : List Def} {ii : Indexed} (h : build defs = some ii)
    (hwf : WFNamesEx defs) (e ni k : Nat) :
    ii.findInstrumentIndex e ni = some k ↔
      ∃ i, ii.findInstrument k = some i ∧ i.exchange.value = e ∧ i.nameInternal = ni := by
  rw [findInstrument_eq defs ii h, findInstrumentIndex_eq defs ii h,
    findIdx?_eq_some_iff_unique_pos]
  · simp only [List.getElem?_map, decide_eq_true_eq]
  · intro j1 j2 x y hx hy px py
    simp only [List.getElem?_map, Option.map_eq_some_iff] at hx hy
    obtain ⟨x', hx', rfl⟩ := hx
    obtain ⟨y', hy', rfl⟩ := hy
    simp only [decide_eq_true_eq] at px py
    obtain ⟨d1, hd1, _, e1, _, n1, _⟩ := build_instrument_at defs ii h j1 x' hx'
    obtain ⟨d2, hd2, _, e2, _, n2, _⟩ := build_instrument_at defs ii h j2 y' hy'
    have m1 : d1 ∈ defs := (mem_sortedDefs _ _).mp (List.mem_iff_getElem?.mpr ⟨_, hd1⟩)
    have m2 : d2 ∈ defs := (mem_sortedDefs _ _).mp (List.mem_iff_getElem?.mpr ⟨_, hd2⟩)
    have e : d1 = d2 := hwf d1 m1 d2 m2 (by rw [← e1, ← e2, px.1, py.1]) (by rw [← n1, ← n2, px.2, py.2])
    subst e
    have hlt : j1 < (sortedDefs defs).length := (List.getElem?_eq_some_iff.mp hd1).1
    exact (List.getElem?_inj hlt (nodup_sortedDefs defs)).mp (by rw [hd1, hd2])

-- a collection that satisfies WFNamesEx but not WFNames: same internal name on two exchanges
def twoEx : List Def := [⟨0, 5, 5, ⟨1, 1⟩, ⟨2, 2⟩, 1, .spot, none⟩, ⟨1, 5, 5, ⟨1, 1⟩, ⟨2, 2⟩, 1, .spot, none⟩]
example : ¬ WFNames twoEx := by decide
#eval (build twoEx).map (fun ii => (ii.findInstrumentIndex 0 5, ii.findInstrumentIndex 1 5, instrumentStates ii |>.length))

-- WFAssets violated: one exchange, asset internal name 1 with two exchange names (1 and 9)
def badAssets : List Def :=
  [⟨0, 5, 5, ⟨1, 9⟩, ⟨2, 2⟩, 1, .spot, none⟩, ⟨0, 6, 6, ⟨1, 1⟩, ⟨2, 2⟩, 1, .spot, none⟩]
#eval (build badAssets).map (fun ii => (ii.assets.map (·.value), ii.instruments.map (fun x => resolve ii x.value)))
#eval (build badAssets).map (fun ii => (ii.findAssetIndex 0 1, ii.findAsset 1, (assetStates ii).length, ii.assets.length))
