import BarterModel.Props.C12
open BarterModel.Streams BarterModel.Props.C12

-- right input sends 10, 11, 12 BEFORE the left input ends; left never sent anything; first poll left-first
def lossOps : List MOp := [.send false 10, .send false 11, .send false 12, .close true, .poll true, .poll false]
#eval (MergeSt.init.run lossOps).2
#eval ((MergeSt.init.run lossOps).1.done, (MergeSt.init.run lossOps).1.b.queue)

-- the stronger reading of "every item up to the point either input ends" is refuted in the model:
example : ¬ (∀ (ops : List MOp) (left : Bool), (MergeSt.init.run ops).1.done = true →
    polled left (MergeSt.init.run ops).2 = acceptedOf left (MergeSt.init.run ops).2) := by
  intro h
  have := h lossOps false (by decide)
  revert this; decide

-- and the abstract spec itself allows ending with the other queue non-empty
example : (({ l := [], r := [10,11,12], lClosed := true, rClosed := false, ended := true } : MCfg), MOut.ended)
    ∈ ({ l := [], r := [10,11,12], lClosed := true, rClosed := false, ended := false } : MCfg).allowed := by decide

-- with tokio's own alternating schedule (MergeSt.poll) from the initial state (aFirst = true) the same loss:
def runPolls : MergeSt → Nat → List MOut
  | _, 0 => []
  | st, n+1 => let (st', o) := st.poll; o :: runPolls st' n
#eval runPolls (MergeSt.init.run [.send false 10, .send false 11, .send false 12, .close true]).1 3
