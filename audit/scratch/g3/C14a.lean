import BarterModel.Props.C14
open BarterModel.Conn BarterModel.Props.C14
-- n = 0: the iff fails (vacuously all links healthy, global reconnecting)
example : ¬ ((Eng.init 0).conn.global = .healthy ↔
    ∀ c ∈ (Eng.init 0).conn.exchanges, c.marketData = .healthy ∧ c.account = .healthy) := by decide
-- Reach is needed for heals: unreachable state global=healthy with a reconnecting link is not healed
#eval ((⟨⟨.healthy, [⟨.reconnecting, .healthy⟩]⟩, []⟩ : Eng).step (.marketItem 0)).conn
-- stronger combined statement: a full "notice then next item" round trip restores global iff everything else healthy
theorem round_trip {n : Nat} (hn : 0 < n) {s : Eng} (h : Reach n s) (e : Nat) (he : e < n)
    (hg : s.conn.global = .healthy) :
    ((s.step (.marketReconnecting e)).step (.marketItem e)).conn = s.conn := by
  sorry
