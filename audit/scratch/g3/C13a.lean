import BarterModel.Props.C13
open BarterModel.Connectors BarterModel.Props.C13

def gp : Pair := ⟨.gateioPerpetualsUsd, .publicTrades⟩
-- a Gateio perpetual sell of 2 contracts: normalised PublicTrade.amount is -2 (tradeView hides it via absR)
#eval (events gp 0 ⟨"futures.trades".toList, "BTC_USDT".toList, 0, [⟨100, -2, .buy, 5⟩]⟩).map (fun e => repr e.kind)
#eval (events bitfinex 0 ⟨[], [], 7, [⟨100, -2, .buy, 5⟩]⟩).map (fun e => repr e.kind)

-- ambiguous pair on a concatenating venue: both instruments subscribed, messages for BTCUSD go to key 1
def bp : Pair := ⟨.binanceSpot, .publicTrades⟩
def amb : List Inst := [⟨"bt".toList, "cusd".toList, .spot⟩, ⟨"btc".toList, "usd".toList, .spot⟩]
#eval (mapOf bp amb)
-- attributed needs only "no LATER subscription has the same id" (HashMap insert: last wins). Try weaker statement:
theorem attributed_last (p : Pair) (subs : List Inst) (k : Nat) (i : Inst) (hk : subs[k]? = some i)
    (hlast : ∀ j i', k < j → subs[j]? = some i' → subscriptionId p i' ≠ subscriptionId p i) :
    (mapOf p subs).find (subscriptionId p i) = some k := by
  sorry
-- non-ASCII: model says market = venueSymbol also for 'ß' (Rust: "ß".to_uppercase() = "SS")
#eval String.ofList (market .binanceSpot ⟨"ß".toList, "usd".toList, .spot⟩)
-- mixed-symbol batch is unrepresentable: Msg has ONE market field
#check @Msg.mk
