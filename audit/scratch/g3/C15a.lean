import BarterModel.Props.C15
open BarterModel.Position BarterModel.Stale BarterModel.Unrealised BarterModel.Props.C15

-- long 2@100 (no fee), public trade 150 at t=2, increase 2@110 at t=4 (mark = fill price 110),
-- then a PRICE-LESS item (candle / liquidation / L2) at t=5, or a STALE trade (t=1 < everything)
def h0 : List Ev := [.fill ⟨1, 0, 1, .buy, 100, 2, 0⟩, .market ⟨0, 2, .trade 150⟩, .fill ⟨2, 0, 4, .buy, 110, 2, 0⟩]
def hOther : List Ev := h0 ++ [.market ⟨0, 5, .other⟩]
def hStale : List Ev := h0 ++ [.market ⟨0, 1, .trade 90⟩]
def obs (evs : List Ev) := ((EngineState.init 1).run evs)[0]?.bind (·.upnl)
def sobs (evs : List Ev) := (((Spec.init 1).run evs)[0]?.bind (·.upnl), ((Spec.init 1).run evs)[0]?.bind (·.mark))
#eval (obs h0, sobs h0)         -- est(110): (110-105)*4 = 20
#eval (obs hOther, sobs hOther) -- est(150) = 180 : price OLDER than the fill, spec agrees by construction
#eval (obs hStale, sobs hStale)
example : ValidEvs hOther ∧ ValidEvs hStale := by decide +kernel

-- zero total amount top of book: Decimal panics (division by zero), Rat gives 0; theorem range includes it
#eval volumeWeightedMidPrice ⟨3, 99, 0, 101, 0⟩
def hZero : List Ev := [.fill ⟨1, 0, 1, .buy, 100, 2, 0⟩, .market ⟨0, 3, .bookL1 ⟨3, 99, 0, 101, 0⟩⟩]
example : ValidEvs hZero := by decide +kernel
#eval (obs hZero, sobs hZero)
