import BarterModel.Props.C05
open BarterModel.Book BarterModel.Props.C05
-- sanity: a false statement must be rejected
example : (OrderBook.default.run [.snapshot ⟨1, [⟨100, 1⟩, ⟨100, 2⟩], []⟩, .update ⟨2, [⟨100, 0⟩], []⟩]).bids = [] := by
  decide +kernel
