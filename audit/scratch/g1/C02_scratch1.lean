import BarterModel.Props.C02
open BarterModel.Position BarterModel.Props.C02

#print axioms size_is_net
#print axioms exit_iff_cross
#print axioms conservation
#print axioms fees_conserved
#print axioms trade_ids
#print axioms crossing_fill_splits
#print axioms state_machine_agrees_with_source

-- flip step of the non-vacuity example: fees 3 split 2 (exit) / 1 (enter)
#eval ((runFills (exFills.take 4)).pm.update (exFills[4]!)).2.map (fun e => (e.feesEnter, e.feesExit, e.pnlRealised, e.trades))
#eval ((runFills (exFills.take 4)).pm.update (exFills[4]!)).1.current.map (fun p => (p.side, p.quantityAbs, p.feesEnter, p.pnlRealised, p.trades))

-- engine: fill for an out-of-range instrument is silently skipped by the model (code panics)
#eval (Instruments.run (Instruments.init 1) [⟨1, 5, 0, .buy, 100, 2, 1⟩, ⟨2, 0, 1, .buy, 100, 2, 1⟩]).map (fun r => r.pm.signedQty)

-- (6) is definitional: closes by unfolding only
example (l : Life) (f : Trade) (h : ¬(l.net = 0 ∨ Crosses l.net (l.net + signedQty f))) (ha : l.net + signedQty f ≠ 0) :
    (l.step f).maxAbs = (if abs (l.net + signedQty f) > l.maxAbs then abs (l.net + signedQty f) else l.maxAbs) := by
  simp [Life.step, h, ha]
