import BarterModel.Props.C01
open BarterModel.Orders BarterModel.Props.C01

def oT5 : Open := ⟨7, 5, 0⟩
def oT1 : Open := ⟨7, 1, 0⟩
def snapO (o : Open) : Op := .snapshot ⟨1, 10, 100, .active (.opn o), 0⟩
def snapCancelled : Op := .snapshot ⟨1, 10, 100, .inactive .cancelled, 0⟩

-- (1) cross-episode rollback: open t=5, cancelled, stale open t=1  ==> held time 1 after having held 5
def h1 : List Op := [snapO oT5, snapCancelled, snapO oT1]
example : heldTime (stateOf (run [] (h1.take 1)) 1) = some 5 := by decide +kernel
example : heldTime (stateOf (run [] h1) 1) = some 1 := by decide +kernel
example : ∀ op ∈ h1, op.exchangeStatesOnly = true := by decide +kernel
example : ∀ op ∈ h1, ∀ q p x, op ≠ .recOpen 1 q p x := by
  intro op hop q p x; simp [h1, snapO, snapCancelled] at hop; rcases hop with h|h|h <;> simp [h]

-- the "strong" run theorem (no htracked) is therefore false:
example : ¬ (∀ (m : Orders) (ops : List Op) (c : Nat),
    (∀ op ∈ ops, op.exchangeStatesOnly = true) →
    (∀ op ∈ ops, ∀ q p x, op ≠ .recOpen c q p x) →
    ∀ t t', heldTime (stateOf m c) = some t → heldTime (stateOf (run m ops) c) = some t' → t ≤ t') := by
  intro h
  have := h (run [] [snapO oT5]) [snapCancelled, snapO oT1] 1 (by decide +kernel)
    (by intro op hop q p x; simp [snapO, snapCancelled] at hop; rcases hop with h|h <;> simp [h])
    5 1 (by decide +kernel) (by decide +kernel)
  omega

-- (2) duplicate open request (in the property's quantifier: "including duplicates")
def h2 : List Op := [.recOpen 1 10 100, snapO oT5, .recOpen 1 10 100, snapO oT1]
example : heldTime (stateOf (run [] (h2.take 2)) 1) = some 5 := by decide +kernel
example : heldTime (stateOf (run [] h2) 1) = some 1 := by decide +kernel

-- (3) applySnapshot is Engine.run on snapshot ops (no theorem states it)
example (e : Engine) (items : List (Nat × Snap)) :
    e.applySnapshot items = e.run (items.map fun is => (is.1, Op.snapshot is.2)) := by
  simp [Engine.applySnapshot, Engine.run, List.foldl_map]

-- (4) run-level frame on whole entries
example (m : Orders) (ops : List Op) (c' : Nat) (h : ∀ op ∈ ops, c' ≠ op.cid) :
    lookup (run m ops) c' = lookup m c' := by
  induction ops generalizing m with
  | nil => rfl
  | cons op ops ih =>
    simp only [run, List.foldl_cons]
    have := ih (step m op) (fun o ho => h o (by simp [ho]))
    simp only [run] at this
    rw [this, frame_cid m op c' (h op (by simp))]

-- (5) history: cancel err in the middle (outside C09's OrdEv alphabet): still restores max
def oT3 : Open := ⟨7, 3, 0⟩
example : stateOf (run [] [snapO oT5, .recCancel 1, .cancelResp 1 false, snapO oT3, .recCancel 1, .cancelResp 1 false]) 1 = some (.opn oT5) := by decide +kernel
-- tie on timestamp: filled moves back
def oT5f5 : Open := ⟨7, 5, 5⟩
example : stateOf (run [] [snapO oT5f5, snapO oT5]) 1 = some (.opn oT5) := by decide +kernel
example : heldTime (stateOf (run [] h1) 1) = some 5 := by decide +kernel
#eval stateOf (run [] h2) 1
