import BarterModel.Props.C05
open BarterModel.Book BarterModel.Props.C05
/-- missing side condition: with non-negative stored amounts on a WF book the divisor of the
volume-weighted mid-price is non-zero (so Rat's x/0=0 is never used). -/
theorem vw_divisor_ne_zero {b : OrderBook} (hb : WFBook b)
    (hnb : ∀ l ∈ b.bids, 0 ≤ l.amount) (hna : ∀ l ∈ b.asks, 0 ≤ l.amount)
    (bb ba : Level) (h1 : b.bids.head? = some bb) (h2 : b.asks.head? = some ba) :
    bb.amount + ba.amount ≠ 0 := by
  have m1 : bb ∈ b.bids := List.mem_of_head? h1
  have m2 : ba ∈ b.asks := List.mem_of_head? h2
  have := hb.bidsNonZero bb m1
  have := hb.asksNonZero ba m2
  have := hnb bb m1
  have := hna ba m2
  grind
