import BarterModel.Props.C04
open BarterModel.ExecMap BarterModel.Props.C04

/-- missing from Props/C04: the names the manager hands to `client.account_snapshot/account_stream`
(manager.rs:102-107) are exactly the names of the instruments / assets of `ex`, in index order. -/
theorem exchangeInstruments_eq {c : Coll} {ex : Nat} {m : EMap} (hI : Indexed c) (hm : genMap c ex = .ok m) :
    m.exchangeInstruments = (c.instruments.filter fun k => k.exchange == ex).map (·.nameExchange) ∧
    m.exchangeAssets = (c.assets.filter fun k => k.exchange == ex).map (·.nameExchange) := by
  obtain ⟨ke, hke, rfl⟩ := genMap_ok hm
  constructor
  · show List.map (·.2) (collect _) = _
    rw [collect_of_nodup _ (tbl_keys_nodup KInstrument.key KInstrument.exchange KInstrument.nameExchange hI.2.2 ex),
      tbl_eq, List.map_map]; rfl
  · show List.map (·.2) (collect _) = _
    rw [collect_of_nodup _ (tbl_keys_nodup KAsset.key KAsset.exchange KAsset.nameExchange hI.2.1 ex),
      tbl_eq, List.map_map]; rfl
