import BarterModel.Props.C03
import BarterModel.Props.C19
open BarterModel.Engine BarterModel.Orders BarterModel.Props.C03

namespace C03Audit

/-! ### G1: clause (2) for the ClosePositions command (not in Props/C03.lean, nor C19) -/
theorem close_sent_in_flight (e : Eng) (f : Filter) (r : OpenReq)
    (hr : r ∈ (action e (.closePositions f)).2.opens.sent) :
    orderState (action e (.closePositions f)).1 r.key.instrument r.key.cid = some .inFlight := by
  simp only [action] at hr ⊢
  have hm : r ∈ closeRequests e f := by
    simp only [sendRequests, List.mem_filter] at hr; exact hr.1
  obtain ⟨i, s', side, q, p, hs', _, _, _, rfl⟩ := (mem_closeRequests e f r).mp hm
  have hi : i < e.instruments.length := by
    rcases Nat.lt_or_ge i e.instruments.length with h | h
    · exact h
    · rw [List.getElem?_eq_none h] at hs'; cases hs'
  exact orderState_recordOpens_mem _ _ _ hr (by simpa [sendRequests, recordCancels] using hi)

/-! ### G2: clause (5) "the tick that disables does not generate" (disabled_no_generation needs
`e.enabled = false` beforehand) -/
theorem disabling_tick_no_generation (e : Eng) (algoC : List CancelReq) (algoO : List OpenReq)
    (refuse : Key → Bool) :
    (process e (.tradingState false) algoC algoO refuse).2.generated = none ∧
    (process e (.tradingState false) algoC algoO refuse).1.log = e.log := by
  have h : (updateTradingState e false).enabled = false := by
    unfold updateTradingState; split <;> rfl
  have hl : (updateTradingState e false).log = e.log := by
    unfold updateTradingState; split <;> rfl
  simp only [process]
  unfold generateStage
  simp [h, hl]

/-! ### G3: clause (5) "keeps updating its state": no theorem in C03.lean -/
theorem disabled_still_updates (e : Eng) (u : Update) (algoC : List CancelReq) (algoO : List OpenReq)
    (refuse : Key → Bool) (hd : e.enabled = false) :
    (process e (.update u) algoC algoO refuse).1 = applyUpdate e u := by
  have : (applyUpdate e u).enabled = false := by cases u <;> simpa [applyUpdate] using hd
  simp [process, generateStage, this]

/-- and a disabled command tick leaves exactly the state `action` left (log, marks) -/
theorem disabled_command_state (e : Eng) (c : Command) (algoC : List CancelReq) (algoO : List OpenReq)
    (refuse : Key → Bool) (hd : e.enabled = false) :
    (process e (.command c) algoC algoO refuse).1 = (action e c).1 := by
  simp only [process]
  split
  · rfl
  · simp [generateStage, action_enabled, hd]

/-! ### G4: clause (3) "failed request leaves no mark" for COMMANDS (unsent_leaves_no_mark is
stated for generateAlgoOrders only) -/
theorem unsent_leaves_no_mark_open_cmd (e : Eng) (rs : List OpenReq) (i c : Nat)
    (h : ∀ o ∈ (action e (.sendOpenRequests rs)).2.opens.sent, ¬ (o.key.instrument = i ∧ o.key.cid = c)) :
    orderState (action e (.sendOpenRequests rs)).1 i c = orderState e i c := by
  simp only [action] at h ⊢
  rw [orderState_recordOpens_other _ _ _ _ h]
  simp [orderState, sendRequests]

end C03Audit

#print axioms C03Audit.close_sent_in_flight
#print axioms C03Audit.disabling_tick_no_generation
#print axioms C03Audit.disabled_still_updates
#print axioms C03Audit.disabled_command_state
#print axioms C03Audit.unsent_leaves_no_mark_open_cmd
