import BarterModel.Props.C04
open BarterModel.ExecMap BarterModel.Props.C04

/-- readable consequence of `account_event_refines_spec` for a nested key: an order snapshot event
whose state is OpenFailed(Rejected(BalanceInsufficient(asset name))) — the asset index in the
indexed event is an asset of `ex` with that name, the order key instrument likewise. -/
example {c : Coll} {ex : Nat} {m : EMap} (hW : WF c ex) (hm : genMap c ex = .ok m)
    (x : Nat) (k : OKey Nat Nat) (p a : Nat) (ev' : AccEvent Nat Nat Nat)
    (h : accountEvent m ⟨x, .orderSnapshot ⟨k, p, .openFailed (.rejected (.balanceInsufficient a))⟩⟩ = .ok ev') :
    x = ex ∧ k.exchange = ex ∧
    ∃ xi i a' : Nat, ev'.exchange = xi ∧
      (∃ ka : KAsset, c.assets[a']? = some ka ∧ ka.exchange = ex ∧ ka.nameExchange = a) ∧
      (∃ ki : KInstrument, c.instruments[i]? = some ki ∧ ki.exchange = ex ∧ ki.nameExchange = k.instrument) ∧
      (∃ kx : KExchange, c.exchanges[xi]? = some kx ∧ kx.id = ex) := by
  have hs := account_event_refines_spec hW hm ⟨x, .orderSnapshot ⟨k, p, .openFailed (.rejected (.balanceInsufficient a))⟩⟩
  rw [h] at hs
  simp only [specAccountEvent, AccEvent.traverse, AEKind.traverse, OrderSnap.traverse, OKey.traverse,
    OState.traverse, OrderErr.traverse, ApiErr.traverse] at hs
  cases h1 : specExchangeIndex c ex x with
  | none => simp [h1, Except.toOption] at hs
  | some xi =>
    cases h2 : specExchangeIndex c ex k.exchange with
    | none => simp [h1, h2, Except.toOption] at hs
    | some xi2 =>
      cases h3 : specInstrumentIndex c ex k.instrument with
      | none => simp [h1, h2, h3, Except.toOption] at hs
      | some i =>
        cases h4 : specAssetIndex c ex a with
        | none => simp [h1, h2, h3, h4, Except.toOption] at hs
        | some a' =>
          simp [h1, h2, h3, h4, Except.toOption] at hs
          have e1 := (specExchangeIndex_some hW x xi).mp h1
          have e2 := (specExchangeIndex_some hW k.exchange xi2).mp h2
          refine ⟨e1.1, e2.1, xi, i, a', by subst hs; rfl, (specAssetIndex_some hW a a').mp h4,
            (specInstrumentIndex_some hW _ i).mp h3, e1.2⟩
