import BarterModel.Props.C04
open BarterModel.ExecMap
namespace C04Audit

/-! F-A: `request_addressed` needs only WFX (no name injectivity). -/
theorem request_addressed_wfx {c : Coll} {ex : Nat} {m : EMap} (hW : WFX c) (hm : genMap c ex = .ok m)
    {o r : OEvent Nat Nat} (h : orderRequest m o = .ok r) :
    r.key.exchange = ex ∧
    (∃ kx, c.exchanges[o.key.exchange]? = some kx ∧ kx.id = ex) ∧
    (∃ k, c.instruments[o.key.instrument]? = some k ∧ k.exchange = ex ∧
      k.nameExchange = r.key.instrument) ∧
    r.key.cid = o.key.cid ∧ r.state = o.state := by
  have A := agrees_of_indexed hW.1 hm
  unfold orderRequest at h
  split at h
  · cases h
  · rename_i id hid
    split at h
    · cases h
    · rename_i name hname
      injection h with h; subst h
      rw [findExchangeId_eq A hW.2] at hid
      cases hs : specExchangeId c ex o.key.exchange with
      | none => rw [hs] at hid; cases hid
      | some id' =>
        rw [hs] at hid
        injection hid with hid; subst hid
        have := (specExchangeId_some c ex o.key.exchange id').mp hs
        exact ⟨this.1, this.2, BarterModel.Props.C04.instrument_name_sound hW.1 hm hname, rfl, rfl⟩

/-! F-B: name → index soundness needs only `Indexed` (no injectivity, no Nodup ids). -/

theorem lookup_foldl_upsert_mem (l m : List (Nat × Nat)) (k v : Nat)
    (h : (l.foldl (fun m kv => upsert m kv.1 kv.2) m).lookup k = some v) :
    (k, v) ∈ l ∨ m.lookup k = some v := by
  induction l generalizing m with
  | nil => exact Or.inr h
  | cons x t ih =>
    simp only [List.foldl_cons] at h
    rcases ih _ h with h1 | h1
    · exact Or.inl (List.mem_cons_of_mem _ h1)
    · rw [lookup_upsert] at h1
      split at h1
      · rename_i e
        injection h1 with h1
        left; subst e; subst h1; exact List.mem_cons_self
      · exact Or.inr h1

theorem lookup_collect_mem (l : List (Nat × Nat)) (k v : Nat) (h : (collect l).lookup k = some v) :
    (k, v) ∈ l := by
  rcases lookup_foldl_upsert_mem l [] k v h with h | h
  · exact h
  · cases h

theorem instrument_name_index_sound_indexed {c : Coll} {ex : Nat} {m : EMap} (hI : Indexed c)
    (hm : genMap c ex = .ok m) {n i : Nat} (h : m.findInstrumentIndex n = .ok i) :
    (∃ k, c.instruments[i]? = some k ∧ k.exchange = ex ∧ k.nameExchange = n) ∧
    m.findInstrumentName i = .ok n := by
  have A := agrees_of_indexed hI hm
  obtain ⟨ke, hke, rfl⟩ := genMap_ok hm
  unfold EMap.findInstrumentIndex at h
  split at h
  · rename_i i' hl
    injection h with h; subst h
    have hmem := lookup_collect_mem _ _ _ hl
    simp only [EMap.new, List.mem_map] at hmem
    obtain ⟨⟨a, b⟩, hab, he⟩ := hmem
    simp only [Prod.mk.injEq] at he
    obtain ⟨rfl, rfl⟩ := he
    have hn := tbl_keys_nodup KInstrument.key KInstrument.exchange KInstrument.nameExchange hI.2.2 ex
    have hab' : (a, b) ∈ tbl KInstrument.key KInstrument.exchange KInstrument.nameExchange c.instruments ex := by
      have := hab
      rw [collect_of_nodup _ hn] at this
      exact this
    have hk := (mem_tbl KInstrument.key KInstrument.exchange KInstrument.nameExchange hI.2.2 ex a b).mp hab'
    refine ⟨hk, ?_⟩
    rw [findInstrumentName_eq A, (specInstrumentName_some c ex a b).mpr hk]
  · cases h

/-! F-C: unknown names are rejected for EVERY collection (no hypothesis at all). -/
theorem mem_upsert (m : List (Nat × Nat)) (k v : Nat) (x : Nat × Nat) (h : x ∈ upsert m k v) :
    x = (k, v) ∨ x ∈ m := by
  induction m with
  | nil => simp [upsert] at h; exact Or.inl h
  | cons hd t ih =>
    obtain ⟨a, b⟩ := hd
    simp only [upsert] at h
    split at h
    · rename_i e; subst e
      rcases List.mem_cons.mp h with h | h
      · exact Or.inl h
      · exact Or.inr (List.mem_cons_of_mem _ h)
    · rcases List.mem_cons.mp h with h | h
      · exact Or.inr (by rw [h]; exact List.mem_cons_self)
      · rcases ih h with h | h
        · exact Or.inl h
        · exact Or.inr (List.mem_cons_of_mem _ h)

theorem mem_foldl_upsert (l m : List (Nat × Nat)) (x : Nat × Nat)
    (h : x ∈ l.foldl (fun m kv => upsert m kv.1 kv.2) m) : x ∈ l ∨ x ∈ m := by
  induction l generalizing m with
  | nil => exact Or.inr h
  | cons y t ih =>
    simp only [List.foldl_cons] at h
    rcases ih _ h with h | h
    · exact Or.inl (List.mem_cons_of_mem _ h)
    · rcases mem_upsert _ _ _ _ h with h | h
      · left; rw [h]; exact List.mem_cons_self
      · exact Or.inr h

theorem mem_collect (l : List (Nat × Nat)) (x : Nat × Nat) (h : x ∈ collect l) : x ∈ l := by
  rcases mem_foldl_upsert l [] x h with h | h
  · exact h
  · cases h

theorem instrument_unknown_name_rejected_nohyp {c : Coll} {ex : Nat} {m : EMap}
    (hm : genMap c ex = .ok m) {n : Nat}
    (hu : ∀ k ∈ c.instruments, k.exchange = ex → k.nameExchange ≠ n) :
    m.findInstrumentIndex n = .error .instrumentIndex := by
  obtain ⟨ke, hke, rfl⟩ := genMap_ok hm
  unfold EMap.findInstrumentIndex
  split
  · rename_i i hl
    exfalso
    have hmem := lookup_collect_mem _ _ _ hl
    simp only [EMap.new, List.mem_map] at hmem
    obtain ⟨⟨a, b⟩, hab, he⟩ := hmem
    simp only [Prod.mk.injEq] at he
    obtain ⟨rfl, rfl⟩ := he
    have h2 := mem_collect _ _ hab
    simp only [tbl, List.mem_filterMap] at h2
    obtain ⟨k, hk, hkk⟩ := h2
    split at hkk
    · rename_i hex
      simp only [Option.some.injEq, Prod.mk.injEq] at hkk
      exact hu k hk (by simpa using hex) hkk.2
    · cases hkk
  · rfl

end C04Audit
#print axioms C04Audit.request_addressed_wfx
#print axioms C04Audit.instrument_name_index_sound_indexed
#print axioms C04Audit.instrument_unknown_name_rejected_nohyp
