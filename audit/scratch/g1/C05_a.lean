import BarterModel.Props.C05
open BarterModel.Book BarterModel.Props.C05

/-! 1. delete_absent_noop holds with NO order / non-zero hypothesis (hypotheses unnecessary). -/
theorem delete_absent_noop_strong (s : Side) (ls : List Level) (new : Level)
    (hzero : new.amount = 0) (habsent : ∀ l ∈ ls, l.price ≠ new.price) :
    upsertSingle s new ls = ls := by
  induction ls with
  | nil => simp [upsertSingle, hzero]
  | cons x xs ih =>
    have hx : x.price ≠ new.price := habsent x (by simp)
    have ih := ih (fun l hl => habsent l (by simp [hl]))
    simp only [upsertSingle]
    split
    · rw [ih]
    · rename_i hc
      rw [Side.cmp_eq_iff] at hc
      exact absurd hc hx
    · simp [hzero]

/-! 2. WFEvents is necessary: a Snapshot with a duplicate price (what `OrderBook::new` stores for
input [(100,1),(100,2)]), then a delete of 100: book still holds 100, the map does not. -/
def dupSnap : OrderBook := ⟨1, [⟨100, 1⟩, ⟨100, 2⟩], []⟩
def delUpd : OrderBook := ⟨2, [⟨100, 0⟩], []⟩

-- model: one of the two levels survives the delete
example : (OrderBook.default.run [.snapshot dupSnap, .update delUpd]).bids = [⟨100, 2⟩] := by
  decide +kernel
-- function spec: map is empty at 100
example : ((absBook OrderBook.default).run [.snapshot dupSnap, .update delUpd]).bids 100 = 0 := by
  decide +kernel
-- executable spec: empty
example : (Spec.init.run [.snapshot dupSnap, .update delUpd]).book.bids = [] := by
  decide +kernel
-- "no price appearing twice" fails right after the snapshot
example : ¬ ((OrderBook.default.run [.snapshot dupSnap]).bids.map Level.price).Nodup := by
  decide +kernel

/-! zero amount in a snapshot: stored and is the best ask -/
def zeroSnap : OrderBook := ⟨1, [], [⟨101, 0⟩]⟩
example : (OrderBook.default.run [.snapshot zeroSnap]).asks = [⟨101, 0⟩] ∧
    (OrderBook.default.run [.snapshot zeroSnap]).midPrice = some 101 ∧
    ((absBook OrderBook.default).run [.snapshot zeroSnap]).asks 101 = 0 := by
  decide +kernel
-- the *executable* Spec does NOT treat the zero level as absent on a snapshot: it agrees with the model
example : (Spec.init.run [.snapshot zeroSnap]).book.asks = [⟨101, 0⟩] ∧
    (Spec.init.run [.snapshot zeroSnap]).midPrice = some 101 := by
  decide +kernel

/-! 3. vw mid price: WF history with amounts summing to zero -> theorem says `some 0`; Rust panics -/
def negSnap : OrderBook := ⟨1, [⟨100, 1⟩], [⟨101, -1⟩]⟩
example : WFEvents [.snapshot negSnap] := by
  intro sn h
  simp only [List.mem_cons, Event.snapshot.injEq, List.not_mem_nil, or_false] at h
  subst h
  refine { bids := ?_, asks := ?_, bidsNonZero := ?_, asksNonZero := ?_ } <;> decide +kernel
example : (OrderBook.default.run [.snapshot negSnap]).volumeWeightedMidPrice = some 0 := by
  decide +kernel
-- also reachable via updates only (no snapshot, hypothesis WFEvents vacuous)
example : (OrderBook.default.run [.update ⟨1, [⟨100, 1⟩], [⟨101, -1⟩]⟩]).volumeWeightedMidPrice = some 0 := by
  decide +kernel

/-! 4. best bid lifted to histories (composition inv + best_bid_is_max + abs_run) -/
theorem best_bid_after_history (evs : List Event) (h : WFEvents evs) (l : Level)
    (hl : (OrderBook.default.run evs).bids.head? = some l) :
    ((absBook OrderBook.default).run evs).bids l.price = l.amount ∧ l.amount ≠ 0 ∧
    ∀ q, ((absBook OrderBook.default).run evs).bids q ≠ 0 → q ≤ l.price := by
  have hw := inv_from_default evs h
  have hr := abs_run (b := OrderBook.default) wfBook_default.toSortedBook evs
    (fun sn hs => (h sn hs).toSortedBook)
  rw [← hr]
  exact best_bid_is_max hw l hl

#print axioms refines_spec
#print axioms holds_exactly
#print axioms inv
#print axioms abs_run
#print axioms manager_applies_per_instrument
#print axioms kernels_agree_with_source
