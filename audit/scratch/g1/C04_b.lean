import BarterModel.Props.C04
open BarterModel.ExecMap BarterModel.Props.C04

-- excluded point, reachable from the real builder: two definitions on one exchange with the same
-- name_exchange (e.g. same market, spec None vs Some(..), or different name_internal) are NOT deduped.
def dup : Coll := ⟨[⟨0, 10⟩], [], [⟨0, 10, 7⟩, ⟨1, 10, 7⟩]⟩
example : WFX dup ∧ ¬ WF dup 10 := by decide
-- request for instrument 0 is delivered under name 7, the echoed answer comes back under instrument 1
#eval (buildExecution dup [10]).toOption.bind id |>.map fun t =>
  (repr (route t ⟨⟨0, 0, 5⟩, 9⟩), repr (routeResponse t ⟨⟨0, 0, 5⟩, 9⟩))
-- trade named 7 is applied to index 1 (never 0)
#eval (genMap dup 10).toOption.map fun m => repr (trade m ⟨7, 3⟩)

-- asset side: same at asset level
def dupA : Coll := ⟨[⟨0, 10⟩], [⟨0, 10, 1⟩, ⟨1, 10, 1⟩], []⟩
#eval (genMap dupA 10).toOption.map fun m => (repr (m.findAssetName 0), repr (m.findAssetIndex 1))
