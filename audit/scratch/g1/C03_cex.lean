import BarterModel.Props.C03
open BarterModel.Engine BarterModel.Orders BarterModel.Props.C03

namespace C03Cex

/-- refused open on healthy exchange 0 (cid 7 refused) -/
def oRef : OpenReq := ⟨⟨0, 0, 7⟩, .buy, 100, 1⟩
def refuse7 : Key → Bool := fun k => k.cid == 7

/-! ### X1 (F8 extended): a tick with one refused request and one request to a closed link:
`generate_algo_orders` reports the refusal, the AUDIT (`algoInAudit`) carries nothing of it. -/
example :
    let a := (process demo (.update .other) [] [oRef, o1] refuse7).2
    a.algoInAudit = none ∧ a.fatal = true ∧
    (a.generated.map (·.opensRefused)) = some [oRef] := by decide +kernel

/-- same tick, healthy open o0 as well: delivered and in flight, the audit does not report it sent
(the documented F8 half) -/
example :
    let r := process demo (.update .other) [] [o0, oRef, o1] refuse7
    r.2.algoInAudit = none ∧ r.1.log = [.opn o0] ∧ orderState r.1 0 5 = some .inFlight := by
  decide +kernel

/-! ### X2: the command-level in-flight theorems do not lift verbatim to `process`: the same tick's
algo stage can rewrite the mark of a request the command reported sent. -/
def cAlgo : CancelReq := ⟨⟨0, 0, 5⟩, none⟩
example :
    let r := process demo (.command (.sendOpenRequests [o0])) [cAlgo] [] (fun _ => false)
    (r.2.commanded.map (·.opens.sent)) = some [o0] ∧
    orderState r.1 0 5 = some (.cancelInFlight none) := by decide +kernel

/-- tracked open order (0,5); command cancels it (sent), algo re-opens cid 5 in the same tick:
the order the cancel names ends `inFlight`, not cancel-in-flight -/
def demoT : Eng :=
  { demo with instruments := [⟨0, 0, 1, [(5, ⟨1, 100, .opn ⟨9, 0, 0⟩, 0⟩)], none, none⟩,
                              ⟨1, 2, 3, [], none, none⟩] }
example :
    let r := process demoT (.command (.sendCancelRequests [cAlgo])) [] [o0] (fun _ => false)
    (r.2.commanded.map (·.cancels.sent)) = some [cAlgo] ∧
    orderState r.1 0 5 = some .inFlight := by decide +kernel

/-! ### X3: totalisation: a sent open naming an unknown instrument is delivered, reported sent and
NOT in flight in the model (the code panics in `instrument_index_mut`). -/
def oBad : OpenReq := ⟨⟨0, 9, 5⟩, .buy, 100, 1⟩
example :
    let r := action demo (.sendOpenRequests [oBad])
    r.2.opens.sent = [oBad] ∧ r.1.log = [.opn oBad] ∧ orderState r.1 9 5 = none := by decide +kernel

/-! ### X4: a failed request can still end up "in flight" when another request with the same
(instrument, cid) goes to a healthy exchange — `unsent_leaves_no_mark` is silent there -/
def o1same : OpenReq := ⟨⟨1, 0, 5⟩, .buy, 100, 1⟩   -- closed exchange 1, instrument 0, cid 5
example :
    let r := generateAlgoOrders demo [] [o0, o1same] (fun _ => false)
    r.2.opens.errors = [(o1same, .terminated)] ∧ orderState r.1 0 5 = some .inFlight := by
  decide +kernel

end C03Cex
