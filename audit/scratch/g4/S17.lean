import BarterModel.Props.C17
import Lean
open BarterModel.DataSet BarterModel.Props.C17

-- (a) hypothesis xs ≠ [] of mean_in_range is unnecessary
theorem mean_in_range' (sqrtFn : Rat → Rat) (xs : List Rat) :
    let s := Summary.run sqrtFn xs
    s.dispersion.range.low ≤ s.mean ∧ s.mean ≤ s.dispersion.range.high := by
  cases xs with
  | nil => simp [Summary.run, Summary.default, Dispersion.default, Range.default]
  | cons a as => exact mean_in_range sqrtFn (a :: as) (by simp)

-- (b) std_dev_eq for [] : both sides?
example (f : Rat → Rat) : (Summary.run f []).dispersion.stdDev = 0 := rfl

-- (c) the model happily computes on magnitudes where Decimal multiplication overflows (7.9e28)
#eval (Summary.run sqrtApprox [0, 1000000000000000]).dispersion.recurrenceRelationM
#eval decide ((Summary.run id [0, 1000000000000000]).dispersion.recurrenceRelationM > 79228162514264337593543950335)

-- (d) is there any theorem bounding decimal rounding? list names in namespace
open Lean Elab Command in
run_cmd do
  let env ← getEnv
  let ns := env.constants.fold (init := #[]) fun acc n _ =>
    if (`BarterModel.Props.C17).isPrefixOf n && !n.isInternal then acc.push n else acc
  logInfo m!"{ns.qsort (·.toString < ·.toString)}"
