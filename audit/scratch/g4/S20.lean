import BarterModel.Props.C20
open BarterModel.Backtest BarterModel.Props.C20

-- (1) `isolation` is a fact about `List.modify`, for ANY step function: nothing about engines/backtests enters
theorem iso_generic {S A : Type} (f : S → A → S) (acts : List (Nat × A)) (sys : List S) (i : Nat) :
    (acts.foldl (fun sys ia => sys.modify ia.1 (fun s => f s ia.2)) sys)[i]? =
      (sys[i]?).map (fun s => (acts.filterMap (fun ia => if ia.1 = i then some ia.2 else none)).foldl f s) := by
  induction acts generalizing sys with
  | nil => simp
  | cons a acts ih =>
    simp only [List.foldl_cons, List.filterMap_cons]
    rw [ih]
    by_cases h : a.1 = i
    · subst h; simp; cases sys[a.1]? <;> rfl
    · simp [h, List.getElem?_modify]

-- (2) `drained_account_events_partial` needs `stopped = none`: at the END of every completed backtest it says nothing.
-- In the lazy witness the final state has lost the responses:
#eval
  let s := run cEngine cExchange (cInit 1 wPlan wDs) wLazy
  (s.stopped, accountOf s.processed, accountOf s.feed, s.pending,
   (respondAll cExchange (cInit 1 wPlan wDs).exch (requestsOf cEngine (cEng0 1 wPlan) s.processed)).2)

-- (3) no liveness: a schedule in which Shutdown is never sent / engine never scheduled is a legal action list
#eval (run cEngine cExchange (cInit 1 wPlan wDs) (List.replicate 50 .fwdMarket)).stopped
-- a fatal stop then sendShutdown: `crashed`
def fatalEngine : Engine CEng MktEv AccEv Req := { process := cProcess, fatal := fun _ e => match e with | .market m => m.id == 1 | _ => false }
#eval
  let s := run fatalEngine cExchange (cInit 1 wPlan wDs) [.fwdMarket, .fwdMarket, .engine, .engine, .fwdMarket, .sendShutdown]
  (s.stopped, marketOf s.processed, s.crashed, s.market)
