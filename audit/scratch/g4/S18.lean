import BarterModel.Props.C18
import Lean
open BarterModel.Drawdown BarterModel.Props.C18

-- (a) mean duration: bound of mean_duration_near_average is tight; code value can be arbitrarily far (in ms) from the average
def ramp (n : Nat) : List Drawdown := (List.range n).map fun k => ⟨1/10, 0, ((k : Nat) : Int)⟩
#eval avgDurationMs (ramp 1000)          -- model of the code
#eval (sumDuration (ramp 1000), (ramp 1000).length)  -- exact average = 499.5
#eval (avgDurationMs (ramp 50), sumDuration (ramp 50))
-- day-sized durations
def rampD (n : Nat) : List Drawdown := (List.range n).map fun k => ⟨1/10, 0, ((k : Nat) : Int) * 86400000 + ((k:Nat):Int)⟩
#eval (avgDurationMs (rampD 1000), sumDuration (rampD 1000) / 1000)

-- (b) PnL curve that starts with a loss: nothing is ever reported although cumulative PnL falls -10 → -30
#eval (Sheet.run Sheet.default (pnlCurve 0 [(1,-10),(2,-20),(3,5)])).2
#eval (Sheet.run Sheet.default (pnlCurve 0 [(1,-10),(2,-20),(3,5)])).1.generate.2
#eval decide (PositivePeaks (pnlCurve 0 [(1,-10),(2,-20),(3,5)]))
-- first closed position is a win, then the curve goes negative: depth > 1
#eval (Sheet.run Sheet.default (pnlCurve 0 [(1,10),(2,-30),(3,25)])).1.generate.2
-- (c) zero first value: peak 0, checked_div none
#eval (Sheet.run Sheet.default [⟨0,0⟩,⟨1,-5⟩,⟨2,3⟩,⟨3,1⟩]).1.generate.2

-- (d) second generate: counts twice (documented); and an update after a generate: mean/max already include the in-progress drawdown, which is then counted again when completed
#eval
  let s := (Sheet.run Sheet.default [⟨0,100⟩,⟨1,90⟩]).1
  let s1 := s.generate.1
  let s2 := (Sheet.run s1 [⟨2,110⟩]).1
  (s2.generate.2, (Sheet.run Sheet.default [⟨0,100⟩,⟨1,90⟩,⟨2,110⟩]).1.generate.2)

open Lean Elab Command in
run_cmd do
  let env ← getEnv
  let ns := env.constants.fold (init := #[]) fun acc n _ =>
    if (`BarterModel.Props.C18).isPrefixOf n && !n.isInternal then acc.push n else acc
  logInfo m!"{ns.qsort (·.toString < ·.toString)}"
