import BarterModel.Props.C19
open BarterModel.Engine BarterModel.Orders BarterModel.Props.C19

-- (a) process-level repeat: the command issued as two consecutive *process* ticks (generation stage runs in between).
-- With a silent strategy the tick leaves instruments as `action` does:
theorem process_cancel_instruments (e : Eng) (f : Filter) (refuse : Key → Bool) :
    (process e (.command (.cancelOrders f)) [] [] refuse).1.instruments
      = (action e (.cancelOrders f)).1.instruments := by
  simp only [process]
  split
  · rfl
  · simp only [generateStage]
    split <;> simp [generateAlgoOrders, sendRequests, recordCancels, recordOpens]

-- cancelRequests only depends on instruments
theorem cancelRequests_congr (e e' : Eng) (f : Filter) (h : e.instruments = e'.instruments) :
    cancelRequests e f = cancelRequests e' f := by simp [cancelRequests, h]

theorem repeat_idempotent_process (e : Eng) (hU : TablesUnique e) (f : Filter) (refuse : Key → Bool)
    (hH : ∀ r ∈ cancelRequests e f, linkResult e.links r.key.exchange = none) :
    cancelRequests (process e (.command (.cancelOrders f)) [] [] refuse).1 f = [] := by
  rw [cancelRequests_congr _ _ f (process_cancel_instruments e f refuse)]
  exact repeat_idempotent e hU f hH

-- (b) with a strategy that opens a new order in the generation stage of the first tick, the repeated command DOES request something new
def mk (links : List Link) (is : List Instr) : Eng := { enabled := true, links := links, log := [], disabledCalls := 0, instruments := is }
def i0 : Instr := { exchange := 0, base := 0, quote := 1, position := none, price := some 1, orders := [(1, ⟨10, 100, .opn ⟨7, 1, 0⟩, 0⟩)] }
def e0 : Eng := mk [.healthy] [i0]
#eval cancelRequests e0 .none
#eval cancelRequests (process e0 (.command (.cancelOrders .none)) [] [⟨⟨0,0,2⟩, .buy, 5, 1⟩] (fun _ => false)).1 .none

-- (c) order recorded with an exchange other than its instrument's: Exchanges([0]) sends a cancel to exchange 1
def i1 : Instr := { exchange := 0, base := 0, quote := 1, position := none, price := none, orders := [(1, ⟨10, 100, .inFlight, 1⟩)] }
def e1 : Eng := mk [.healthy, .healthy] [i1]
#eval cancelRequests e1 (.exchanges [0])
#eval cancelRequests e1 (.exchanges [1])

-- (d) an order snapshot (Open) arriving between the two commands for an order cancelled while in flight: still nothing new
def i2 : Instr := { exchange := 0, base := 0, quote := 1, position := none, price := none, orders := [(1, ⟨10, 100, .inFlight, 0⟩)] }
#eval
  let e := mk [.healthy] [i2]
  let a := (action e (.cancelOrders .none)).1
  let b := applyUpdate a (.order 0 (.snapshot ⟨1, 10, 100, .active (.opn ⟨7, 5, 0⟩), 0⟩))
  (cancelRequests a .none, b.instruments.map (·.orders), cancelRequests b .none)
-- (e) close positions twice: re-issued with the same cid (documented)
def i3 : Instr := { exchange := 0, base := 0, quote := 1, position := some (.buy, 2), price := some 9, orders := [] }
#eval
  let e := mk [.healthy] [i3]
  let a := (action e (.closePositions .none))
  let b := (action a.1 (.closePositions .none))
  (a.2.opens.sent, b.2.opens.sent, b.1.log.length)
