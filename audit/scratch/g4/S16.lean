import BarterModel.Props.C16
open BarterModel.TearSheet BarterModel.Props.C16

-- (a) totalisation: a losing position with zero notional (code panics) is a "win" for the theorem's spec
example : (sheet [⟨-5, 0, 1⟩]).winRate = some 1 ∧ specWinRate [⟨-5, 0, 1⟩] = some 1
    ∧ (sheet [⟨-5, 0, 1⟩]).profitFactor = none ∧ (sheet [⟨-5, 0, 1⟩]).pnl = -5 := by decide +kernel
-- Valid excludes it
example : ¬ Valid [⟨-5, 0, 1⟩] := by
  intro h; exact h ⟨-5,0,1⟩ (by simp) (by decide +kernel)

-- (b) negative entry price: profit counted as loss (spec mirrors code)
example : (sheet [⟨10, -100, 1⟩]).winRate = some 0 ∧ (sheet [⟨10, -100, 1⟩]).pnl = 10
   ∧ (sheet [⟨10, -100, 1⟩]).profitFactor = some decimalMin := by decide +kernel

-- (c) asset entries: which fields does the C16 asset tear sheet have?
#print TearSheetAsset
#print TearSheetAssetGenerator
-- engine path: stale snapshot dropped; direct path: not
#eval (engineSummary 1 1 [.balance 0 ⟨5, ⟨10, 4⟩⟩, .balance 0 ⟨3, ⟨7, 7⟩⟩]).assets
#eval (directSummary 1 1 [.balance 0 ⟨5, ⟨10, 4⟩⟩, .balance 0 ⟨3, ⟨7, 7⟩⟩]).assets
-- out-of-range index silently ignored in the model (code panics)
#eval (engineSummary 1 1 [.position 7 ⟨1,1,1⟩]).instruments
