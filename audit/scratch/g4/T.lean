import BarterModel.Props.C19
open BarterModel.Engine BarterModel.Orders BarterModel.Props.C19
def i0 : Instr := { exchange := 0, base := 0, quote := 1, position := none, price := some 1, orders := [(1, ⟨10, 100, .opn ⟨7, 1, 0⟩, 0⟩)] }
def e0 : Eng := { enabled := true, links := [.healthy], log := [], disabledCalls := 0, instruments := [i0] }
