import BarterModel.Props.C16M
open BarterModel BarterModel.Metrics BarterModel.Props.C16M

-- (1) hmul of scale_round_trip / scale_scale fails for the drivers' root on Daily <-> Annual252
example : sqrtApprox (periods .daily .annual252 * periods .annual252 .daily) ≠
    sqrtApprox (periods .daily .annual252) * sqrtApprox (periods .annual252 .daily) := by decide +kernel
-- and Daily -> Annual252 -> Annual365
example : sqrtApprox (periods .daily .annual252 * periods .annual252 .annual365) ≠
    sqrtApprox (periods .daily .annual252) * sqrtApprox (periods .annual252 .annual365) := by decide +kernel
-- the round trip itself is NOT the identity with the drivers' root
example : (Metric.scaleWith sqrtApprox (Metric.scaleWith sqrtApprox ⟨5/100, .daily⟩ .annual252) .daily) ≠ ⟨5/100, .daily⟩ := by
  decide +kernel
-- (2) hroot of sharpe_scaling_is_iid_consistent fails at 252
example : sqrtApprox 252 * sqrtApprox 252 ≠ 252 := by decide +kernel

-- (3) zero-cost position: model value exists (code panics); sheet_refines applies to it
example : (sheetOf sqrtApprox 0 [⟨1000, ⟨5, 0, 1⟩⟩] 0 .daily).pnlReturn.value = 0 ∧
   (sheetOf sqrtApprox 0 [⟨1000, ⟨5, 0, 1⟩⟩] 0 .daily).winRate = some 1 := by decide +kernel

-- (4) strictly losing history: "max drawdown of the cumulative PnL curve" is 0 / none, Calmar = MAX
def allLoss : List Exit := [⟨86400000, ⟨-5, 100, 1⟩⟩, ⟨172800000, ⟨-10, 100, 1⟩⟩]
example : maxDrawdownOf allLoss = 0 ∧ (sheetOf sqrtApprox 0 allLoss 0 .annual365).drawdowns = ⟨none, none, none⟩ ∧
   (sheetOf sqrtApprox 0 allLoss 0 .annual365).calmarRatio.value = decimalMax := by decide +kernel

-- (5) calculate_refines are definitional case splits
example (rf m s : Rat) (p : Interval) :
    (SharpeRatio.calculate rf m s p).value = (specSharpe rf m s).toDecimal := by
  unfold SharpeRatio.calculate specSharpe; split <;> rfl
example (rf m s : Rat) (p : Interval) :
    (SortinoRatio.calculate rf m s p).value = (specSortino rf m s).toDecimal := by
  unfold SortinoRatio.calculate specSortino specRatio
  split
  · split
    · have : 0 < m - rf := by grind
      simp [this, Ext.toDecimal]
    · split
      · have h1 : ¬ 0 < m - rf := by grind
        have h2 : m - rf < 0 := by grind
        simp [h1, h2, Ext.toDecimal]
      · have h1 : ¬ 0 < m - rf := by grind
        have h2 : ¬ m - rf < 0 := by grind
        simp [h1, h2, Ext.toDecimal]
  · rfl
