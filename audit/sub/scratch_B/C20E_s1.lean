import BarterModel.Props.C20E
open BarterModel.Props.C20E BarterModel.SysHandle BarterModel.TradingLoop
open BarterModel.Engine (Req OpenReq CancelReq Command Key)

/-- hypothesis `hre` of `order_gone_after_response` holds for every processed event of every reachable state -/
theorem noReopen_reach (clk : Nat → Int) (b : SystemBuild LEng) (c : BarterModel.MockExchange.Cfg)
    (acts : List (Act MktEv Command)) (i cid : Nat) :
    ∀ ev ∈ (lreach clk b c acts).processed, NoReopen i cid ev := by
  intro ev hev sn he _
  subst he
  obtain ⟨rest, hr⟩ := (BarterModel.Props.C20S.streams_in_order lEngine (lExchange clk) b
    (exchInit clk c).1 (exchInit clk c).2 acts).1.2
  have hfin := produced_orders_are_final clk b c acts
  apply hfin i sn
  apply hr.mem_iff.mp
  apply List.mem_append_left
  simp only [accountOf, List.mem_filterMap]
  exact ⟨_, hev, rfl⟩

#print axioms noReopen_reach
#print axioms accounting_agreement_at_quiescence
#print axioms shutdown_overtakes_fill_witness
#print axioms name_level_exchange_shows_this_exchange

-- Is Quiescent + stopped compatible? No: accounting agreement says nothing about the engine handed back by shutdown()
example (s : LSys) (h : Quiescent s) : s.stopped = none := h.1
