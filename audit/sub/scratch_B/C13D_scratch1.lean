import BarterModel.Props.C13D
import BarterModel.Props.C13V
open BarterModel.Names (ExchangeId Str)
open BarterModel.Connectors (Exch)
open BarterModel.Subscribe BarterModel.DynamicInit

-- 1. "for EVERY right table": TableOk pins the table down completely (singleton quantification)
theorem tableOk_unique (tbl : Table) (ht : TableOk tbl) : tbl = armBody := by
  funext e k
  have h1 := ht.arm_iff e k
  have h2 := armBody_ok.arm_iff e k
  cases hb : tbl e k with
  | none =>
    rw [hb] at h1
    cases ha : armBody e k with
    | none => rfl
    | some b => rw [ha] at h2; simp at h1 h2; rw [h2] at h1; cases h1
  | some b =>
    rw [hb] at h1
    cases ha : armBody e k with
    | none => rw [ha] at h2; simp at h1 h2; rw [h1] at h2; cases h2
    | some b' =>
      have i1 := ht.own_id e k b hb
      have i2 := armBody_ok.own_id e k b' ha
      have k1 := ht.own_kind e k b hb
      have k2 := armBody_ok.own_kind e k b' ha
      have c1 := ht.own_chan e k b hb
      have c2 := armBody_ok.own_chan e k b' ha
      have hc : b.conn = b'.conn := BarterModel.Props.C13V.connId_injective (i1.trans i2.symm)
      obtain ⟨bc, bk, bch⟩ := b
      obtain ⟨bc', bk', bch'⟩ := b'
      simp only at hc k1 k2 c1 c2
      subst hc; subst k1; subst k2
      rw [c1] at c2; injection c2 with c2; subst c2; rfl

-- 2. Spec / oracle is blind to the channel family: a body forwarding BinanceSpot trades into txs.l2s satisfies Spec
def wrongChan : Table := fun e k =>
  match e, k with
  | .binanceSpot, .publicTrades => some ⟨.binanceSpot, .publicTrades, .l2s⟩
  | e, k => armBody e k

example : ¬ TableOk wrongChan := fun h => by
  have := h.own_chan .binanceSpot .publicTrades _ rfl
  revert this; decide

theorem wrongChan_same_run :
    (init wrongChan instOps stableSort [[BarterModel.Props.C13D.spotTrades]]).initialised = [BarterModel.Props.C13D.spotTrades] ∧
    (init wrongChan instOps stableSort [[BarterModel.Props.C13D.spotTrades]]).outcome = .network ∧
    ((init wrongChan instOps stableSort [[BarterModel.Props.C13D.spotTrades]]).calls.map (·.chan)) = [Chan.l2s] := by
  refine ⟨?_, ?_, ?_⟩ <;> decide +kernel

theorem wrongChan_satisfies_spec :
    Spec (Subscr.valid instOps) [[BarterModel.Props.C13D.spotTrades]]
      (init wrongChan instOps stableSort [[BarterModel.Props.C13D.spotTrades]]) := by
  unfold Spec
  rw [if_pos (by decide), wrongChan_same_run.1, wrongChan_same_run.2.1]
  exact ⟨by decide, fun e h => by cases h⟩

-- 3. arm_dials_own_venue: hypothesis unused, it's ∀ c
example (c : Exch) : BarterModel.SubRequests.urlOk c = true :=
  BarterModel.Props.C13D.arm_dials_own_venue (connId c) .publicTrades ⟨c, .publicTrades, .trades⟩ (by sorry)

#print axioms tableOk_unique
