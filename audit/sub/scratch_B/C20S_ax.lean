import BarterModel.Props.C20S
open BarterModel.Props.C20S BarterModel.SysHandle
#print axioms refines_spec
#print axioms feed_modes_agree
#print axioms audit_replica_reproduces_engine
#print axioms reachable_state_ok
#print axioms account_order_irrelevant
#print axioms final_segment_no_stream_events
-- feed_modes_agree content: are the defs syntactically the same function?
example {σ μ α κ ρ : Type} (E : Engine σ μ α κ ρ) (e : Eng σ) : asyncRun E e [] = syncRun E e [] := rfl
example {σ μ α κ ρ : Type} (E : Engine σ μ α κ ρ) (e : Eng σ) (ev : Ev μ α κ) (rest) :
  asyncRun E e (ev :: rest) = (let r := processWithAudit E e ev
    if r.2.1.terminal then ⟨r.1, r.2.1, [], r.2.2, rest⟩ else
      let o := asyncRun E r.1 rest
      { o with requests := r.2.2 ++ o.requests }) := by rw [asyncRun]
-- abort_eq_shutdown: stepClose never looks at `how` except to record it
example {σ χ μ α κ ρ : Type} (s : Sys σ χ μ α κ ρ) (h1 h2 : Closed) :
  { stepClose s h1 with closed := none } = { stepClose s h2 with closed := none } := by
  unfold stepClose; split <;> simp [send] <;> split <;> rfl
