import BarterModel.Props.C13D
open BarterModel.Names (ExchangeId Str)
open BarterModel.Subscribe BarterModel.DynamicInit

-- kind_and_exchange_preserved holds without the "all valid" hypothesis (rejected input makes no call)
theorem kind_and_exchange_preserved' {ι : Type} [DecidableEq ι] (ops : InstOps ι)
    {usort : List (Subscr ι) → List (Subscr ι)} (hu : UnstableSort usort) {tbl : Table} (ht : TableOk tbl)
    (batches : List (List (Subscr ι))) :
    ∀ c ∈ (init tbl ops usort batches).calls, ∃ b ∈ batches,
      c.instruments ≠ [] ∧ ∀ i ∈ c.instruments, ∃ s ∈ b, s.instrument = i ∧ s.kind = c.kind ∧ s.exchange = c.id := by
  by_cases hv : ∀ b ∈ batches, ∀ s ∈ b, s.valid ops = true
  · exact BarterModel.Props.C13D.kind_and_exchange_preserved ops hu ht batches hv
  · intro c hc
    cases hvb : validateBatches ops batches with
    | ok vs => exact absurd ((validateBatches_ok_iff ops batches vs).mp hvb).1 hv
    | error s => rw [init_rejected ops s batches hvb] at hc; cases hc

-- every_call_uses_default_policy needs neither UnstableSort nor TableOk: policy is a constant of callOf
theorem policy_const {ι : Type} [DecidableEq ι] (tbl : Table) (ops : InstOps ι)
    (usort : List (Subscr ι) → List (Subscr ι)) (batches : List (List (Subscr ι))) :
    ∀ c ∈ (init tbl ops usort batches).calls, c.policy = ⟨125, 2, 60000⟩ := by
  have hra : ∀ g c, runArm (ι := ι) tbl g = .ok c → c.policy = ⟨125, 2, 60000⟩ := by
    intro g c h
    unfold runArm at h
    split at h
    · cases h
    · split at h
      · cases h
      · injection h with h; subst h; rfl
  have hrs : ∀ gs : List ((ExchangeId × SubKind) × List (Subscr ι)), ∀ c ∈ (runArms tbl gs).1, c.policy = ⟨125, 2, 60000⟩ := by
    intro gs
    induction gs with
    | nil => intro c hc; cases hc
    | cons g t ih =>
      intro c hc
      unfold runArms at hc
      cases hg : runArm tbl g with
      | error e => rw [hg] at hc; cases hc
      | ok c' =>
        rw [hg] at hc
        simp only [List.cons_eq_cons, List.mem_cons] at hc
        rcases hc with rfl | hc
        · exact hra g _ hg
        · exact ih c hc
  intro c hc
  unfold BarterModel.DynamicInit.init at hc
  split at hc
  · cases hc
  · split at hc
    · cases hc
    · rename_i _ vs _ _ chans _
      have h := hrs (vs.flatMap (groups usort))
      generalize runArms tbl (vs.flatMap (groups usort)) = p at hc h
      obtain ⟨cs, oe⟩ := p
      cases oe with
      | some e => exact h c hc
      | none =>
        cases cs with
        | nil => cases hc
        | cons x t => exact h c hc
