import BarterModel.Props.C13S
open BarterModel.Props.C13S
#print axioms run_refines_spec
#print axioms ok_iff
#print axioms err_iff
#print axioms ok_iff_enough_before_anything_fatal
#print axioms pings_invisible
#print axioms bfx_refines_spec
#print axioms bfx_map_is_rekeyed
#print axioms bfx_ok_iff
#print axioms deadline_ok_is_code_ok
#print axioms readings_agree_within_deadline
