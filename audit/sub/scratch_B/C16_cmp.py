import sys, importlib.machinery, importlib.util
loader = importlib.machinery.SourceFileLoader("chk", "/verif/check")
spec = importlib.util.spec_from_loader("chk", loader)
chk = importlib.util.module_from_spec(spec)
loader.exec_module(chk)
impl = chk.parse_trace(open(sys.argv[1]).read())
model = chk.parse_trace(open(sys.argv[2]).read())
sp = chk.parse_trace(open(sys.argv[3]).read())
for cid in impl:
    f = chk.compare_full(impl[cid], model.get(cid, []))
    s = chk.compare_spec(impl[cid], sp.get(cid, []))
    print(cid, "MODEL:", f, "SPEC:", s[:3])
