import BarterModel.Props.C13Q
import BarterModel.Props.C13S
open BarterModel.Connectors BarterModel.SubRequests BarterModel.Props.C13Q

-- (1) for the five non-separator families the "refinement" needs no hypothesis and is simp-unfolding
example (subs : List ESub) : readFrames (requests .kraken subs) = specFrames .kraken subs := by
  simp [readFrames, requests, family, specFrames, batches, specTopics, requestCase, specVerb, Wire.verb, Wire.topics, Function.comp_def]
example (subs : List ESub) : readFrames (requests .okx subs) = specFrames .okx subs := by
  simp [readFrames, requests, family, specFrames, batches, specTopics, requestCase, specVerb, Wire.verb, Wire.topics, Function.comp_def]
example (subs : List ESub) : readFrames (requests .coinbase subs) = specFrames .coinbase subs := by
  simp [readFrames, requests, family, specFrames, batches, specTopics, requestCase, specVerb, Wire.verb, Wire.topics, Function.comp_def]
example (subs : List ESub) : readFrames (requests .gateioSpot subs) = specFrames .gateioSpot subs := by
  simp [readFrames, requests, family, specFrames, batches, specTopics, requestCase, specVerb, Wire.verb, Wire.topics, Function.comp_def]
example (subs : List ESub) : readFrames (requests .bitfinex subs) = specFrames .bitfinex subs := by
  simp [readFrames, requests, family, specFrames, batches, specTopics, requestCase, specVerb, Wire.verb, Wire.topics, Function.comp_def]

-- (2) every_frame_has_the_verb: verb is a constant of the constructor
example (a : List Str) : (Wire.binance a).verb = verbUpper := rfl
example (c : Str) (p : List Str) : (Wire.gateio c p).verb = verbLower := rfl

-- (3) empty_validates_at_once instantiated at bitfinex talks about the GENERIC validator
open BarterModel.SubValidator in
example (frames : List (Frame Resp)) : validateGeneric (family .bitfinex) 0 frames = .ok ([], frames) :=
  empty_validates_at_once .bitfinex rfl frames
-- the right statement for Bitfinex
open BarterModel.SubValidator in
example (frames : List (Frame BfxEvent)) : validateBfx [] frames = .ok ([], [], frames) := by
  cases frames <;> simp [validateBfx, runBfx, expectedResponses]

#print axioms requests_refine_spec
#print axioms map_ids_are_requested_ids
#print axioms map_key_is_last_subscription
#print axioms map_smaller_iff_duplicates
#print axioms expected_is_documented_iff
#print axioms asks_for_venue_names
#print axioms url_table
#print axioms okx_text
#print axioms empty_unanswered_times_out
