import BarterModel.Props.C20S
open BarterModel.Props.C20S BarterModel.SysHandle
variable {σ χ μ α κ ρ : Type}

/-- after the close call: handle consumed, and (engine stopped, or feed = handle-only ++ Shutdown :: anything) -/
def J (s : Sys σ χ μ α κ ρ) : Prop :=
  s.closed.isSome ∧ (s.stopped.isSome ∨ ∃ pre post, s.feed = pre ++ Ev.shutdown :: post ∧ ∀ e ∈ pre, e.isHandle = true)

theorem J_step (E : Engine σ μ α κ ρ) (X : Exchange χ ρ α) (s : Sys σ χ μ α κ ρ) (a : Act μ κ) (h : J s) :
    J (step E X s a) ∧ ∃ l, (step E X s a).processed = s.processed ++ l ∧ ∀ e ∈ l, e.isHandle = true := by
  obtain ⟨hc, hj⟩ := h
  cases a with
  | push m => exact ⟨⟨hc, hj⟩, [], by simp [step, stepPush], by simp⟩
  | call c => simp only [step, stepCall, hc, ↓reduceIte]; exact ⟨⟨hc, hj⟩, [], by simp, by simp⟩
  | close how => simp only [step, stepClose, hc, ↓reduceIte]; exact ⟨⟨hc, hj⟩, [], by simp, by simp⟩
  | takeAudit => simp only [step, stepTakeAudit, hc, ↓reduceIte]; exact ⟨⟨hc, hj⟩, [], by simp, by simp⟩
  | fwdMarket =>
    simp only [step, stepFwdMarket]
    cases hm : s.market with
    | nil => exact ⟨⟨hc, hj⟩, [], by simp, by simp⟩
    | cons m ms =>
      rcases hj with hst | ⟨pre, post, hf, hp⟩
      · simp only [hst, ↓reduceIte]; exact ⟨⟨hc, Or.inl hst⟩, [], by simp, by simp⟩
      · by_cases hst : s.stopped.isSome
        · simp only [hst, ↓reduceIte]; exact ⟨⟨hc, Or.inl hst⟩, [], by simp, by simp⟩
        · simp only [hst]
          refine ⟨⟨hc, Or.inr ⟨pre, post ++ [.market m], ?_, hp⟩⟩, [], by simp, by simp⟩
          simp [hf]
  | fwdAccount k =>
    simp only [step, stepFwdAccount]
    cases hm : s.pending[k]? with
    | none => exact ⟨⟨hc, hj⟩, [], by simp, by simp⟩
    | some a =>
      rcases hj with hst | ⟨pre, post, hf, hp⟩
      · simp only [hst, ↓reduceIte]; exact ⟨⟨hc, Or.inl hst⟩, [], by simp, by simp⟩
      · by_cases hst : s.stopped.isSome
        · simp only [hst, ↓reduceIte]; exact ⟨⟨hc, Or.inl hst⟩, [], by simp, by simp⟩
        · simp only [hst]
          refine ⟨⟨hc, Or.inr ⟨pre, post ++ [.account a], ?_, hp⟩⟩, [], by simp, by simp⟩
          simp [hf]
  | engine =>
    simp only [step, stepEngine]
    by_cases hst : s.stopped.isSome
    · simp only [hst, ↓reduceIte]; exact ⟨⟨hc, Or.inl hst⟩, [], by simp, by simp⟩
    · rcases hj with h' | ⟨pre, post, hf, hp⟩
      · exact absurd h' hst
      · simp only [hst]
        cases pre with
        | nil =>
          simp only [List.nil_append] at hf
          simp only [hf]
          refine ⟨⟨hc, Or.inl ?_⟩, [Ev.shutdown], by simp, by simp [Ev.isHandle]⟩
          simp [Ev.isShutdown]
        | cons x pre' =>
          simp only [List.cons_append] at hf
          simp only [hf]
          refine ⟨⟨hc, ?_⟩, [x], by simp, by intro e he; simp at he; rw [he]; exact hp x (by simp)⟩
          by_cases hx : x.isShutdown = true
          · left; simp [hx]
          · by_cases hfat : E.fatal s.eng.state x = true
            · left; simp [hx, hfat]
            · right; exact ⟨pre', post, rfl, fun e he => hp e (by simp [he])⟩

theorem J_run (E : Engine σ μ α κ ρ) (X : Exchange χ ρ α) (acts : List (Act μ κ)) (s : Sys σ χ μ α κ ρ) (h : J s) :
    ∃ l, (run E X s acts).processed = s.processed ++ l ∧ ∀ e ∈ l, e.isHandle = true := by
  induction acts generalizing s with
  | nil => exact ⟨[], by simp [run], by simp⟩
  | cons a acts ih =>
    obtain ⟨hj, l1, h1, h2⟩ := J_step E X s a h
    obtain ⟨l2, g1, g2⟩ := ih _ hj
    refine ⟨l1 ++ l2, ?_, ?_⟩
    · show (run E X (step E X s a) acts).processed = _
      rw [g1, h1, List.append_assoc]
    · intro e he; rcases List.mem_append.mp he with he | he
      · exact h2 e he
      · exact g2 e he

/-- STRONGER than `final_segment_no_stream_events`: after the close call ANY schedule (forwarders included)
    lets the engine process handle events only. -/
theorem after_close_any_schedule (E : Engine σ μ α κ ρ) (X : Exchange χ ρ α) (s : Sys σ χ μ α κ ρ)
    (how : Closed) (more : List (Act μ κ))
    (hf : ∀ e ∈ s.feed, e.isHandle = true) (hc : s.closed = none) (hs : s.stopped = none) :
    ∃ l, (run E X (step E X s (.close how)) more).processed = s.processed ++ l ∧ ∀ e ∈ l, e.isHandle = true := by
  have hJ : J (step E X s (.close how)) := by
    refine ⟨by simp [step, stepClose, hc, send, hs], Or.inr ⟨s.feed, [], ?_, hf⟩⟩
    simp [step, stepClose, hc, send, hs]
  obtain ⟨l, h1, h2⟩ := J_run E X more _ hJ
  refine ⟨l, ?_, h2⟩
  rw [h1]; simp [step, stepClose, hc, send, hs]
#print axioms after_close_any_schedule
