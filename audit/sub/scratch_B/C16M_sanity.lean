import BarterModel.Props.C16M
open BarterModel BarterModel.Metrics BarterModel.Props.C16M
example : sqrtApprox 252 * sqrtApprox 252 = 252 := by decide +kernel
#eval (sqrtApprox 252 * sqrtApprox 252 - 252 : Rat)
#eval (Metric.scaleWith sqrtApprox (Metric.scaleWith sqrtApprox ⟨5/100, .daily⟩ .annual252) .daily).value - 5/100
