import BarterModel.Props.C13V
open BarterModel.Subscribe BarterModel.Names
open BarterModel.Connectors (Exch)

-- model answer for "first call valid, second call statically rejected": network (= "outside the model"),
-- while the real try_join_all returns the second future's Unsupported error in the first poll pass
example : (Builder.ofCalls .publicTrades
    [(Exch.binanceSpot, [(⟨1, 2, .spot⟩ : Inst)]), (Exch.binanceFuturesUsd, [⟨1, 2, .spot⟩])]).init instOps
    = some .network := by decide +kernel

example : subscribeOutcome instOps .binanceFuturesUsd [(⟨1, 2, .spot⟩ : Inst)] = .unsupported ⟨1, 2, .spot⟩ := by
  decide +kernel

-- second conjunct of builder_init_decided_by_first_call is the definition of Builder.init
example {ι : Type} [DecidableEq ι] (ops : InstOps ι) (c : Exch) (insts : List ι) (rest : List (Exch × List ι)) (k : SubKind) :
    (⟨k, [], (c, insts) :: rest⟩ : Builder ι).init ops = some (match subscribeOutcome ops c insts with
          | .connect _ => .network
          | o => .error o) := by
  unfold Builder.init; simp only; cases subscribeOutcome ops c insts <;> rfl

-- connOf totalisation: an unrouted kind is given the trades family
example : (connOf (((ExchangeId.binanceSpot, SubKind.candles), [(⟨.binanceSpot, ⟨1,2,.spot⟩, .candles⟩ : Subscr Inst)]))).chan = Chan.trades := rfl

-- selects_refine_spec needs Nodup: with a duplicate the model's `erase` leaves one behind
example : ¬ (∀ (c : Chans) (ops : List SelOp) (f : Chan) (e : ExchangeId),
    e ∈ (c.run ops).get f ↔ specPresent c ops f e = true) := by
  intro h
  have := h { trades := [.okx, .okx] } [.select .trades .okx] .trades .okx
  revert this; decide
