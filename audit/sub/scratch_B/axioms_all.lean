import Lean
import BarterModel.Props.C12I
import BarterModel.Props.C13S
import BarterModel.Props.C13Q
import BarterModel.Props.C13V
import BarterModel.Props.C13D
import BarterModel.Props.C16M
import BarterModel.Props.C16K
import BarterModel.Props.C20K
import BarterModel.Props.C20S
import BarterModel.Props.C20E
open Lean Elab Command in
elab "#audit_axioms" : command => do
  let env ← getEnv
  let ids := ["C12I","C13S","C13Q","C13V","C13D","C16M","C16K","C20K","C20S","C20E"]
  for id in ids do
    let ns := (`BarterModel.Props).str id
    let mut n : Nat := 0
    let mut bad : Array (Name × Array Name) := #[]
    for (c, ci) in env.constants.toList do
      if ns.isPrefixOf c && !c.isInternal then
        match ci with
        | .thmInfo _ =>
          n := n + 1
          let ax ← Lean.collectAxioms c
          let extra := ax.filter fun a => a != ``propext && a != ``Classical.choice && a != ``Quot.sound
          if extra.size > 0 then bad := bad.push (c, extra)
        | _ => pure ()
    logInfo m!"{id}: {n} theorems, non-standard axioms: {bad}"
#audit_axioms
