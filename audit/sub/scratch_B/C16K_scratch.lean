import BarterModel.Props.C16K
open BarterModel BarterModel.KeyedSummary BarterModel.Props.C16K

-- (1) out-of-range key: the code panics (harness: "assetstates-does-not-contain-assetindex"),
-- the theorems' engineSummary silently ignores the event
example : (engineSummary root 0 1 1 0 0 0 .daily [.balance 7 ⟨5, ⟨100, 100⟩⟩, .position 3 ⟨1000, ⟨5, 100, 1⟩⟩]) =
          (engineSummary root 0 1 1 0 0 0 .daily []) := by decide +kernel
-- (2) zero cost position through the keyed summary: a value, where the code panics (division by zero)
example : ((engineSummary root 0 1 1 0 0 0 .daily [.position 0 ⟨1000, ⟨5, 0, 1⟩⟩]).instruments.map (·.winRate)) = [some 1] := by
  decide +kernel
-- (3) FlatAtGens is satisfiable with a real interleaved generate after a completed drawdown
example : FlatAtGens [] [.pt ⟨0, 100⟩, .pt ⟨1, 90⟩, .pt ⟨2, 110⟩, .gen, .pt ⟨3, 105⟩] := by
  simp only [FlatAtGens]; decide +kernel
-- (4) engine_generate_read_only, first conjunct, .gen case is definitional
example (f : Rat → Rat) (rf : Rat) (start now : Int) (s : EngState) (iv : Interval) (ops : List Op) :
    (EngState.exec f rf start now s (.gen iv :: ops)).1 = (EngState.exec f rf start now s ops).1 := rfl
-- (5) asset whose first total is 0: drawdowns still defined by theorem (code mirrors)
example : (engineSummary root 0 0 1 0 0 0 .daily
   [.balance 0 ⟨0, ⟨0, 0⟩⟩, .balance 0 ⟨10, ⟨-5, -5⟩⟩, .balance 0 ⟨20, ⟨10, 10⟩⟩, .balance 0 ⟨30, ⟨5, 5⟩⟩]).assets.map (·.drawdowns.max) =
   [some ⟨1/2, 20, 30⟩] := by decide +kernel
