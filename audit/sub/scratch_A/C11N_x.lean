import BarterModel.Props.C11N
open BarterModel.Names BarterModel.Index BarterModel.Props.C11N

-- (1) pointwise strengthening of underlying_agrees_iff
theorem underlying_agrees_pointwise (e : ExchangeId) (b q : Str) :
    (InstrumentNameInternal.newFromExchangeUnderlying e b q =
        InstrumentNameInternal.newFromExchange e (b ++ '_' :: q)) ↔ '_' ∉ e.asStr := by
  have key : ∀ e ∈ ExchangeId.all, (lowerStr e.variantName = e.asStr ↔ '_' ∉ e.asStr) := by
    decide +kernel
  rw [← key e (mem_all e)]
  have ext : ∀ x y : InstrumentNameInternal, x = y ↔ x.name = y.name := by
    intro x y; cases x; cases y; simp
  rw [ext, new_from_exchange_underlying_eq, new_from_exchange_eq, lowerStr_append, lowerStr_cons,
      lowcs_underscore]
  constructor
  · intro h
    have h' : lowerStr e.variantName ++ ('-' :: (lowerStr b ++ '_' :: lowerStr q)) =
        e.asStr ++ ('-' :: (lowerStr b ++ '_' :: lowerStr q)) := by simpa using h
    exact List.append_cancel_right h'
  · intro h; rw [h]; simp

-- (2) the count 16 / 26 of the prose
example : (ExchangeId.all.filter (fun e => decide ('_' ∈ e.asStr))).length = 16 := by decide +kernel
example : (ExchangeId.all.filter (fun e => decide ('_' ∉ e.asStr))).length = 26 := by decide +kernel

-- (3) the length bound of the code is necessary: two 49-character names share a code
example : code (List.replicate 48 'a' ++ ['b']) = code (List.replicate 48 'a' ++ ['c']) := by
  decide +kernel

-- (4) lookup_ignores_case without ASCII / caseEq: it is congruence on the constructor
theorem lookup_ignores_case' (ii : Indexed) (e : ExchangeId) (s t : Str)
    (h : lowerStr s = lowerStr t) :
    findAssetIndexS ii e (.new s) = findAssetIndexS ii e (.new t) ∧
    findInstrumentIndexS ii e (.new s) = findInstrumentIndexS ii e (.new t) := by
  simp [AssetNameInternal.new, InstrumentNameInternal.new, nameNew_eq_lowerStr, h]

-- (5) Kelvin sign: the model says uncased (the code maps it to 'k')
example : (AssetNameInternal.new [Char.ofNat 0x212A]).name = [Char.ofNat 0x212A] := by decide
example : (AssetNameInternal.new [Char.ofNat 0x100]).name = [Char.ofNat 0x100] := by decide

#print axioms underlying_agrees_pointwise
#print axioms lookup_instrument_refines_spec
#print axioms find_instrument_index_least
#print axioms name_code_faithful
