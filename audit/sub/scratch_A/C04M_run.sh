#!/bin/sh
# usage: C04M_run.sh cases.ops
f=$1
/verif/harness/target/debug/c04m run < $f > ${f%.ops}.impl 2> ${f%.ops}.impl.err
/verif/lean/.lake/build/bin/drv_c04m model < $f > ${f%.ops}.model 2>&1
/verif/lean/.lake/build/bin/drv_c04m spec < $f > ${f%.ops}.spec 2>&1
echo "== impl vs model"; diff ${f%.ops}.impl ${f%.ops}.model && echo same
echo "== stderr"; tail -5 ${f%.ops}.impl.err
