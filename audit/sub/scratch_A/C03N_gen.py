import random
random.seed(7)
def lst(mx=7):
    n=random.choice([0,0,1,1,2,2,3,5,mx])
    return ' '.join(str(random.randint(-4,4)) for _ in range(n))
def raw(allow_none=True):
    k=random.randint(0,2 if allow_none else 1)
    if k==2: return 'none'
    if k==0: return 'one %d'%random.randint(-4,4)
    return ('many '+lst()).strip()
def res(start):
    n=random.choice([0,1,1,2,2,3,6])
    out=[]
    for i in range(n):
        out.append(random.choice('sru')+str(start+i+ (0 if random.random()<0.7 else -1)))
    return ' '.join(out)
def reqs():
    n=random.choice([0,1,1,2,2,3,5])
    return ' '.join('%d:%d'%(random.randint(0,2), random.choice([1,2,3,4999,5000,5001,7,7])) for _ in range(n))
ops=[]
def op():
    f=random.randint(0,4)
    if f==0:
        return random.choice([lambda:'n.raw '+raw(),lambda:('n.vec '+lst()).strip(),lambda:('n.iter '+lst()).strip(),lambda:random.choice(['n.opt','n.opt -3']),lambda:'n.default',lambda:('n.ext '+lst()).strip(),lambda:('n.ext '+lst()).strip(),lambda:'n.extn '+raw(),lambda:'n.map %d'%random.randint(-2,2),lambda:'n.mut %d'%random.randint(-3,3),lambda:'n.has %d'%random.randint(-4,4),lambda:'n.cmp '+raw(),lambda:'o.fromn'])()
    if f==1:
        return random.choice([lambda:'o.raw '+raw(False),lambda:'o.item -2',lambda:'o.default',lambda:('o.vec '+lst()).strip(),lambda:('o.iter '+lst()).strip(),lambda:('o.ext '+lst()).strip(),lambda:('o.ext '+lst()).strip(),lambda:'o.exto '+raw(False),lambda:'o.map %d'%random.randint(-2,2),lambda:'o.mut %d'%random.randint(-3,3),lambda:'o.fromn',lambda:'o.has %d'%random.randint(-4,4),lambda:'o.cmp '+raw(False)])()
    if f==2:
        out=random.choice(['td','ad','px','md'])+':'+str(random.randint(-3,3))
        return random.choice([lambda:'a.event %d'%random.randint(0,1),lambda:'a.out %d %s'%(random.randint(0,1),out),lambda:('a.oe %d %s %s'%(random.randint(0,1),out,lst())).strip(),lambda:'a.ts %d'%random.randint(0,1),lambda:'a.ts 0 4',lambda:'a.acc %d %d %d'%(random.randint(0,1),random.randint(0,2),random.randint(-3,3)),lambda:'a.mkt 1',lambda:'a.mkt 0 -2',lambda:'a.addout '+out,lambda:('a.adderr '+lst()).strip(),lambda:('a.adderr '+lst()).strip(),lambda:('a.wpe '+lst()).strip(),lambda:'a.feedended'])()
    if f==3:
        k=random.randint(0,3)
        if k==0: return ('act.c '+res(1)).strip()
        if k==1: return ('act.o '+res(1)).strip()
        if k==2: return ' '.join(('act.x %s / %s'%(res(1),res(10))).split())
        return ' '.join(('act.g %s / %s / %d %d'%(res(1),res(10),random.randint(0,3),random.randint(0,3))).split())
    ev=random.choice(['shutdown','cmdc','cmdo','ts_on','ts_off','mkt','mktre','accre'])
    g0=reqs() if ev in('cmdc','cmdo') else ''
    return ' '.join(('eng %s %s %s / %s / %s'%(random.choice(['on','off']),ev,g0,reqs(),reqs())).split())
for c in range(400):
    print('case z%d'%c)
    engs=0
    for _ in range(random.randint(2,25)):
        o=op()
        if o.startswith('eng'):
            engs+=1
            if engs>2: continue
        print(o)
