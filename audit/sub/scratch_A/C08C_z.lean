import BarterModel.Props.C08C
open BarterModel.MockExchange BarterModel.MockClient BarterModel.Props.C08C

/-- no-cross-talk part of response_is_answer_to_own_request WITHOUT `distinctCids` -/
theorem own_request_no_hd {c : XCfg} (hc : c.base.wf = true)
    {w : Nat} {s : Sys} (h : Reach c w s) (d : Done) (hdn : d ∈ s.out) (r : XResp) (hr : d.out = .answered r) :
    ∃ (k : Nat) (p : PRec) (cr : CRec),
      s.plog[k]? = some p ∧ p.call = d.call ∧ s.calls[d.call]? = some cr ∧
      cr.worker = d.worker ∧ cr.what = d.what ∧ p.t = cr.t ∧ p.rq = cr.what.wire ∧
      r = (((XState.init c).run (plogOps (s.plog.take k))).step cr.t cr.what.wire).2.1 ∧
      p.at_ + c.base.latency ≤ s.now ∧ cr.at_ ≤ p.at_ ∧ d.elapsed = s.now - cr.at_ ∧
      c.base.latency ≤ d.elapsed := by
  have hcfg := reach_cfg h
  obtain ⟨ops, rfl⟩ := h
  have hi := (reach_inv hc w ops).1
  obtain ⟨⟨cr, hc1, hc2, hc3, hc4⟩, hj⟩ := hi.wo.out d hdn
  rw [hr] at hj
  obtain ⟨p, hp, hp1, hp2, _, hp4⟩ := hj
  obtain ⟨k, hk, rfl⟩ := List.mem_iff_getElem.mp hp
  obtain ⟨cr', hq1, hq2, hq3, _⟩ := hi.issued_p _ hp
  rw [hp1, hc1] at hq1
  injection hq1 with hq1; subst hq1
  obtain ⟨ho1, _⟩ := hi.plog_ok k _ (List.getElem?_eq_getElem hk)
  rw [hcfg] at ho1
  have hsent := hi.sent_p _ hp cr (by rw [hp1]; exact hc1)
  simp only [Sys.latency, hcfg] at hp4
  refine ⟨k, _, cr, List.getElem?_eq_getElem hk, hp1, hc1, hc2, hc3, hq2.symm, hq3.symm, ?_, hp4, hsent, hc4, ?_⟩
  · rw [← hp2, ho1, hq2, hq3]
  · rw [hc4]; omega
