import BarterModel.Props.C06E
open BarterModel.Book BarterModel.BinanceL2 BarterModel.ExStream BarterModel.L2Pipeline
open BarterModel.Props.C06E BarterModel.Props.C06

theorem reconn_genuine : SortedBook (⟨3, [], [⟨101, 2⟩]⟩ : OrderBook) ∧ GenuineSnapshot exVenue 3 ⟨3, [], [⟨101, 2⟩]⟩ := by
  refine ⟨⟨by decide, by decide⟩, rfl, ?_, ?_⟩ <;> funext p <;>
    simp [exVenue, abs, bookAt, changesUpTo, applyLevels, setLevel] <;> grind

theorem reconn_contract : Contract exCfg (fun _ => exVenue) exReconn := by
  refine ⟨rfl, ⟨by decide, ?_⟩, ?_⟩
  · intro x hx b hb
    simp only [exCfg, List.mem_cons, List.not_mem_nil, or_false] at hx
    subst hx
    have : firstSnapshot exReconn.snapshots 10 = some ⟨3, [], [⟨101, 2⟩]⟩ := by decide
    simp only [this, Option.some.injEq] at hb
    subst hb
    exact reconn_genuine
  · intro f hf; simp [exReconn] at hf

-- truth_after_reinit is not vacuous: pre = [exBroken] (NOT under the contract's frame clause needed), c = exReconn
example : ConnSynced (fun _ => exVenue) (pipelineState exCfg exBooks ([exBroken] ++ exReconn :: [])) := by
  refine (truth_after_reinit exCfg 9 exBooks (fun _ => exVenue) [exBroken] exReconn [] ?_ (by decide) ?_ (by decide +kernel) ?_ (by decide +kernel) (by decide +kernel) ?_).2.1
  · intro c hc; simp at hc; rcases hc with hc | hc <;> subst hc <;> decide +kernel
  · intro x hx; simp only [exCfg, List.mem_cons, List.not_mem_nil, or_false] at hx; subst hx; decide
  · intro x hx; simp at hx; subst hx; rfl
  · intro x hx; simp at hx; subst hx; exact reconn_contract

-- reinit_replaces_books not vacuous
example : (pipeline exCfg 9 exBooks ([exBroken] ++ [exReconn])).books.lookup 10 = some ⟨3, [], [⟨101, 2⟩]⟩ := by
  refine reinit_replaces_books exCfg 9 exBooks [exBroken] exReconn 10 _ ?_ (by decide +kernel) (by decide +kernel) (by decide +kernel) rfl rfl (by decide) (by simp [exReconn]) (by decide)
  intro c hc; simp at hc; rcases hc with hc | hc <;> subst hc <;> decide +kernel
