import BarterModel.Props.C12W
open BarterModel BarterModel.ExStream

-- (1) `exchange_stream_is_a_c12_connection` holds for ANY list and ANY flag: it says nothing about ExchangeStream
theorem any_list_is_a_c12_connection {ο τ : Type} (l : List (Except τ ο)) (b : Bool)
    (val : ο → Nat) (errId : τ → Nat) (terminal : τ → Bool) :
    Streams.connStream (l.map (toElem val errId terminal)) (!b) =
      ⟨l.map (fun o => .yield (toRes val errId terminal o)), b⟩ := by
  simp [Streams.connStream, elemSteps_map_toElem]

-- (2) the gap between chrono's last second and 2^64 s: the f64-seconds helper PANICS (no theorem in Props/C12W)
theorem f64_s_panics_beyond_chrono (sem : FloatSem) (cs : List Char) (q : Rat)
    (hp : parseF64Str sem cs = .ok (.finite q)) (h0 : 0 ≤ q) (h1 : q < (2 : Rat) ^ 64)
    (hr : ¬ (roundHalfEven (q * nanosPerSec)).toNat / nanosPerSec ≤ maxChronoSecs) :
    deStrF64EpochS sem (.str cs false) = .panic := by
  have hn : ¬ q < 0 := by grind
  have h2 : ¬ (2 : Rat) ^ 64 ≤ q := by grind
  simp only [deStrF64EpochS, deStr, hp, durationFromSecsF64, if_neg hn, if_neg h2]
  rw [panic_of_datetime _ hr]

-- and the f64-milliseconds helper
theorem f64_ms_panics_beyond_chrono (sem : FloatSem) (cs : List Char) (q : Rat)
    (hp : parseF64Str sem cs = .ok (.finite q)) (h0 : 0 ≤ q) (h1 : q < (2 : Rat) ^ 64)
    (hr : ¬ q.floor.toNat / 1000 ≤ maxChronoSecs) :
    deStrF64EpochMs sem (.str cs false) = .panic := by
  simp only [deStrF64EpochMs, deStr, hp, Props.C12W.f64_as_u64_in_range q h0 h1]
  rw [panic_of_datetime _ (by simpa [Duration.fromMillis] using hr)]

example : deStrF64EpochS ieee (.str "8210266876800".toList false) = .panic := by decide +kernel
