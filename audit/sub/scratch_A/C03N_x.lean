import BarterModel.Props.C03N
open BarterModel.Collections BarterModel.Props.C03N

-- (1) hypothesis of audit_terminal_iff is needed, and is stronger than needed
example : (⟨false, .none, .many []⟩ : ProcessAudit Bool Nat Nat).isTerminal id = true ∧
    (⟨false, .none, .many []⟩ : ProcessAudit Bool Nat Nat).errors.len = 0 := ⟨rfl, rfl⟩

theorem terminal_iff_weaker {ε ω κ : Type} (t : ε → Bool) (a : ProcessAudit ε ω κ) (h : a.errors ≠ .many []) :
    a.isTerminal t = true ↔ t a.event = true ∨ a.errors.len ≠ 0 := by
  obtain ⟨e, o, er⟩ := a
  cases er with
  | none => simp [ProcessAudit.isTerminal, NOM.isEmpty, NOM.isNone, NOM.len]
  | one x => simp [ProcessAudit.isTerminal, NOM.isEmpty, NOM.isNone, NOM.len]
  | many l =>
    cases l with
    | nil => exact absurd rfl h
    | cons x l => simp [ProcessAudit.isTerminal, NOM.isEmpty, NOM.isNone, NOM.len]

theorem nom_is_empty_iff_exact {α : Type} (a : NOM α) : (a.isEmpty = true ↔ a.len = 0) ↔ a ≠ .many [] := by
  cases a with
  | none => simp [NOM.isEmpty, NOM.isNone, NOM.len]
  | one x => simp [NOM.isEmpty, NOM.isNone, NOM.len]
  | many l => cases l <;> simp [NOM.isEmpty, NOM.isNone, NOM.len]

-- (2) "compares the variant first" in general
theorem cmp_variant_first (a b : NOM Int) (h : a.tag < b.tag) : NOM.cmp a b = .lt := by
  cases a <;> cases b <;> simp_all [NOM.tag, NOM.cmp, compare, compareOfLessAndEq]

-- (3) middle conjunct of runO_refines does not depend on the register or the run
theorem panic_indep (o o' : OOM Int) (op : OOp) : op.apply o = none ↔ op.apply o' = none := by
  cases op <;> simp [OOp.apply]

-- (4) driver spec prints `errors` (exact order) when AlgoBoundary holds but generation did not run;
-- engine_audit_errors proves exactness only under ¬AlgoBoundary
def dl (e : Nat) : Bool := e == 1 || e == 2
example : AlgoBoundary dl [(1, 1)] [(2, 2), (2, 3)] := by simp [AlgoBoundary, failedSends, refused, dl]
example : (match engineAudit dl false .mkt [(1, 1)] [(2, 2), (2, 3)] with
    | .process p => p.errors.asRef | .feedEnded => [99]) = specEngineErrors dl false .mkt [(1, 1)] [(2, 2), (2, 3)] := by decide
example : (match engineAudit dl true (.cmdCancel [(2, 7), (1, 8), (1, 9)]) [(1, 1)] [(2, 2), (2, 3)] with
    | .process p => p.errors.asRef | .feedEnded => [99]) = [2, 1, 1] := by decide

-- (5) AlgoView admits isEmpty = true together with unrecoverable = some u (impossible in the code); harmless
example : ∃ p, assemble (Pre.update (0:Nat) (none : Option Nat)) (some ⟨true, some (OOM.one (5:Nat)), 7⟩) = .process p ∧ p.errors = .none := ⟨_, rfl, rfl⟩
#print axioms engine_audit_errors
#print axioms runA_refines
