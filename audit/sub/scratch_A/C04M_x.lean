import BarterModel.Props.C04M
open BarterModel.Index BarterModel.MockInstruments BarterModel.Props.C04M
open BarterModel

def defs3 : List Def :=
  [ ⟨0, 1, 1, ⟨0, 0⟩, ⟨1, 1⟩, 1, .spot, some ⟨1, 2, .asset ⟨2, 2⟩, 3, 4, 5⟩⟩,
    ⟨0, 2, 2, ⟨1, 1⟩, ⟨0, 0⟩, 0, .spot, none⟩,
    ⟨1, 3, 1, ⟨0, 10⟩, ⟨1, 11⟩, 1, .spot, none⟩ ]

theorem hb : build defs3 = some exII := by native_decide

def o1 : Open := ⟨0, 0, 0, .buy, .market, 10, 2⟩
def o2 : Open := ⟨0, 1, 0, .sell, .market, 10, 2⟩
def ev2 : Events := ⟨some (0, 1, .filled), some (1, 3889/50, 3889/50), some (1, .sell, 10, 2, 1/5)⟩

-- all hypotheses of E2 hold jointly on a collection made by `build`, after a non-empty history,
-- and the three events exist
example : ∃ b e snaps, addAll exII {} exAdds 0 = .ok b ∧ buildInit exII b = .ok e snaps ∧
    (sendOpen (runOrders e [o1]) o2).2 = .mock 0 2 ev2 :=
  ⟨_, _, _, rfl, rfl, by native_decide⟩

example (b e snaps) (h1 : addAll exII {} exAdds 0 = .ok b) (h2 : buildInit exII b = .ok e snaps)
    (h3 : (sendOpen (runOrders e [o1]) o2).2 = .mock 0 2 ev2) :
    ∃ x, exII.instruments[o2.instrument]? = some x ∧ x.value.exchange.value = 0 ∧ (2:Nat) = x.value.nameExchange := by
  have hs : sendOpen (runOrders e [o1]) o2 = ((sendOpen (runOrders e [o1]) o2).1, .mock 0 2 ev2) := by
    rw [← h3]
  obtain ⟨x, hx, he, hn, _⟩ := same_assets_for_every_order hb (by decide) h1 h2 [o1] o2 hs (by decide) (by decide)
  exact ⟨x, hx, he, hn⟩
