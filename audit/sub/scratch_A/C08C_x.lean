import BarterModel.Props.C08C
open BarterModel.MockExchange BarterModel.MockClient BarterModel.Props.C08C

-- witness: hypotheses of abort_fails_waiting_calls are satisfiable in a reachable state
def sW : Sys := (Sys.init c0 2).run [.exchOff, .call 0 .snap]
example : sW.workers[0]? = some (some ⟨0, 0, .snap⟩) ∧ (0 ∈ sW.queue.map (·.call)) ∧ sW.exch.isSome := by decide +kernel
example : Reach c0 2 sW := ⟨_, rfl⟩

-- witness: offline_only_if_cancel_or_gone, first disjunct (cancel on live exchange), elapsed 0 although latency 100
def sC : Sys := (Sys.init c0 2).run [.call 0 (.cancel 0 0 0)]
example : sC.out.map (fun d => (d.worker, d.call, d.elapsed, d.out)) = [(0,0,0,.offline)] ∧ sC.exch.isSome := by decide +kernel

-- capacity 1: the concrete claim in the docstring of capacity_is_next_power_of_two
def c1 : XCfg := { c0 with cap := 1 }
example : ((Sys.init c1 1).run [.sub, .call 0 (.open buy0 4), .adv 100, .poll 0]).subs.map
    (fun b => (b.start, b.pos, b.got.length, b.ended)) = [(0, 0, 0, true)] := by decide +kernel

-- ledger_is_C08 first two conjuncts are definitional
example (x : XState) (t : Int) (rq : Request) : (x.step t rq).1.base = (BarterModel.MockExchange.step x.base t rq).1 := rfl
example (x : XState) (t : Int) (rq : Request) : (x.step t rq).2.2 = (BarterModel.MockExchange.step x.base t rq).2.2 := rfl
-- update_time_stamps: time part definitional?
example (x : XState) (t : Int) (rq : Request) : ∀ o ∈ (x.step t rq).1.opens, o.time = t + ((x.base.latency / 2 : Nat) : Int) := by
  intro o ho; simp [XState.step, stampOpens] at ho; obtain ⟨_, _, rfl⟩ := ho; rfl
-- capacity first conjunct rfl
example (s : Sys) : s.capacity = nextPow2 s.cfg.cap := rfl

-- ill-formed configuration: exchange dies on a sell, model says gone (no theorem covers; just evaluate)
def cBad : XCfg := { base := { latency := 0, fee := 0, init := [(50,50)], instruments := [⟨5, 0⟩] }, cap := 4, groups := [] }
example : ((Sys.init cBad 1).run [.call 0 (.open { buy0 with side := .sell } 0)]).exch.isNone = true := by decide +kernel
#print axioms BarterModel.Props.C08C.protocol_refines_spec
#print axioms BarterModel.Props.C08C.response_is_answer_to_own_request
#print axioms BarterModel.Props.C08C.answers_refine_spec
