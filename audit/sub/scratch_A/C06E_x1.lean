import BarterModel.Props.C06E
open BarterModel.Book BarterModel.BinanceL2 BarterModel.ExStream BarterModel.L2Pipeline
open BarterModel.Props.C06E BarterModel.Props.C06

#print axioms pipeline_refines_spec
#print axioms pipeline_book_is_truth
#print axioms stale_window
#print axioms every_book_is_spec_book
#print axioms books_are_manager_cells
#print axioms buffered_update_before_snapshot_witness

-- stale_window witness: exBroken
def t0 : Transformer := ⟨[(0, ⟨10, Sequencer.new 1⟩)]⟩
example : Transformer.init exCfg.instrumentMap exBroken.snapshots = .ok t0 := by rfl

example :
    (pipeline exCfg 9 exBooks ([] ++ [exBroken])).events =
      (pipeline exCfg 9 exBooks ([] ++ [{ exBroken with frames := [], ended := false }])).events ++ [.reconnecting] := by
  refine (stale_window exCfg 9 exBooks [] exBroken [] (.ok (.text "m2")) [.ok (.text "m1")] t0 exM2 ⟨10, Sequencer.new 1⟩
    ?_ ?_ ?_ rfl rfl ?_ ?_ ?_ ?_ ?_ ?_).1
  · intro c hc; simp at hc; subst hc; decide +kernel
  · intro c hc; simp at hc; subst hc; decide +kernel
  · decide +kernel
  · rfl
  · decide +kernel
  · rfl
  · rfl
  · decide +kernel
  · decide +kernel
