import BarterModel.Props.C04M
open BarterModel.Index BarterModel.MockInstruments BarterModel.Props.C04M
open BarterModel

def defs3 : List Def :=
  [ ⟨0, 1, 1, ⟨0, 0⟩, ⟨1, 1⟩, 1, .spot, some ⟨1, 2, .asset ⟨2, 2⟩, 3, 4, 5⟩⟩,
    ⟨0, 2, 2, ⟨1, 1⟩, ⟨0, 0⟩, 0, .spot, none⟩,
    ⟨1, 3, 1, ⟨0, 10⟩, ⟨1, 11⟩, 1, .spot, none⟩ ]
theorem hb : build defs3 = some exII := by native_decide
def cc : MockConfig := ⟨0, 0, 1/100, [(2, 7), (1, 100), (0, 3)]⟩
def o1 : Open := ⟨0, 0, 0, .buy, .market, 10, 2⟩
def o2 : Open := ⟨0, 1, 0, .sell, .market, 10, 2⟩
def o3 : Open := ⟨0, 0, 0, .sell, .market, 10, 3⟩   -- base asset 0 holds 3, needs 3.03
def o4 : Open := ⟨0, 0, 0, .sell, .limit, 10, 1⟩

def mm := match ExecMap.genMap (toColl exII) 0 with | .ok m => m | .error _ => default
def tt := match genMockInstruments exII 0 with | .ok t => t | .error _ => []

theorem VH : ViewHyp defs3 exII cc mm tt where
  build := hb
  wfa := by decide
  un := by decide
  ua := by decide
  map := by rfl
  table := by rfl
  nodup := by decide
  covers := by decide
  nostray := by decide

#eval specObserve exII cc (specHistory exII cc [o1]) o2
#eval specObserve exII cc (specHistory exII cc [o1, o2]) o3
#eval specOutcome exII cc (specHistory exII cc [o1, o2]) o3
#eval specOutcome exII cc (specHistory exII cc [o1, o2]) o4
#eval (mockOpen mm (mockRun exII mm (spawnMock ⟨0, cc, tt⟩) [o1, o2]) (nameOf exII o3) o3).2
#eval (mockOpen mm (mockRun exII mm (spawnMock ⟨0, cc, tt⟩) [o1]) (nameOf exII o2) o2).2
#eval specSnapshot exII cc

-- E5 applies (Own holds)
example := engine_view_refinement VH 0 [o1] (by intro o ho; simp at ho; subst ho; exact ⟨_, rfl, rfl⟩) o2 ⟨_, rfl, rfl⟩
example := reject_outcome_refines_view VH 0 [o1, o2] (by intro o ho; simp at ho; rcases ho with rfl | rfl <;> exact ⟨_, rfl, rfl⟩) o3 ⟨_, rfl, rfl⟩
