import sys
def blocks(p):
    out=[];cur=None
    for l in open(p):
        l=l.rstrip("\n")
        if l.startswith("case "): out.append(("case",l)); cur=None
        elif l=="@": cur=[]; out.append(("op",cur))
        elif cur is not None: cur.append(l)
    return out
a=blocks(sys.argv[1]); s=blocks(sys.argv[2]); ops=[l.rstrip("\n") for l in open(sys.argv[3]) if not l.startswith("#")]
assert len(a)==len(s),(len(a),len(s))
k=0;bad=0
for (ta,xa),(ts,xs),o in zip(a,s,ops):
    if ta=="case": continue
    da={}
    for l in xa: da.setdefault(l.split()[0],l)
    for l in xs:
        key=l.split()[0]
        if da.get(key)!=l:
            bad+=1; print("DIFF op:",o[:80],"| spec:",l[:100],"| impl:",da.get(key,"<none>")[:100])
print("spec-vs-impl diffs:",bad)
