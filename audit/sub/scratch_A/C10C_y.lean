import BarterModel.Props.C10C
open BarterModel.Chan
example : ((Sys.init .active : Sys Nat).run [.dsend 1, .recv, .recv]).sawEnd = true := by decide
#print axioms BarterModel.Props.C10C.merge_prompt
#print axioms BarterModel.Props.C10C.audited_run_is_history
#print axioms BarterModel.Props.C10C.refines_spec
