import sys
def blocks(p):
    out=[];cur=None
    for l in open(p).read().splitlines():
        if l.startswith('case '): out.append(('case',l)); cur=None
        elif l=='@': cur=[]; out.append(('op',cur))
        elif l.startswith('#'): continue
        else:
            if cur is not None: cur.append(l)
    return out
a=blocks(sys.argv[1]); b=blocks(sys.argv[2])
assert len(a)==len(b),(len(a),len(b))
case=None; k=0; bad=0
for (ta,xa),(tb,xb) in zip(a,b):
    if ta=='case': case=xa; k=0; continue
    k+=1
    d={}
    for l in xa:
        key=l.split()[0]; d.setdefault(key,[]).append(l)
    for l in xb:
        key=l.split()[0]
        if l not in d.get(key,[]):
            bad+=1; print(case,'op',k,'spec:',l,'| impl:',d.get(key))
print('mismatches',bad)
