import BarterModel.Props.C04M
open BarterModel.Index BarterModel.MockInstruments BarterModel.Props.C04M
open BarterModel

-- the hand-made case `nonwf_assets` of C04M_e1.ops
def dn : List Def :=
  [ ⟨0, 1, 1, ⟨0, 5⟩, ⟨1, 1⟩, 1, .spot, none⟩, ⟨0, 2, 2, ⟨0, 6⟩, ⟨1, 1⟩, 1, .spot, none⟩ ]
example : ¬ WFAssets dn ∧ UniqueNames dn 0 ∧ UniqueAssetNames dn 0 := by decide
-- hence no ViewHyp for these definitions, whatever the rest
example (ii c m t) : ¬ ViewHyp dn ii c m t := fun H => absurd H.wfa (by decide)
#eval build dn
