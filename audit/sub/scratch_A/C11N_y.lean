import BarterModel.Props.C11N
open BarterModel.Names BarterModel.Index BarterModel.Props.C11N
-- new_from_exchange_underlying: is the exchange determined? (no audited theorem states it)
theorem underlying_prefix_inj : ∀ a ∈ ExchangeId.all, ∀ b ∈ ExchangeId.all,
    lowerStr a.variantName = lowerStr b.variantName → a = b := by decide +kernel
theorem underlying_prefix_nodash : ∀ a ∈ ExchangeId.all, '-' ∉ lowerStr a.variantName := by decide +kernel
theorem underlying_determines_exchange (e₁ e₂ : ExchangeId) (b₁ q₁ b₂ q₂ : Str)
    (h : InstrumentNameInternal.newFromExchangeUnderlying e₁ b₁ q₁ =
         InstrumentNameInternal.newFromExchangeUnderlying e₂ b₂ q₂) : e₁ = e₂ := by
  have h' := congrArg InstrumentNameInternal.name h
  rw [new_from_exchange_underlying_eq, new_from_exchange_underlying_eq] at h'
  have h'' : lowerStr e₁.variantName ++ '-' :: (lowerStr b₁ ++ '_' :: lowerStr q₁) =
      lowerStr e₂.variantName ++ '-' :: (lowerStr b₂ ++ '_' :: lowerStr q₂) := by simpa using h'
  have := append_dash_inj _ _ _ _ (underlying_prefix_nodash e₁ (mem_all e₁))
    (underlying_prefix_nodash e₂ (mem_all e₂)) h''
  exact underlying_prefix_inj e₁ (mem_all e₁) e₂ (mem_all e₂) this.1
