import BarterModel.Props.C10C
open BarterModel.Chan
namespace Scratch

-- (1) indexed_maps_every_item holds for ANY inner stream (it is the unfolding of Strm.map)
theorem indexed_generic {σ α β ε : Type} (index : α → Except ε β) (s : Strm σ α) (st : σ) :
    (Strm.indexed index s st).1 = (s st).1 ∧
    (Strm.indexed index s st).2 =
      (match (s st).2 with | .item x => .item (index x) | .done => .done | .pending => .pending) := by
  unfold Strm.indexed Strm.map; split <;> simp_all

-- (2) the `interleaved` field of MergeSpec holds for every tagged list, run or not
example (out : List (Bool × Nat)) : Interleave (outOf true out) (outOf false out) (out.map (·.2)) :=
  interleave_tags out

-- (3) the model's channel accepts a send with NO transmitter handle, and is not fused:
-- done, then (send with senders = 0) an item
example : let c : Chan Nat := ⟨[], 0, true⟩
    c.pollNext.2 = .done ∧ (c.send 7).2 = true ∧ ((c.send 7).1.pollNext).2 = .item 7 := by decide

-- (4) end_means_complete premise: the only way to see the end in `Op` histories is via disable / failed send;
-- there is no op "drop the ChannelTxDroppable while Active". Witness that sawEnd needs a `disable`:
example : ((Sys.init .active : Sys Nat).run [.dsend 1, .recv, .recv]).sawEnd = false := by decide
example : ((Sys.init .active : Sys Nat).run [.dsend 1, .disable, .recv, .recv]).sawEnd = true := by decide

-- (5) runAudited never drops the transmitter at the end of the run: after a complete run the channel still has 1 sender
example : let E : Runner Nat Nat Nat := ⟨fun e i => (e + i, e + i), fun e => (e, 0), fun k => k == 0⟩
    (runAudited E worldTx (fun _ w => w) 0 0 .active (Chan.new, []) [1, 2]).world.1.senders = 1 ∧
    (runAudited E worldTx (fun _ w => w) 0 0 .active (Chan.new, []) [1, 2]).world.1.pollNext.2 = .item 1 := by decide

-- (6) shutdown_record_is_last does not say the returned record is terminal: generic Runner with a non-terminal FeedEnded
example : let E : Runner Nat Nat Nat := ⟨fun e i => (e + i, e + i), fun e => (e, 5), fun _ => false⟩
    E.terminal (runPlain E 0 [1, 2]).2 = false := by decide

end Scratch
