import BarterModel.Props.C10C
open BarterModel.Chan
namespace Scratch

theorem step_dead {α : Type} (s : Sys α) (op : Op α) (h : s.c.rxAlive = false) :
    (s.step op).c.rxAlive = false ∧ (s.step op).got = s.got := by
  cases op with
  | dsend x =>
    cases hd : s.d <;> simp [Sys.step, dsend, chanTx, Chan.send, Chan.dropTx, hd, h]
  | disable => cases hd : s.d <;> simp [Sys.step, ddisable, chanTx, Chan.dropTx, hd, h]
  | recv => simp [Sys.step, h]
  | dropRx => simp [Sys.step, Chan.dropRx]

theorem run_dead {α : Type} (ops : List (Op α)) (s : Sys α) (h : s.c.rxAlive = false) :
    (s.run ops).got = s.got := by
  induction ops generalizing s with
  | nil => rfl
  | cons op ops ih =>
    have hs := step_dead s op h
    have := ih (s.step op) hs.1
    simp only [Sys.run, List.foldl_cons] at *
    rw [this, hs.2]

/-- `disabled_is_permanent` without the `rxAlive` hypothesis on its second conjunct -/
theorem disabled_is_permanent' {α : Type} (ops more : List (Op α))
    (h : ((Sys.init .active : Sys α).run ops).d = .disabled) :
    ((Sys.init .active : Sys α).run (ops ++ more)).got <+:
      ((Sys.init .active : Sys α).run ops).got ++ ((Sys.init .active : Sys α).run ops).c.queue := by
  cases hrx : ((Sys.init .active : Sys α).run ops).c.rxAlive with
  | true => exact (BarterModel.Props.C10C.disabled_is_permanent ops more h).2 hrx
  | false =>
    rw [Sys.run_append, run_dead more _ hrx]
    exact List.prefix_append _ _
end Scratch
