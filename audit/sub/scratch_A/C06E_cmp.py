import sys
def blocks(p):
    out=[];cur=None;case=None
    for l in open(p):
        l=l.rstrip("\n")
        if l.startswith("case "):
            case=l; k=0; continue
        if l=="@":
            cur=[];out.append((case,k,cur));k+=1;continue
        if cur is not None: cur.append(l)
    return out
a=blocks(sys.argv[1]);b=blocks(sys.argv[2])
assert len(a)==len(b),(len(a),len(b))
for (c,k,x),(_,_,y) in zip(a,b):
    d={}
    for l in x:
        key=l.split()[0]
        if key in("ev","he"):continue
        d[key]=l
    for l in y:
        key=l.split()[0]
        if key in("ev","he"):continue
        if d.get(key)!=l: print(c,"op",k,"impl:",d.get(key),"| spec:",l)
