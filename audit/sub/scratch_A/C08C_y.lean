import BarterModel.Props.C08C
open BarterModel.MockExchange BarterModel.MockClient BarterModel.Props.C08C

theorem settle_alive (u : Spec.SSys) : u.settle.1.alive = u.alive := by
  simp only [Spec.SSys.settle, Spec.SSys.finish, Spec.SSys.see]
  split <;> rfl

theorem sstep_alive (u : Spec.SSys) (op : Op) (hop : op ≠ .exchStop) (r) (h : u.step op = some r) :
    r.1.alive = u.alive := by
  cases op <;> simp only [Spec.SSys.step] at h
  case exchStop => exact absurd rfl hop
  case call w c =>
    split at h
    · cases h; simp only [settle_alive]; split <;> rfl
    · cases h
  case abandon w =>
    split at h
    · cases h; simp only [settle_alive]
    · cases h
  case poll i =>
    split at h
    · cases h; simp [settle_alive]
    · cases h
  all_goals (cases h; simp only [settle_alive])

theorem srun_alive (ops : List Op) (hno : Op.exchStop ∉ ops) (u : Spec.SSys) : (u.run ops).alive = u.alive := by
  induction ops generalizing u with
  | nil => rfl
  | cons op ops ih =>
    have h1 : op ≠ .exchStop := fun h => hno (h ▸ List.mem_cons_self)
    have h2 : Op.exchStop ∉ ops := fun h => hno (List.mem_cons_of_mem _ h)
    simp only [Spec.SSys.run, List.foldl_cons]
    cases hs : u.step op with
    | none => exact ih h2 u
    | some r => exact (ih h2 r.1).trans (sstep_alive u op h1 r hs)

/-- "The exchange never panics" (docstring of exchange_state_is_run) — derivable, but only WITH hd, from protocol_refines_spec. -/
theorem exchange_never_dies {c : XCfg} (hc : c.base.wf = true) (hd : Spec.distinctCids c) (w : Nat)
    (ops : List Op) (hno : Op.exchStop ∉ ops) : ((Sys.init c w).run ops).exch.isSome = true := by
  have := congrArg Spec.SSys.alive (protocol_refines_spec hc hd w ops)
  rw [srun_alive ops hno] at this
  exact this
