import BarterModel.Props.C05M
open BarterModel.Book BarterModel.BookManager

-- a CLEAN book (distinct prices, no zero amount: C05's domain) on which the code panics
-- (Decimal division by zero in volume_weighted_mid_price) while the model's vw mid-price is `some 0`
def bk : TBook := ⟨1, none, [⟨100, 1⟩], [⟨101, -1⟩]⟩

example : bk.vwMidPanics = true := by decide +kernel
example : bk.toCore.volumeWeightedMidPrice = some 0 := by decide +kernel
example : CleanInput bk.bids ∧ CleanInput bk.asks := by
  refine ⟨⟨by decide +kernel, ?_⟩, ⟨by decide +kernel, ?_⟩⟩ <;> (unfold NonZero; decide +kernel)
example : (SCell.ofBook bk).spec?.map Spec.volumeWeightedMidPrice = some (some 0) := by decide +kernel
#print NonZero
