//! Line protocol shared by the engine-level harness binaries (C03, C19): configuration, events and
//! observations of a real `Engine` — see `lean/BarterModel/Driver/EngineCommon.lean` for the syntax.
use crate::{engine_util::*, *};
use barter::{
    EngineEvent,
    engine::{
        EngineOutput, Processor,
        action::{
            ActionOutput,
            generate_algo_orders::GenerateAlgoOrdersOutput,
            send_requests::SendRequestsOutput,
        },
        audit::EngineAudit,
        command::Command,
        error::{EngineError, UnrecoverableEngineError},
        state::{instrument::filter::InstrumentFilter, trading::TradingState},
    },
    execution::{AccountStreamEvent, request::ExecutionRequest},
};
use barter_data::{
    event::{DataKind, MarketEvent},
    streams::consumer::MarketStreamEvent,
    subscription::trade::PublicTrade,
};
use barter_execution::{
    AccountEvent, AccountEventKind,
    error::{ApiError, OrderError},
    order::{
        Order, OrderEvent, OrderKey, OrderKind, TimeInForce,
        id::{ClientOrderId, OrderId, StrategyId},
        request::{OrderRequestCancel, OrderRequestOpen, OrderResponseCancel, RequestCancel, RequestOpen},
        state::{ActiveOrderState, Cancelled, Open, OpenInFlight, OrderState},
    },
    trade::{AssetFees, Trade, TradeId},
};
use barter_instrument::{
    Side, Underlying,
    asset::AssetIndex,
    exchange::ExchangeIndex,
    index::IndexedInstruments,
    instrument::{Instrument, InstrumentIndex},
};
use barter_integration::{collection::one_or_many::OneOrMany, snapshot::Snapshot};
use rust_decimal::Decimal;

pub struct World {
    pub built: Built,
    /// exchange label -> ExchangeIndex position
    pub ex_idx: Vec<usize>,
    /// instrument label -> InstrumentIndex position
    pub ins_idx: Vec<usize>,
    /// (exchange label, asset label) of each instrument label
    pub defs: Vec<(usize, usize, usize)>,
    pub links: Vec<Link>,
    pub tick: i64,
}

impl World {
    pub fn engine(&mut self) -> &mut TestEngine {
        &mut self.built.engine
    }
    fn ex_label(&self, idx: usize) -> usize {
        self.ex_idx.iter().position(|x| *x == idx).unwrap_or(idx)
    }
    fn ins_label(&self, idx: usize) -> usize {
        self.ins_idx.iter().position(|x| *x == idx).unwrap_or(idx)
    }
    fn ex_index(&self, label: usize) -> usize {
        self.ex_idx.get(label).copied().unwrap_or(label)
    }
    fn asset_index(&self, ex_label: usize, asset_label: usize) -> Option<usize> {
        let name = format!("a{asset_label}");
        self.built.engine.state.assets.0.keys().position(|k| {
            k.exchange == EXCHANGES[ex_label] && k.asset.name().as_str() == name
        })
    }
}

/// `<on|off> L <letters> I <ex,base,quote>...`
pub fn init_world(toks: &[String]) -> World {
    let trading = if toks[0] == "on" { TradingState::Enabled } else { TradingState::Disabled };
    assert_eq!(toks[1], "L");
    let links: Vec<Link> = toks[2]
        .chars()
        .map(|c| match c {
            'H' => Link::Healthy,
            'C' => Link::Closed,
            'U' => Link::Unhealthy,
            _ => Link::Missing,
        })
        .collect();
    assert_eq!(toks[3], "I");
    let defs: Vec<(usize, usize, usize)> = toks[4..]
        .iter()
        .map(|t| {
            let v: Vec<usize> = t.split(',').map(|x| x.parse().unwrap()).collect();
            (v[0], v[1], v[2])
        })
        .collect();
    let mut builder = IndexedInstruments::builder();
    for (k, (ex, base, quote)) in defs.iter().enumerate() {
        builder = builder.add_instrument(Instrument::spot(
            EXCHANGES[*ex],
            format!("i{k}"),
            format!("I{k}"),
            Underlying::new(format!("a{base}"), format!("a{quote}")),
            None,
        ));
    }
    let instruments = builder.build();
    let ex_idx: Vec<usize> = (0..links.len())
        .map(|l| {
            instruments
                .exchanges()
                .iter()
                .position(|e| e.value == EXCHANGES[l])
                .expect("every exchange label has an instrument")
        })
        .collect();
    // links by exchange index
    let mut by_index = vec![Link::Healthy; links.len()];
    for (label, idx) in ex_idx.iter().enumerate() {
        by_index[*idx] = links[label];
    }
    let built = build_engine(&instruments, &by_index, trading);
    let ins_idx: Vec<usize> = (0..defs.len())
        .map(|k| {
            built.engine.state.instruments.0.values()
                .position(|s| s.instrument.name_internal.name().as_str() == format!("i{k}"))
                .unwrap()
        })
        .collect();
    World { built, ex_idx, ins_idx, defs, links, tick: 0 }
}

fn key(w: &World, ex: usize, ins: usize, cid: &str) -> OrderKey<ExchangeIndex, InstrumentIndex> {
    OrderKey {
        exchange: ExchangeIndex(w.ex_index(ex)),
        instrument: InstrumentIndex(w.ins_idx[ins]),
        strategy: StrategyId::new("verif"),
        cid: ClientOrderId::new(cid),
    }
}

fn parse_side(s: &str) -> Side {
    if s == "B" { Side::Buy } else { Side::Sell }
}

pub fn parse_reqs(
    w: &World,
    toks: &[String],
) -> (Vec<OrderRequestCancel<ExchangeIndex, InstrumentIndex>>, Vec<OrderRequestOpen<ExchangeIndex, InstrumentIndex>>) {
    let mut cs = vec![];
    let mut os = vec![];
    for t in toks {
        let f: Vec<&str> = t.split(':').collect();
        let ex: usize = f[1].parse().unwrap();
        let ins: usize = f[2].parse().unwrap();
        match f[0] {
            "c" => cs.push(OrderEvent {
                key: key(w, ex, ins, f[3]),
                state: RequestCancel { id: f.get(4).map(OrderId::new) },
            }),
            "o" => os.push(OrderEvent {
                key: key(w, ex, ins, f[3]),
                state: RequestOpen {
                    side: parse_side(f[4]),
                    price: parse_dec(f[5]),
                    quantity: parse_dec(f[6]),
                    kind: OrderKind::Market,
                    time_in_force: TimeInForce::ImmediateOrCancel,
                },
            }),
            other => panic!("bad request {other}"),
        }
    }
    (cs, os)
}

pub fn parse_filter(w: &World, s: &str) -> InstrumentFilter {
    if s == "none" {
        return InstrumentFilter::None;
    }
    let (kind, list) = s.split_once(':').unwrap();
    match kind {
        "ex" => InstrumentFilter::Exchanges(OneOrMany::from_iter(
            list.split(',').map(|x| ExchangeIndex(w.ex_index(x.parse().unwrap()))),
        )),
        "ins" => InstrumentFilter::Instruments(OneOrMany::from_iter(
            list.split(',').map(|x| {
                let l: usize = x.parse().unwrap();
                InstrumentIndex(w.ins_idx.get(l).copied().unwrap_or(l + 100))
            }),
        )),
        "und" => {
            // a label pair names that underlying on every exchange that has both assets
            let mut v = vec![];
            for pair in list.split(',') {
                let (b, q) = pair.split_once('-').unwrap();
                let (b, q): (usize, usize) = (b.parse().unwrap(), q.parse().unwrap());
                for ex in 0..w.links.len() {
                    if let (Some(bi), Some(qi)) = (w.asset_index(ex, b), w.asset_index(ex, q)) {
                        v.push(Underlying::new(AssetIndex(bi), AssetIndex(qi)));
                    }
                }
            }
            if v.is_empty() {
                // no such underlying anywhere: a filter that matches nothing
                v.push(Underlying::new(AssetIndex(10_000), AssetIndex(10_001)));
            }
            InstrumentFilter::Underlyings(OneOrMany::from_iter(v))
        }
        other => panic!("bad filter {other}"),
    }
}

pub fn fmt_side(s: Side) -> &'static str {
    match s {
        Side::Buy => "B",
        Side::Sell => "S",
    }
}

pub fn fmt_cancel(w: &World, r: &OrderRequestCancel<ExchangeIndex, InstrumentIndex>) -> String {
    format!(
        "c:{}:{}:{}{}",
        w.ex_label(r.key.exchange.0),
        w.ins_label(r.key.instrument.0),
        canon_cid(w, &r.key.cid.0),
        r.state.id.as_ref().map(|id| format!(":{}", id.0)).unwrap_or_default()
    )
}

pub fn fmt_open_req(w: &World, r: &OrderRequestOpen<ExchangeIndex, InstrumentIndex>) -> String {
    format!(
        "o:{}:{}:{}:{}:{}:{}",
        w.ex_label(r.key.exchange.0),
        w.ins_label(r.key.instrument.0),
        canon_cid(w, &r.key.cid.0),
        fmt_side(r.state.side),
        fmt_dec(r.state.price),
        fmt_dec(r.state.quantity)
    )
}

fn fmt_err(e: &EngineError) -> &'static str {
    match e {
        EngineError::Unrecoverable(UnrecoverableEngineError::IndexError(_)) => "index",
        EngineError::Unrecoverable(UnrecoverableEngineError::ExecutionChannelTerminated(_)) => "terminated",
        EngineError::Unrecoverable(_) => "custom",
        EngineError::Recoverable(_) => "unhealthy",
    }
}

pub fn cid_num(s: &str) -> u64 {
    s.parse().unwrap_or(u64::MAX)
}

/// the injected close-position cid generator yields `9000 + InstrumentIndex`; print it as
/// `9000 + instrument label`
pub fn canon_cid(w: &World, cid: &str) -> String {
    match cid.parse::<usize>() {
        Ok(n) if (9000..9100).contains(&n) => format!("{}", 9000 + w.ins_label(n - 9000)),
        _ => cid.to_string(),
    }
}

fn send_out_lines<K: Clone>(
    pfx: &str,
    out: &SendRequestsOutput<K, ExchangeIndex, InstrumentIndex>,
    fmt: &dyn Fn(&OrderEvent<K, ExchangeIndex, InstrumentIndex>) -> String,
    sort: bool,
    w: &World,
    lines: &mut Vec<String>,
) {
    let mut sent: Vec<_> = out.sent.iter().collect();
    let mut errs: Vec<_> = out.errors.iter().collect();
    if sort {
        sent.sort_by_key(|r| (w.ins_label(r.key.instrument.0), cid_num(&r.key.cid.0)));
        errs.sort_by_key(|(r, _)| (w.ins_label(r.key.instrument.0), cid_num(&r.key.cid.0)));
    }
    lines.push(format!("{pfx}_sent {}", sent.iter().map(|r| fmt(r)).collect::<Vec<_>>().join(" ")));
    lines.push(format!(
        "{pfx}_err {}",
        errs.iter().map(|(r, e)| format!("{}!{}", fmt(r), fmt_err(e))).collect::<Vec<_>>().join(" ")
    ));
}

fn fmt_open(o: &Open) -> String {
    format!("({},{},{})", o.id.0, (o.time_exchange - t0()).num_milliseconds(), fmt_dec(o.filled_quantity))
}

pub fn fmt_active(s: &ActiveOrderState) -> String {
    match s {
        ActiveOrderState::OpenInFlight(_) => "F".into(),
        ActiveOrderState::Open(o) => format!("O{}", fmt_open(o)),
        ActiveOrderState::CancelInFlight(c) => match &c.order {
            None => "C(-)".into(),
            Some(o) => format!("C{}", fmt_open(o)),
        },
    }
}

pub fn observe_state(w: &World, lines: &mut Vec<String>) {
    let engine = &w.built.engine;
    for (label, idx) in w.ins_idx.iter().enumerate() {
        let orders = &engine.state.instruments.instrument_index(&InstrumentIndex(*idx)).orders.0;
        let mut v: Vec<(String, &ActiveOrderState)> =
            orders.iter().map(|(cid, o)| (canon_cid(w, &cid.0), &o.state)).collect();
        v.sort_by_key(|(cid, _)| cid_num(cid));
        lines.push(format!(
            "ord{label} {}",
            v.iter().map(|(cid, st)| format!("{}:{}", cid, fmt_active(st))).collect::<Vec<_>>().join(" ")
        ));
        // position and price of every instrument after every tick (C19: commands leave them untouched)
        let ins = engine.state.instruments.instrument_index(&InstrumentIndex(*idx));
        lines.push(match &ins.position.current {
            None => format!("pos{label} none"),
            Some(p) => format!("pos{label} {}:{}", fmt_side(p.side), fmt_dec(p.quantity_abs)),
        });
        {
            use barter::engine::state::instrument::data::InstrumentDataState;
            lines.push(match ins.data.price() {
                None => format!("price{label} none"),
                Some(p) => format!("price{label} {}", fmt_dec(p)),
            });
        }
    }
    lines.push(format!(
        "trading {}",
        if engine.state.trading == TradingState::Enabled { "on" } else { "off" }
    ));
    lines.push(format!("disabled_calls {}", engine.strategy.trading_disabled_calls));
}

pub enum Built2 {
    /// event, and whether it is a `cancel_orders` (1) / `close_positions` (2) command (0 otherwise)
    Event(Event, u8),
    /// the op names an instrument the engine does not know (the code would panic)
    Panic,
    /// `flat` on an instrument without a position: nothing to send
    Noop,
}

/// `ev ...` tokens -> engine event (second component: it is a `cancel_orders` command)
pub fn build_event(w: &mut World, toks: &[String]) -> Built2 {
    w.tick += 1;
    let time = time_ms(w.tick);
    let n = w.ins_idx.len();
    let ins_in_range = |t: &str| t.parse::<usize>().map(|i| i < n).unwrap_or(false);
    let mut is_cancel_orders = 0u8;
    let event: Event = match toks[0].as_str() {
        "shutdown" => EngineEvent::Shutdown(barter::shutdown::Shutdown),
        "cmd_open" => EngineEvent::Command(Command::SendOpenRequests(OneOrMany::from_iter(parse_reqs(w, &toks[1..]).1))),
        "cmd_cancel" => EngineEvent::Command(Command::SendCancelRequests(OneOrMany::from_iter(parse_reqs(w, &toks[1..]).0))),
        "cancel_orders" => {
            is_cancel_orders = 1;
            EngineEvent::Command(Command::CancelOrders(parse_filter(w, &toks[1])))
        }
        "close_positions" => {
            is_cancel_orders = 2;
            EngineEvent::Command(Command::ClosePositions(parse_filter(w, &toks[1])))
        }
        "other" => {
            let ex: usize = toks[2].parse().unwrap();
            match toks[1].as_str() {
                "mktre" => EngineEvent::Market(MarketStreamEvent::Reconnecting(EXCHANGES[ex])),
                "accre" => EngineEvent::Account(AccountStreamEvent::Reconnecting(EXCHANGES[ex])),
                _ => {
                    let asset = w
                        .built
                        .engine
                        .state
                        .assets
                        .0
                        .keys()
                        .position(|k| k.exchange == EXCHANGES[ex])
                        .expect("exchange has an asset");
                    EngineEvent::Account(AccountStreamEvent::Item(AccountEvent {
                        exchange: ExchangeIndex(w.ex_index(ex)),
                        kind: AccountEventKind::BalanceSnapshot(Snapshot(
                            barter_execution::balance::AssetBalance {
                                asset: AssetIndex(asset),
                                balance: barter_execution::balance::Balance::new(
                                    Decimal::from(1000 + w.tick),
                                    Decimal::from(1000 + w.tick),
                                ),
                                time_exchange: time,
                            },
                        )),
                    }))
                }
            }
        }
        "trading" => EngineEvent::TradingStateUpdate(if toks[1] == "on" { TradingState::Enabled } else { TradingState::Disabled }),
        "snap" | "resp" | "fill" | "flat" | "price" | "reduce" => {
            if !ins_in_range(&toks[1]) {
                return Built2::Panic;
            }
            let i: usize = toks[1].parse().unwrap();
            let idx = InstrumentIndex(w.ins_idx[i]);
            let ex_label = w.defs[i].0;
            let ex = ExchangeIndex(w.ex_index(ex_label));
            match toks[0].as_str() {
                "snap" => {
                    let state: OrderState = match toks[5].as_str() {
                        "F" => OrderState::active(OpenInFlight),
                        "O" => OrderState::active(Open {
                            id: OrderId::new(toks[6].as_str()),
                            time_exchange: time_ms(toks[7].parse().unwrap()),
                            filled_quantity: parse_dec(&toks[8]),
                        }),
                        _ => OrderState::inactive(Cancelled { id: OrderId::new("x"), time_exchange: time }),
                    };
                    EngineEvent::Account(AccountStreamEvent::Item(AccountEvent {
                        exchange: ex,
                        kind: AccountEventKind::OrderSnapshot(Snapshot(Order {
                            key: key(w, ex_label, i, &toks[2]),
                            side: Side::Buy,
                            price: parse_dec(&toks[4]),
                            quantity: parse_dec(&toks[3]),
                            kind: OrderKind::Limit,
                            time_in_force: TimeInForce::GoodUntilCancelled { post_only: false },
                            state,
                        })),
                    }))
                }
                "resp" => EngineEvent::Account(AccountStreamEvent::Item(AccountEvent {
                    exchange: ex,
                    kind: AccountEventKind::OrderCancelled(OrderResponseCancel {
                        key: key(w, ex_label, i, &toks[2]),
                        state: if toks[3] == "ok" {
                            Ok(Cancelled { id: OrderId::new("x"), time_exchange: time })
                        } else {
                            Err(OrderError::Rejected(ApiError::OrderRejected("no".into())))
                        },
                    }),
                })),
                "fill" | "flat" | "reduce" => {
                    let (side, qty) = if toks[0] == "fill" {
                        (parse_side(&toks[2]), parse_dec(&toks[3]))
                    } else if toks[0] == "reduce" {
                        // partial reduction: opposite side, half of the open quantity
                        match &w.built.engine.state.instruments.instrument_index(&idx).position.current {
                            Some(p) => (
                                if p.side == Side::Buy { Side::Sell } else { Side::Buy },
                                p.quantity_abs / Decimal::from(2),
                            ),
                            None => (Side::Buy, Decimal::ZERO),
                        }
                    } else {
                        match &w.built.engine.state.instruments.instrument_index(&idx).position.current {
                            Some(p) => (
                                if p.side == Side::Buy { Side::Sell } else { Side::Buy },
                                p.quantity_abs,
                            ),
                            None => (Side::Buy, Decimal::ZERO),
                        }
                    };
                    if qty.is_zero() {
                        // nothing to close: no event reaches the engine
                        return Built2::Noop;
                    }
                    EngineEvent::Account(AccountStreamEvent::Item(AccountEvent {
                        exchange: ex,
                        kind: AccountEventKind::Trade(Trade {
                            id: TradeId::new(format!("t{}", w.tick)),
                            order_id: OrderId::new("o"),
                            instrument: idx,
                            strategy: StrategyId::new("verif"),
                            time_exchange: time,
                            side,
                            price: Decimal::from(100),
                            quantity: qty,
                            fees: AssetFees::quote_fees(Decimal::ZERO),
                        }),
                    }))
                }
                _ => EngineEvent::Market(MarketStreamEvent::Item(MarketEvent {
                    time_exchange: time,
                    time_received: time + chrono::Duration::seconds(100),
                    exchange: EXCHANGES[ex_label],
                    instrument: idx,
                    kind: DataKind::Trade(PublicTrade {
                        id: "t".into(),
                        price: toks[2].parse::<f64>().unwrap(),
                        amount: 1.0,
                        side: Side::Buy,
                    }),
                })),
            }
        }
        other => panic!("bad event {other}"),
    };
    Built2::Event(event, is_cancel_orders)
}

/// `ev ...`: build the engine event, process it, print the tick's observations.
pub fn run_event(w: &mut World, toks: &[String], algo: Option<(Vec<OrderRequestCancel>, Vec<OrderRequestOpen>)>, lines: &mut Vec<String>) {
    let (event, cmd_kind) = match build_event(w, toks) {
        Built2::Event(e, c) => (e, c),
        Built2::Panic => {
            lines.push("panic".into());
            return;
        }
        Built2::Noop => {
            lines.push("noop".into());
            return;
        }
    };
    let is_cancel_orders = cmd_kind == 1;
    let is_close_positions = cmd_kind == 2;

    if let Some(a) = algo {
        w.built.engine.strategy.script.borrow_mut().push_back(a);
    }
    let audit = w.built.engine.process(event);
    w.built.engine.strategy.script.borrow_mut().clear();

    // what each link received during this tick (raw, in delivery order)
    let mut received: Vec<Option<Vec<ExecutionRequest>>> = vec![];
    for label in 0..w.links.len() {
        let idx = w.ex_idx[label];
        received.push(w.built.rxs[idx].as_mut().map(drain));
    }

    let EngineAudit::Process(p) = audit else { panic!("unexpected FeedEnded") };
    let mut commanded: Option<&ActionOutput> = None;
    let mut algo_out: Option<&GenerateAlgoOrdersOutput> = None;
    for o in p.outputs.iter() {
        match o {
            EngineOutput::Commanded(a) => commanded = Some(a),
            EngineOutput::AlgoOrders(g) => algo_out = Some(g),
            _ => {}
        }
    }
    // `cancel_orders` iterates a hash map: the command's own cancels (the first k deliveries of the
    // tick on each link) are printed sorted by (instrument, cid); everything else in delivery order
    for (label, got) in received.into_iter().enumerate() {
        let line = match got {
            None => format!("rx{label} -"),
            Some(got) => {
                // number of leading deliveries on this link that belong to the command itself
                let k = match (cmd_kind, commanded) {
                    (1, Some(ActionOutput::CancelOrders(c))) => c
                        .sent
                        .iter()
                        .filter(|r| w.ex_label(r.key.exchange.0) == label)
                        .count(),
                    (2, Some(ActionOutput::ClosePositions(c))) => c
                        .opens
                        .sent
                        .iter()
                        .filter(|r| w.ex_label(r.key.exchange.0) == label)
                        .count(),
                    _ => 0,
                };
                let mut head_c: Vec<OrderRequestCancel<ExchangeIndex, InstrumentIndex>> = vec![];
                let mut head_o: Vec<OrderRequestOpen<ExchangeIndex, InstrumentIndex>> = vec![];
                let mut rest: Vec<String> = vec![];
                for (n, r) in got.into_iter().enumerate() {
                    match r {
                        ExecutionRequest::Cancel(c) if n < k => head_c.push(c),
                        ExecutionRequest::Open(o) if n < k => head_o.push(o),
                        ExecutionRequest::Cancel(c) => rest.push(fmt_cancel(w, &c)),
                        ExecutionRequest::Open(o) => rest.push(fmt_open_req(w, &o)),
                        ExecutionRequest::Shutdown => rest.push("shutdown".into()),
                    }
                }
                head_c.sort_by_key(|r| (w.ins_label(r.key.instrument.0), cid_num(&r.key.cid.0)));
                head_o.sort_by_key(|r| w.ins_label(r.key.instrument.0));
                let mut all: Vec<String> = head_c.iter().map(|c| fmt_cancel(w, c)).collect();
                all.extend(head_o.iter().map(|o| fmt_open_req(w, o)));
                all.extend(rest);
                format!("rx{label} {}", all.join(" "))
            }
        };
        lines.push(line);
    }
    let fc = |r: &OrderRequestCancel<ExchangeIndex, InstrumentIndex>| fmt_cancel(w, r);
    let fo = |r: &OrderRequestOpen<ExchangeIndex, InstrumentIndex>| fmt_open_req(w, r);
    let empty_c = SendRequestsOutput::<RequestCancel, ExchangeIndex, InstrumentIndex>::default();
    let empty_o = SendRequestsOutput::<RequestOpen, ExchangeIndex, InstrumentIndex>::default();
    match commanded {
        None => lines.push("cmd none".into()),
        Some(ActionOutput::CancelOrders(c)) => {
            send_out_lines("cmd_c", c, &fc, is_cancel_orders, w, lines);
            send_out_lines("cmd_o", &empty_o, &fo, false, w, lines);
        }
        Some(ActionOutput::OpenOrders(o)) => {
            send_out_lines("cmd_c", &empty_c, &fc, false, w, lines);
            send_out_lines("cmd_o", o, &fo, false, w, lines);
        }
        Some(ActionOutput::ClosePositions(co)) => {
            // the strategy iterates instruments in index order: print in label order
            send_out_lines("cmd_c", &co.cancels, &fc, false, w, lines);
            send_out_lines("cmd_o", &co.opens, &fo, is_close_positions, w, lines);
        }
        Some(ActionOutput::GenerateAlgoOrders(_)) => lines.push("cmd algo?".into()),
    }
    match algo_out {
        None => lines.push("algo none".into()),
        Some(g) => {
            send_out_lines("algo_c", &g.cancels_and_opens.cancels, &fc, false, w, lines);
            send_out_lines("algo_o", &g.cancels_and_opens.opens, &fo, false, w, lines);
            lines.push(format!(
                "algo_ref_c {}",
                g.cancels_refused.iter().map(|r| fmt_cancel(w, &r.item)).collect::<Vec<_>>().join(" ")
            ));
            lines.push(format!(
                "algo_ref_o {}",
                g.opens_refused.iter().map(|r| fmt_open_req(w, &r.item)).collect::<Vec<_>>().join(" ")
            ));
        }
    }
    lines.push(format!("fatal {}", if p.errors.is_empty() { 0 } else { 1 }));
    observe_state(w, lines);
}

/// Runs a whole case of the engine protocol.
pub fn run_case(case: &Case, lines: &mut Vec<String>) {
    let mut world: Option<World> = None;
    let mut algo: Option<(Vec<OrderRequestCancel>, Vec<OrderRequestOpen>)> = None;
    for op in case.ops.iter() {
        lines.push("@".into());
        match op[0].as_str() {
            "init" => {
                let w = init_world(&op[1..]);
                observe_state(&w, lines);
                world = Some(w);
                algo = None;
            }
            "algo" => {
                let w = world.as_ref().expect("init first");
                algo = Some(parse_reqs(w, &op[1..]));
                lines.push("algo-set".into());
            }
            "ev" => {
                let w = world.as_mut().expect("init first");
                run_event(w, &op[1..], algo.take(), lines);
            }
            other => panic!("bad op {other}"),
        }
    }
}

/// Orders, position, price of every instrument and the trading state of ANY engine state (the
/// engine's own or a replica's), keys prefixed with `pfx`.
pub fn observe_any(w: &World, state: &State, pfx: &str, lines: &mut Vec<String>) {
    for (label, idx) in w.ins_idx.iter().enumerate() {
        let ins = state.instruments.instrument_index(&InstrumentIndex(*idx));
        let mut v: Vec<(String, &ActiveOrderState)> =
            ins.orders.0.iter().map(|(cid, o)| (canon_cid(w, &cid.0), &o.state)).collect();
        v.sort_by_key(|(cid, _)| cid_num(cid));
        lines.push(format!(
            "{pfx}ord{label} {}",
            v.iter().map(|(cid, st)| format!("{}:{}", cid, fmt_active(st))).collect::<Vec<_>>().join(" ")
        ));
        lines.push(match &ins.position.current {
            None => format!("{pfx}pos{label} none"),
            Some(p) => format!("{pfx}pos{label} {}:{}", fmt_side(p.side), fmt_dec(p.quantity_abs)),
        });
        use barter::engine::state::instrument::data::InstrumentDataState;
        lines.push(match ins.data.price() {
            None => format!("{pfx}price{label} none"),
            Some(p) => format!("{pfx}price{label} {}", fmt_dec(p)),
        });
    }
    lines.push(format!(
        "{pfx}trading {}",
        if state.trading == TradingState::Enabled { "on" } else { "off" }
    ));
}

/// Digest of an `InstrumentFilter` in LABEL space: `none` | `ex:<labels>` | `ins:<labels>` |
/// `und:<number of underlyings>` (the label pair -> asset index expansion is `parse_filter`'s own; the
/// model counts the same expansion: one underlying per exchange that has both assets, one placeholder
/// when there is none).
pub fn filter_digest(w: &World, f: &InstrumentFilter) -> String {
    match f {
        InstrumentFilter::None => "none".into(),
        InstrumentFilter::Exchanges(l) => {
            format!("ex:{}", l.iter().map(|e| w.ex_label(e.0).to_string()).collect::<Vec<_>>().join(","))
        }
        InstrumentFilter::Instruments(l) => format!(
            "ins:{}",
            l.iter()
                .map(|i| match w.ins_idx.iter().position(|x| *x == i.0) {
                    Some(label) => label.to_string(),
                    // `parse_filter` maps an unknown label l to index l + 100
                    None if i.0 >= 100 => (i.0 - 100).to_string(),
                    None => format!("?{}", i.0),
                })
                .collect::<Vec<_>>()
                .join(",")
        ),
        InstrumentFilter::Underlyings(l) => format!("und:{}", l.len()),
    }
}

/// Digest of an engine event (kind + identifying fields, LABEL space) - what an audit record is said
/// to carry (C10 `rec_ev` / `run_ev`). Same syntax as `Driver/EngineCommon.eventDigest`.
pub fn event_digest(w: &World, e: &Event) -> String {
    match e {
        EngineEvent::Shutdown(_) => "shutdown".into(),
        EngineEvent::Command(Command::SendOpenRequests(rs)) => {
            format!("cmd_open {}", rs.iter().map(|r| fmt_open_req(w, r)).collect::<Vec<_>>().join(" "))
        }
        EngineEvent::Command(Command::SendCancelRequests(rs)) => {
            format!("cmd_cancel {}", rs.iter().map(|r| fmt_cancel(w, r)).collect::<Vec<_>>().join(" "))
        }
        EngineEvent::Command(Command::CancelOrders(f)) => format!("cancel_orders {}", filter_digest(w, f)),
        EngineEvent::Command(Command::ClosePositions(f)) => format!("close_positions {}", filter_digest(w, f)),
        EngineEvent::TradingStateUpdate(t) => {
            format!("trading {}", if *t == TradingState::Enabled { "on" } else { "off" })
        }
        EngineEvent::Account(AccountStreamEvent::Item(a)) => match &a.kind {
            AccountEventKind::OrderSnapshot(Snapshot(o)) => format!(
                "snap {} {} {} {} {}",
                w.ins_label(o.key.instrument.0),
                canon_cid(w, &o.key.cid.0),
                fmt_dec(o.quantity),
                fmt_dec(o.price),
                match &o.state {
                    OrderState::Active(s) => fmt_active(s),
                    OrderState::Inactive(_) => "X".into(),
                }
            ),
            AccountEventKind::OrderCancelled(r) => format!(
                "resp {} {} {}",
                w.ins_label(r.key.instrument.0),
                canon_cid(w, &r.key.cid.0),
                if r.state.is_ok() { "ok" } else { "err" }
            ),
            AccountEventKind::Trade(t) => {
                format!("trade {} {} {}", w.ins_label(t.instrument.0), fmt_side(t.side), fmt_dec(t.quantity))
            }
            // balance snapshots / full account snapshots: the engine model's `Update.other` keeps no detail
            _ => "other".into(),
        },
        EngineEvent::Account(AccountStreamEvent::Reconnecting(_)) => "other".into(),
        EngineEvent::Market(MarketStreamEvent::Item(m)) => match &m.kind {
            DataKind::Trade(t) => format!(
                "price {} {}",
                w.ins_label(m.instrument.0),
                Decimal::try_from(t.price).map(fmt_dec).unwrap_or_else(|_| "?".into())
            ),
            _ => "other".into(),
        },
        EngineEvent::Market(MarketStreamEvent::Reconnecting(_)) => "other".into(),
    }
}

/// Kinds of the outputs an audit record carries, in order: `cmd:<cancel_orders|open_orders|
/// close_positions|algo>` for `EngineOutput::Commanded`, `algo` for `EngineOutput::AlgoOrders`; every
/// other output kind (strategy hooks, position exits) is skipped.
pub fn output_kinds<A, B>(outputs: &[EngineOutput<A, B>]) -> Vec<&'static str> {
    outputs
        .iter()
        .filter_map(|o| match o {
            EngineOutput::Commanded(ActionOutput::CancelOrders(_)) => Some("cmd:cancel_orders"),
            EngineOutput::Commanded(ActionOutput::OpenOrders(_)) => Some("cmd:open_orders"),
            EngineOutput::Commanded(ActionOutput::ClosePositions(_)) => Some("cmd:close_positions"),
            EngineOutput::Commanded(ActionOutput::GenerateAlgoOrders(_)) => Some("cmd:algo"),
            EngineOutput::AlgoOrders(_) => Some("algo"),
            _ => None,
        })
        .collect()
}
