//! A real `barter::engine::Engine` wired with scriptable strategy / risk implementations, shared by
//! the engine-level properties (C03, C09, C10, C14, C15, C19, ...).

use barter::{
    EngineEvent,
    engine::{
        Engine,
        clock::HistoricalClock,
        execution_tx::MultiExchangeTxMap,
        state::{
            EngineState,
            global::DefaultGlobalData,
            instrument::{data::DefaultInstrumentMarketData, filter::InstrumentFilter},
            trading::TradingState,
        },
    },
    execution::request::ExecutionRequest,
    risk::{RiskApproved, RiskManager, RiskRefused},
    strategy::{
        algo::AlgoStrategy,
        close_positions::{ClosePositionsStrategy, close_open_positions_with_market_orders},
        on_disconnect::OnDisconnectStrategy,
        on_trading_disabled::OnTradingDisabled,
    },
};
use barter_data::event::DataKind;
use barter_execution::order::{
    id::{ClientOrderId, StrategyId},
    request::{OrderRequestCancel, OrderRequestOpen},
};
use barter_instrument::{
    Underlying,
    asset::AssetIndex,
    exchange::{ExchangeId, ExchangeIndex},
    index::IndexedInstruments,
    instrument::{Instrument, InstrumentIndex},
};
use barter_integration::{
    Unrecoverable,
    channel::{Tx, UnboundedRx, UnboundedTx, mpsc_unbounded},
};
use chrono::{DateTime, TimeZone, Utc};
use std::{
    cell::{Cell, RefCell},
    collections::{HashMap, VecDeque},
    rc::Rc,
};

pub type State = EngineState<DefaultGlobalData, DefaultInstrumentMarketData>;
pub type Txs = MultiExchangeTxMap<TestTx>;

/// The transmitter the generic `MultiExchangeTxMap<Tx>` is instantiated with: either the real
/// `UnboundedTx` (its own `Tx` impl and its own error, untouched), or a transmitter that refuses every
/// item with an error that is not `is_unrecoverable()` (what a full bounded channel would answer; the
/// default `UnboundedTx` can never do that, the engine's `Recoverable(ExecutionChannelUnhealthy)` arm
/// exists for every other `Tx`).
#[derive(Debug, Clone)]
pub enum TestTx {
    Real(UnboundedTx<ExecutionRequest>),
    Refusing(UnboundedTx<ExecutionRequest>),
}

#[derive(Debug)]
pub enum TestTxError {
    Real(<UnboundedTx<ExecutionRequest> as Tx>::Error),
    Refused,
}

impl Unrecoverable for TestTxError {
    fn is_unrecoverable(&self) -> bool {
        match self {
            TestTxError::Real(e) => e.is_unrecoverable(),
            TestTxError::Refused => false,
        }
    }
}

impl Tx for TestTx {
    type Item = ExecutionRequest;
    type Error = TestTxError;
    fn send<Item: Into<Self::Item>>(&self, item: Item) -> Result<(), Self::Error> {
        match self {
            TestTx::Real(tx) => tx.send(item).map_err(TestTxError::Real),
            TestTx::Refusing(_) => Err(TestTxError::Refused),
        }
    }
}
pub type TestEngine = Engine<HistoricalClock, State, Txs, TestStrategy, TestRisk>;
pub type Event = EngineEvent<DataKind>;

/// Exchange ids used by generated configurations; position = the label used in op lines.
pub const EXCHANGES: [ExchangeId; 5] = [
    ExchangeId::BinanceSpot,
    ExchangeId::Coinbase,
    ExchangeId::Kraken,
    ExchangeId::Okx,
    ExchangeId::Bitfinex,
];

pub fn t0() -> DateTime<Utc> {
    Utc.timestamp_millis_opt(1_600_000_000_000).unwrap()
}

/// `t0 + ms`
pub fn time_ms(ms: i64) -> DateTime<Utc> {
    t0() + chrono::Duration::milliseconds(ms)
}

/// One spot instrument per `(exchange label, base, quote)`; internal name `"{label}_{base}_{quote}"`.
pub fn build_instruments(defs: &[(usize, &str, &str)]) -> IndexedInstruments {
    let mut builder = IndexedInstruments::builder();
    for (ex, base, quote) in defs {
        builder = builder.add_instrument(Instrument::spot(
            EXCHANGES[*ex],
            // the name does NOT start with the exchange: the alphabetical order of the internal names
            // differs from the index order (exchange first), so a table keyed by name but addressed by
            // position is exposed (seeded change C16d)
            format!("{base}_{quote}_x{ex}"),
            format!("{}{}", base.to_uppercase(), quote.to_uppercase()),
            Underlying::new(*base, *quote),
            None,
        ));
    }
    builder.build()
}

pub type Script = VecDeque<(
    Vec<OrderRequestCancel<ExchangeIndex, InstrumentIndex>>,
    Vec<OrderRequestOpen<ExchangeIndex, InstrumentIndex>>,
)>;

/// Strategy whose algo output is scripted per tick (front of `script`, empty when exhausted), which
/// logs on-disconnect / on-trading-disabled invocations, and closes positions with the repo's own
/// default `close_open_positions_with_market_orders` using a deterministic cid generator.
#[derive(Debug)]
pub struct TestStrategy {
    pub id: StrategyId,
    pub script: RefCell<Script>,
    /// strategy output planned per feed position (used when a whole feed is handed to a runner):
    /// `tick` is advanced by the feed iterator before each event
    pub plan: RefCell<HashMap<u64, (
        Vec<OrderRequestCancel<ExchangeIndex, InstrumentIndex>>,
        Vec<OrderRequestOpen<ExchangeIndex, InstrumentIndex>>,
    )>>,
    pub tick: Rc<Cell<u64>>,
    pub disconnects: Vec<ExchangeId>,
    pub trading_disabled_calls: usize,
}

impl TestStrategy {
    pub fn new() -> Self {
        Self {
            id: StrategyId::new("verif"),
            script: RefCell::new(VecDeque::new()),
            plan: RefCell::new(HashMap::new()),
            tick: Rc::new(Cell::new(0)),
            disconnects: vec![],
            trading_disabled_calls: 0,
        }
    }
}

impl Default for TestStrategy {
    fn default() -> Self {
        Self::new()
    }
}

impl AlgoStrategy for TestStrategy {
    type State = State;
    fn generate_algo_orders(
        &self,
        _: &Self::State,
    ) -> (
        impl IntoIterator<Item = OrderRequestCancel<ExchangeIndex, InstrumentIndex>>,
        impl IntoIterator<Item = OrderRequestOpen<ExchangeIndex, InstrumentIndex>>,
    ) {
        if let Some(front) = self.script.borrow_mut().pop_front() {
            return front;
        }
        self.plan.borrow_mut().remove(&self.tick.get()).unwrap_or_default()
    }
}

impl ClosePositionsStrategy for TestStrategy {
    type State = State;
    fn close_positions_requests<'a>(
        &'a self,
        state: &'a Self::State,
        filter: &'a InstrumentFilter<ExchangeIndex, AssetIndex, InstrumentIndex>,
    ) -> (
        impl IntoIterator<Item = OrderRequestCancel<ExchangeIndex, InstrumentIndex>> + 'a,
        impl IntoIterator<Item = OrderRequestOpen<ExchangeIndex, InstrumentIndex>> + 'a,
    )
    where
        ExchangeIndex: 'a,
        AssetIndex: 'a,
        InstrumentIndex: 'a,
    {
        close_open_positions_with_market_orders(&self.id, state, filter, |state| {
            ClientOrderId::new(format!("{}", 9000 + state.key.index()))
        })
    }
}

impl OnDisconnectStrategy<HistoricalClock, State, Txs, TestRisk> for TestStrategy {
    type OnDisconnect = ();
    fn on_disconnect(engine: &mut TestEngine, exchange: ExchangeId) -> Self::OnDisconnect {
        engine.strategy.disconnects.push(exchange);
    }
}

impl OnTradingDisabled<HistoricalClock, State, Txs, TestRisk> for TestStrategy {
    type OnTradingDisabled = ();
    fn on_trading_disabled(engine: &mut TestEngine) -> Self::OnTradingDisabled {
        engine.strategy.trading_disabled_calls += 1;
    }
}

/// Risk manager refusing exactly the requests whose client order id starts with `R` or is a number
/// >= 5000.
#[derive(Debug, Default)]
pub struct TestRisk;

impl RiskManager for TestRisk {
    type State = State;
    fn check(
        &self,
        _: &Self::State,
        cancels: impl IntoIterator<Item = OrderRequestCancel<ExchangeIndex, InstrumentIndex>>,
        opens: impl IntoIterator<Item = OrderRequestOpen<ExchangeIndex, InstrumentIndex>>,
    ) -> (
        impl IntoIterator<Item = RiskApproved<OrderRequestCancel<ExchangeIndex, InstrumentIndex>>>,
        impl IntoIterator<Item = RiskApproved<OrderRequestOpen<ExchangeIndex, InstrumentIndex>>>,
        impl IntoIterator<Item = RiskRefused<OrderRequestCancel<ExchangeIndex, InstrumentIndex>>>,
        impl IntoIterator<Item = RiskRefused<OrderRequestOpen<ExchangeIndex, InstrumentIndex>>>,
    ) {
        let refuse = |cid: &ClientOrderId| {
            cid.0.starts_with('R') || cid.0.parse::<u64>().map(|n| n >= 5000).unwrap_or(false)
        };
        let (rc, ac): (Vec<_>, Vec<_>) = cancels.into_iter().partition(|r| refuse(&r.key.cid));
        let (ro, ao): (Vec<_>, Vec<_>) = opens.into_iter().partition(|r| refuse(&r.key.cid));
        (
            ac.into_iter().map(RiskApproved::new),
            ao.into_iter().map(RiskApproved::new),
            rc.into_iter().map(|r| RiskRefused::new(r, "refused")),
            ro.into_iter().map(|r| RiskRefused::new(r, "refused")),
        )
    }
}

/// How each exchange's execution link is wired.
#[derive(Debug, Clone, Copy, PartialEq, Eq)]
pub enum Link {
    /// transmitter present, receiver kept alive
    Healthy,
    /// transmitter present, receiver dropped
    Closed,
    /// no transmitter for the exchange (`None` in the map)
    Missing,
    /// transmitter present, receiver alive, every send refused with a recoverable error
    Unhealthy,
}

pub struct Built {
    pub engine: TestEngine,
    /// receiver per exchange index (`None` when the link is `Closed` or `Missing`; an `Unhealthy`
    /// link keeps its receiver so that "nothing was delivered" is observed, not assumed)
    pub rxs: Vec<Option<UnboundedRx<ExecutionRequest>>>,
}

/// Build a real engine over `instruments`; `links[i]` wires the exchange with `ExchangeIndex(i)`.
pub fn build_engine(
    instruments: &IndexedInstruments,
    links: &[Link],
    trading: TradingState,
) -> Built {
    let state: State = EngineState::builder(
        instruments,
        DefaultGlobalData::default(),
        DefaultInstrumentMarketData::default,
    )
    .time_engine_start(t0())
    .trading_state(trading)
    .build();

    let mut rxs = Vec::new();
    let mut txs = Vec::new();
    for (i, exchange) in instruments.exchanges().iter().enumerate() {
        let link = links.get(i).copied().unwrap_or(Link::Healthy);
        match link {
            Link::Healthy => {
                let (tx, rx) = mpsc_unbounded();
                txs.push((exchange.value, Some(TestTx::Real(tx))));
                rxs.push(Some(rx));
            }
            Link::Unhealthy => {
                let (tx, rx) = mpsc_unbounded();
                txs.push((exchange.value, Some(TestTx::Refusing(tx))));
                rxs.push(Some(rx));
            }
            Link::Closed => {
                let (tx, rx) = mpsc_unbounded::<ExecutionRequest>();
                drop(rx);
                txs.push((exchange.value, Some(TestTx::Real(tx))));
                rxs.push(None);
            }
            Link::Missing => {
                txs.push((exchange.value, None));
                rxs.push(None);
            }
        }
    }

    let engine = Engine::new(
        HistoricalClock::new(t0()),
        state,
        MultiExchangeTxMap::from_iter(txs),
        TestStrategy::new(),
        TestRisk,
    );
    Built { engine, rxs }
}

/// Drain everything currently queued on a receiver without blocking.
pub fn drain(rx: &mut UnboundedRx<ExecutionRequest>) -> Vec<ExecutionRequest> {
    let mut out = vec![];
    while let Ok(item) = rx.rx.try_recv() {
        out.push(item);
    }
    out
}
