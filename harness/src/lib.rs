//! Shared plumbing for the per-property harness binaries (`src/bin/cXX.rs`).
//!
//! Every binary has the sub-commands
//!   `gen <seed> <n> <tier>`  print `n` generated cases (op lines, grouped by `case <id>` lines)
//!   `run`                    read cases from stdin, execute them against the real code in /repo,
//!                            print `case <id>`, then per op `@` followed by observation lines
//! The Lean drivers (`lean/BarterModel/Driver/Cxx.lean`) speak the same protocol.

use rust_decimal::Decimal;
use std::io::{BufRead, Write};

/// splitmix64: every random choice of a run derives from one seed.
#[derive(Clone, Debug)]
pub struct Rng(pub u64);

impl Rng {
    pub fn new(seed: u64) -> Self {
        Rng(seed.wrapping_mul(0x9E3779B97F4A7C15).wrapping_add(0xD1B54A32D192ED03))
    }
    pub fn next_u64(&mut self) -> u64 {
        self.0 = self.0.wrapping_add(0x9E3779B97F4A7C15);
        let mut z = self.0;
        z = (z ^ (z >> 30)).wrapping_mul(0xBF58476D1CE4E5B9);
        z = (z ^ (z >> 27)).wrapping_mul(0x94D049BB133111EB);
        z ^ (z >> 31)
    }
    /// uniform in 0..n (n > 0)
    pub fn below(&mut self, n: u64) -> u64 {
        self.next_u64() % n
    }
    pub fn range(&mut self, lo: i64, hi_incl: i64) -> i64 {
        lo + (self.below((hi_incl - lo + 1) as u64) as i64)
    }
    pub fn chance(&mut self, percent: u64) -> bool {
        self.below(100) < percent
    }
    pub fn pick<'a, T>(&mut self, xs: &'a [T]) -> &'a T {
        &xs[self.below(xs.len() as u64) as usize]
    }
    pub fn fork(&mut self) -> Rng {
        Rng::new(self.next_u64())
    }
}

fn gcd(mut a: u128, mut b: u128) -> u128 {
    while b != 0 {
        let t = a % b;
        a = b;
        b = t;
    }
    a
}

/// Canonical exact text of a `Decimal`: `n` or `n/d` in lowest terms (same as Lean `fmtRat`).
pub fn fmt_dec(d: Decimal) -> String {
    let m = d.mantissa();
    let scale = d.scale();
    if m == 0 {
        return "0".into();
    }
    let neg = m < 0;
    let n = m.unsigned_abs();
    let den = 10u128.pow(scale);
    let g = gcd(n, den);
    let (n, den) = (n / g, den / g);
    let sign = if neg { "-" } else { "" };
    if den == 1 {
        format!("{sign}{n}")
    } else {
        format!("{sign}{n}/{den}")
    }
}

/// As `fmt_dec` but marked for tolerant comparison.
pub fn fmt_dec_approx(d: Decimal) -> String {
    format!("~{}", fmt_dec(d))
}

pub fn fmt_opt_dec(d: Option<Decimal>) -> String {
    d.map(fmt_dec).unwrap_or_else(|| "none".into())
}

pub fn fmt_opt_dec_approx(d: Option<Decimal>) -> String {
    d.map(fmt_dec_approx).unwrap_or_else(|| "none".into())
}

/// Parses the decimal syntax used in op lines (`-12`, `12.50`).
pub fn parse_dec(s: &str) -> Decimal {
    s.parse::<Decimal>()
        .unwrap_or_else(|e| panic!("bad decimal {s:?}: {e}"))
}

/// A decimal `mantissa / 10^scale` written in op-line syntax.
pub fn dec_str(mantissa: i64, scale: u32) -> String {
    Decimal::new(mantissa, scale).normalize().to_string()
}

#[derive(Debug, Clone)]
pub struct Case {
    pub id: String,
    pub ops: Vec<Vec<String>>,
}

/// Reads `case <id>` / op lines from stdin. Lines starting with `#` are comments.
pub fn read_cases() -> Vec<Case> {
    let stdin = std::io::stdin();
    let mut cases: Vec<Case> = Vec::new();
    for line in stdin.lock().lines() {
        let line = line.expect("stdin");
        let toks: Vec<String> = line.split_whitespace().map(|s| s.to_string()).collect();
        if toks.is_empty() || toks[0].starts_with('#') {
            continue;
        }
        if toks[0] == "case" {
            cases.push(Case {
                id: toks[1..].join(" "),
                ops: vec![],
            });
        } else {
            if cases.is_empty() {
                cases.push(Case {
                    id: "0".into(),
                    ops: vec![],
                });
            }
            cases.last_mut().unwrap().ops.push(toks);
        }
    }
    cases
}

/// Buffered writer for traces / generated cases.
pub struct Out {
    w: std::io::BufWriter<std::io::Stdout>,
}

impl Default for Out {
    fn default() -> Self {
        Self::new()
    }
}

impl Out {
    pub fn new() -> Self {
        Out {
            w: std::io::BufWriter::new(std::io::stdout()),
        }
    }
    pub fn line(&mut self, s: impl AsRef<str>) {
        writeln!(self.w, "{}", s.as_ref()).unwrap();
    }
    pub fn case(&mut self, id: impl std::fmt::Display) {
        writeln!(self.w, "case {id}").unwrap();
    }
    pub fn at(&mut self) {
        writeln!(self.w, "@").unwrap();
    }
    pub fn flush(&mut self) {
        self.w.flush().unwrap();
    }
}

thread_local! {
    static LAST_PANIC: std::cell::RefCell<Option<String>> = const { std::cell::RefCell::new(None) };
}

/// Runs every case through `f` (fresh per case), catching panics of the code under test so that
/// one panicking case is reported as an observation (`panic`) instead of killing the run.
pub fn run_cases<F>(mut f: F)
where
    F: FnMut(&Case, &mut Vec<String>),
{
    // silence the default panic message: panics are reported through the trace (`panic`, plus a
    // comment line `# panicmsg <slug>` that the orchestrator uses to tell panics apart)
    std::panic::set_hook(Box::new(|info| {
        let msg = if let Some(s) = info.payload().downcast_ref::<&str>() {
            s.to_string()
        } else if let Some(s) = info.payload().downcast_ref::<String>() {
            s.clone()
        } else {
            "unknown".to_string()
        };
        let slug: String = msg
            .chars()
            .map(|c| if c.is_ascii_alphanumeric() { c.to_ascii_lowercase() } else { '-' })
            .collect::<String>()
            .split('-')
            .filter(|w| !w.is_empty() && !w.chars().all(|c| c.is_ascii_digit()))
            .take(6)
            .collect::<Vec<_>>()
            .join("-");
        LAST_PANIC.with(|p| *p.borrow_mut() = Some(slug));
    }));
    let cases = read_cases();
    let mut out = Out::new();
    for case in &cases {
        out.case(&case.id);
        let mut lines: Vec<String> = Vec::new();
        let res = std::panic::catch_unwind(std::panic::AssertUnwindSafe(|| f(case, &mut lines)));
        for l in &lines {
            out.line(l);
        }
        if res.is_err() {
            // the op that panicked has already had its `@` printed by the case runner
            out.line("panic");
            if let Some(slug) = LAST_PANIC.with(|p| p.borrow_mut().take()) {
                out.line(format!("# panicmsg {slug}"));
            }
        }
    }
    out.flush();
}

/// Standard argument handling: returns ("gen", seed, n, tier) or ("run", ..).
pub struct Args {
    pub cmd: String,
    pub seed: u64,
    pub n: usize,
    pub tier: String,
}

pub fn args() -> Args {
    let a: Vec<String> = std::env::args().collect();
    let cmd = a.get(1).cloned().unwrap_or_else(|| "run".into());
    let seed = a.get(2).and_then(|s| s.parse().ok()).unwrap_or(1);
    let n = a.get(3).and_then(|s| s.parse().ok()).unwrap_or(10);
    let tier = a.get(4).cloned().unwrap_or_else(|| "quick".into());
    Args { cmd, seed, n, tier }
}

pub mod engine_util;
pub mod engine_proto;
