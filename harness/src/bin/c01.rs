//! C01 — order lifecycle. Drives the real `EngineState::update_from_account` and
//! `InFlightRequestRecorder for EngineState` (routing by instrument index), observing
//! `InstrumentState.orders` of every instrument after each op.
use barter::engine::state::{
    order::in_flight_recorder::InFlightRequestRecorder, trading::TradingState,
};
use barter_execution::{
    AccountEvent, AccountEventKind, AccountSnapshot, InstrumentAccountSnapshot,
    error::{ApiError, OrderError},
    order::{
        Order, OrderKey, OrderKind, TimeInForce,
        id::{ClientOrderId, OrderId, StrategyId},
        request::{OrderRequestCancel, OrderRequestOpen, RequestCancel, RequestOpen},
        state::{
            ActiveOrderState, CancelInFlight, Cancelled, InactiveOrderState, Open, OpenInFlight,
            OrderState,
        },
    },
};
use barter_instrument::{Side, exchange::ExchangeIndex, instrument::InstrumentIndex};
use barter_integration::snapshot::Snapshot;
use rust_decimal::Decimal;
use vh::{engine_util::*, *};

/// Static order attributes the tracking code never reads (`attr` op): they are part of the real
/// API's input domain, so the harness varies them; the drivers ignore them.
#[derive(Clone)]
struct Attr {
    side: Side,
    kind: OrderKind,
    tif: TimeInForce,
    strategy: &'static str,
    cancel_id: bool,
}

impl Default for Attr {
    fn default() -> Self {
        Attr {
            side: Side::Buy,
            kind: OrderKind::Limit,
            tif: TimeInForce::GoodUntilCancelled { post_only: false },
            strategy: "verif",
            cancel_id: false,
        }
    }
}

thread_local! {
    static ATTR: std::cell::RefCell<Attr> = std::cell::RefCell::new(Attr::default());
    /// exchange index of every instrument index (`init n x` spreads the instruments over x exchanges)
    static EXCHANGE_OF: std::cell::RefCell<Vec<usize>> = const { std::cell::RefCell::new(Vec::new()) };
    /// CONFIGURATION family (`init n x 1`): the account snapshots of this case (`full` / `empty`) carry
    /// BALANCES next to the order reports, as an exchange's account snapshot does
    static SNAPSHOT_BALANCES: std::cell::Cell<bool> = const { std::cell::Cell::new(false) };
}

/// balances of an account snapshot attributed to exchange `ex`: nothing, or (`init n x 1`) one balance per
/// asset the engine tracks on that exchange, stamped `stamp` ms
fn cfg_snapshot_balances(
    engine: &TestEngine,
    ex: ExchangeIndex,
    stamp: i64,
) -> Vec<barter_execution::balance::AssetBalance<barter_instrument::asset::AssetIndex>> {
    use barter_execution::balance::{AssetBalance, Balance};
    if !SNAPSHOT_BALANCES.with(|b| b.get()) {
        return vec![];
    }
    let exchange_id = engine.state.connectivity.exchanges.get_index(ex.0).map(|(id, _)| *id);
    engine
        .state
        .assets
        .0
        .keys()
        .enumerate()
        .filter(|(_, k)| Some(k.exchange) == exchange_id)
        .map(|(idx, _)| AssetBalance {
            asset: barter_instrument::asset::AssetIndex(idx),
            balance: Balance::new(Decimal::from(1000 + stamp), Decimal::from(900 + stamp)),
            time_exchange: time_ms(stamp),
        })
        .collect()
}

fn exchange_of(instrument: usize) -> ExchangeIndex {
    ExchangeIndex(EXCHANGE_OF.with(|e| e.borrow().get(instrument).copied().unwrap_or(0)))
}

fn attr() -> Attr {
    ATTR.with(|a| a.borrow().clone())
}

/// `attr <B|S> <M|L> <G0|G1|D|F|I> <a|b> <n|s>`
fn parse_attr(t: &[String]) -> Attr {
    assert!(t.len() == 5, "bad attr");
    Attr {
        side: match t[0].as_str() {
            "B" => Side::Buy,
            "S" => Side::Sell,
            o => panic!("bad side {o}"),
        },
        kind: match t[1].as_str() {
            "M" => OrderKind::Market,
            "L" => OrderKind::Limit,
            o => panic!("bad kind {o}"),
        },
        tif: match t[2].as_str() {
            "G0" => TimeInForce::GoodUntilCancelled { post_only: false },
            "G1" => TimeInForce::GoodUntilCancelled { post_only: true },
            "D" => TimeInForce::GoodUntilEndOfDay,
            "F" => TimeInForce::FillOrKill,
            "I" => TimeInForce::ImmediateOrCancel,
            o => panic!("bad tif {o}"),
        },
        strategy: match t[3].as_str() {
            "a" => "verif",
            "b" => "other",
            o => panic!("bad strategy {o}"),
        },
        cancel_id: match t[4].as_str() {
            "n" => false,
            "s" => true,
            o => panic!("bad cancel id {o}"),
        },
    }
}

/// error kinds of a failed cancel / a failed open (`resp i c err <k>`, `X 2 <k> 0`); 0 is the kind
/// every case used before the kinds were varied
fn order_error(k: &str) -> OrderError {
    use barter_execution::error::ConnectivityError;
    use barter_instrument::{asset::AssetIndex, exchange::ExchangeId};
    match k {
        "0" => OrderError::Rejected(ApiError::OrderRejected("rejected".into())),
        "1" => OrderError::Rejected(ApiError::OrderAlreadyCancelled),
        "2" => OrderError::Rejected(ApiError::OrderAlreadyFullyFilled),
        "3" => OrderError::Rejected(ApiError::RateLimit),
        "4" => OrderError::Connectivity(ConnectivityError::Timeout),
        "5" => OrderError::Connectivity(ConnectivityError::ExchangeOffline(ExchangeId::Mock)),
        "6" => OrderError::Connectivity(ConnectivityError::Socket("closed".into())),
        "7" => OrderError::Rejected(ApiError::BalanceInsufficient(AssetIndex(0), "low".into())),
        "8" => OrderError::Rejected(ApiError::InstrumentInvalid(InstrumentIndex(0), "bad".into())),
        "9" => OrderError::Rejected(ApiError::AssetInvalid(AssetIndex(0), "bad".into())),
        other => panic!("bad error kind {other}"),
    }
}

fn key(i: usize, cid: &str) -> OrderKey<ExchangeIndex, InstrumentIndex> {
    OrderKey {
        exchange: exchange_of(i),
        instrument: InstrumentIndex(i),
        strategy: StrategyId::new(attr().strategy),
        cid: ClientOrderId::new(cid),
    }
}

fn open_of(a: &str, b: &str, d: &str) -> Open {
    Open {
        id: OrderId::new(a),
        time_exchange: time_ms(b.parse().unwrap()),
        filled_quantity: parse_dec(d),
    }
}

fn parse_state(t: &[String]) -> OrderState {
    match t[0].as_str() {
        "F" => OrderState::active(OpenInFlight),
        "O" => OrderState::active(open_of(&t[1], &t[2], &t[3])),
        "C0" => OrderState::active(CancelInFlight { order: None }),
        "C1" => OrderState::active(CancelInFlight {
            order: Some(open_of(&t[1], &t[2], &t[3])),
        }),
        "X" => match t[1].as_str() {
            "0" => OrderState::inactive(Cancelled {
                id: OrderId::new("x"),
                time_exchange: time_ms(0),
            }),
            "1" => OrderState::fully_filled(),
            "2" => OrderState::inactive(InactiveOrderState::OpenFailed(order_error(&t[2]))),
            "3" => OrderState::expired(),
            other => panic!("bad inactive kind {other}"),
        },
        other => panic!("bad state {other}"),
    }
}

/// `[i c q p K a b d]` -> (instrument label, order snapshot)
fn parse_snap(t: &[String], map: &[usize]) -> (usize, Order) {
    let i: usize = t[0].parse().unwrap();
    let order = Order {
        key: key(map[i], &t[1]),
        side: attr().side,
        price: parse_dec(&t[3]),
        quantity: parse_dec(&t[2]),
        kind: attr().kind,
        time_in_force: attr().tif,
        state: parse_state(&t[4..8]),
    };
    (i, order)
}

fn fmt_open(o: &Open) -> String {
    format!(
        "({},{},{})",
        o.id.0,
        (o.time_exchange - t0()).num_milliseconds(),
        fmt_dec(o.filled_quantity)
    )
}

fn fmt_active(s: &ActiveOrderState) -> String {
    match s {
        ActiveOrderState::OpenInFlight(_) => "F".into(),
        ActiveOrderState::Open(o) => format!("O{}", fmt_open(o)),
        ActiveOrderState::CancelInFlight(c) => match &c.order {
            None => "C(-)".into(),
            Some(o) => format!("C{}", fmt_open(o)),
        },
    }
}

fn observe(engine: &TestEngine, map: &[usize], lines: &mut Vec<String>) {
    for (label, idx) in map.iter().enumerate() {
        let orders = &engine
            .state
            .instruments
            .instrument_index(&InstrumentIndex(*idx))
            .orders
            .0;
        let mut v: Vec<_> = orders.iter().collect();
        v.sort_by_key(|(cid, _)| cid.0.parse::<u64>().unwrap());
        lines.push(
            format!(
                "ins{label} {}",
                v.iter()
                    .map(|(cid, o)| format!(
                        "{}:{}:{}:{}",
                        cid.0,
                        fmt_dec(o.quantity),
                        fmt_dec(o.price),
                        fmt_active(&o.state)
                    ))
                    .collect::<Vec<_>>()
                    .join(" ")
            )
            .trim_end()
            .to_string()
                + if v.is_empty() { " " } else { "" },
        );
        lines.push(
            format!(
                "st{label} {}",
                v.iter()
                    .map(|(cid, o)| format!("{}:{}", cid.0, fmt_active(&o.state)))
                    .collect::<Vec<_>>()
                    .join(" ")
            )
            .trim_end()
            .to_string()
                + if v.is_empty() { " " } else { "" },
        );
    }
}

fn run() {
    run_cases(|case, lines| {
        let mut built: Option<Built> = None;
        // label -> InstrumentIndex position
        let mut map: Vec<usize> = vec![];
        ATTR.with(|a| *a.borrow_mut() = Attr::default());
        EXCHANGE_OF.with(|e| e.borrow_mut().clear());
        SNAPSHOT_BALANCES.with(|b| b.set(false));
        for (op_index, op) in case.ops.iter().enumerate() {
            lines.push("@".into());
            if op[0] == "attr" {
                let a = parse_attr(&op[1..]);
                ATTR.with(|c| *c.borrow_mut() = a);
                match built.as_ref() {
                    Some(b) => observe(&b.engine, &map, lines),
                    None => {}
                }
                continue;
            }
            if op[0] == "init" {
                let n: usize = op[1].parse().unwrap();
                // `init n x`: instrument label i lives on exchange label i % x (default: one exchange)
                let x: usize = op.get(2).map(|x| x.parse().unwrap()).unwrap_or(1);
                // `init n x b`: b = 1: the account snapshots of the case carry balances too
                assert!(
                    (1..=EXCHANGES.len()).contains(&x)
                        && op.len() <= 4
                        && op.get(3).is_none_or(|b| b == "0" || b == "1"),
                    "bad init"
                );
                SNAPSHOT_BALANCES.with(|b| b.set(op.get(3).is_some_and(|b| b == "1")));
                let names: Vec<String> = (0..n).map(|i| format!("a{i}")).collect();
                let defs: Vec<(usize, &str, &str)> =
                    names.iter().enumerate().map(|(i, b)| (i % x, b.as_str(), "usdt")).collect();
                let instruments = build_instruments(&defs);
                let b = build_engine(&instruments, &[], TradingState::Disabled);
                map = (0..n)
                    .map(|i| {
                        b.engine
                            .state
                            .instruments
                            .0
                            .values()
                            .position(|s| {
                                s.instrument.name_internal.name().as_str() == format!("a{i}_usdt_x{}", i % x)
                            })
                            .unwrap()
                    })
                    .collect();
                EXCHANGE_OF.with(|e| {
                    *e.borrow_mut() =
                        b.engine.state.instruments.0.values().map(|s| s.instrument.exchange.index()).collect()
                });
                built = Some(b);
                observe(&built.as_ref().unwrap().engine, &map, lines);
                continue;
            }
            let engine = &mut built.as_mut().expect("init first").engine;
            // out-of-range instrument labels: the code panics, both sides say so
            let labels: Vec<usize> = match op[0].as_str() {
                "full" => op[1..].chunks(8).map(|c| c[0].parse().unwrap()).collect(),
                "empty" => op[1..].iter().map(|l| l.parse().unwrap()).collect(),
                _ => vec![op[1].parse().unwrap()],
            };
            if labels.iter().any(|l| *l >= map.len()) {
                lines.push("panic".into());
                continue;
            }
            match op[0].as_str() {
                "open" => {
                    let i: usize = op[1].parse().unwrap();
                    engine.state.record_in_flight_open(&OrderRequestOpen {
                        key: key(map[i], &op[2]),
                        state: RequestOpen {
                            side: attr().side,
                            price: parse_dec(&op[4]),
                            quantity: parse_dec(&op[3]),
                            kind: attr().kind,
                            time_in_force: attr().tif,
                        },
                    });
                }
                "cancel" => {
                    let i: usize = op[1].parse().unwrap();
                    engine.state.record_in_flight_cancel(&OrderRequestCancel {
                        key: key(map[i], &op[2]),
                        state: RequestCancel {
                            id: attr().cancel_id.then(|| OrderId::new("9")),
                        },
                    });
                }
                "snap" => {
                    let (i, order) = parse_snap(&op[1..9], &map);
                    engine.state.update_from_account(&AccountEvent {
                        exchange: exchange_of(map[i]),
                        kind: AccountEventKind::OrderSnapshot(Snapshot(order)),
                    });
                }
                "resp" => {
                    let i: usize = op[1].parse().unwrap();
                    let state = if op[3] == "ok" {
                        Ok(Cancelled {
                            id: OrderId::new("x"),
                            time_exchange: time_ms(0),
                        })
                    } else {
                        assert!(op[3] == "err", "bad resp");
                        Err(order_error(op.get(4).map(|s| s.as_str()).unwrap_or("0")))
                    };
                    engine.state.update_from_account(&AccountEvent {
                        exchange: exchange_of(map[i]),
                        kind: AccountEventKind::OrderCancelled(
                            barter_execution::order::request::OrderResponseCancel {
                                key: key(map[i], &op[2]),
                                state,
                            },
                        ),
                    });
                }
                "full" => {
                    // group consecutive entries of the same instrument, as an exchange snapshot does
                    let mut groups: Vec<InstrumentAccountSnapshot> = vec![];
                    for chunk in op[1..].chunks(8) {
                        let (i, order) = parse_snap(chunk, &map);
                        let idx = InstrumentIndex(map[i]);
                        match groups.last_mut() {
                            Some(g) if g.instrument == idx => g.orders.push(order),
                            _ => groups.push(InstrumentAccountSnapshot {
                                instrument: idx,
                                orders: vec![order],
                            }),
                        }
                    }
                    // the event is attributed to the exchange of the first instrument it names
                    let ex = labels.first().map(|l| exchange_of(map[*l])).unwrap_or(ExchangeIndex(0));
                    let balances = cfg_snapshot_balances(engine, ex, op_index as i64);
                    engine.state.update_from_account(&AccountEvent {
                        exchange: ex,
                        kind: AccountEventKind::Snapshot(AccountSnapshot {
                            exchange: ex,
                            balances,
                            instruments: groups,
                        }),
                    });
                }
                "empty" => {
                    // an account snapshot naming instruments with NO orders (an exchange with nothing
                    // open there): says nothing about any order
                    // the event is attributed to the exchange of the first instrument it names
                    let ex = labels.first().map(|l| exchange_of(map[*l])).unwrap_or(ExchangeIndex(0));
                    let balances = cfg_snapshot_balances(engine, ex, op_index as i64);
                    engine.state.update_from_account(&AccountEvent {
                        exchange: ex,
                        kind: AccountEventKind::Snapshot(AccountSnapshot {
                            exchange: ex,
                            balances,
                            instruments: op[1..]
                                .iter()
                                .map(|l| InstrumentAccountSnapshot {
                                    instrument: InstrumentIndex(map[l.parse::<usize>().unwrap()]),
                                    orders: vec![],
                                })
                                .collect(),
                        }),
                    });
                }
                other => panic!("bad op {other}"),
            }
            observe(engine, &map, lines);
        }
    });
}

// ---------------------------------------------------------------------------------- generation

fn gen_state(rng: &mut Rng, q: i64, handbuilt: bool) -> String {
    let t = rng.range(0, 6);
    let id = rng.range(1, 2);
    // 6% over-filled reports (filled = q + 1): "nothing left to fill" is `remaining == 0`, so such an
    // order stays tracked (audit/oracle/C01.md C01-M3: `is_zero()` vs `<= 0` must be distinguishable)
    let filled = if rng.chance(6) { q + 1 } else { *rng.pick(&[0, q / 2, q]) };
    let r = rng.below(100);
    if handbuilt && r < 10 {
        if rng.chance(50) {
            "C0 0 0 0".into()
        } else {
            format!("C1 {id} {t} {filled}")
        }
    } else if r < 60 {
        format!("O {id} {t} {filled}")
    } else if r < 70 {
        "F 0 0 0".into()
    } else {
        format!("X {} 0 0", rng.below(4))
    }
}

fn gen_op(rng: &mut Rng, n: usize, cids: u64, handbuilt: bool) -> String {
    let i = rng.below(n as u64);
    let c = rng.below(cids) + 1;
    let q = *rng.pick(&[10i64, 4]);
    let p = *rng.pick(&[100i64, 101]);
    match rng.below(100) {
        0..=17 => format!("open {i} {c} {q} {p}"),
        18..=32 => format!("cancel {i} {c}"),
        33..=74 => format!("snap {i} {c} {q} {p} {}", gen_state(rng, q, handbuilt)),
        75..=89 => format!("resp {i} {c} {}", if rng.chance(50) { "ok" } else { "err" }),
        _ => {
            let k = rng.range(0, 4);
            let mut s = String::from("full");
            for _ in 0..k {
                let i = rng.below(n as u64);
                let c = rng.below(cids) + 1;
                s += &format!(" {i} {c} {q} {p} {}", gen_state(rng, q, handbuilt));
            }
            s
        }
    }
}

fn generate(seed: u64, n_cases: usize, tier: &str) {
    let mut out = Out::new();
    let mut rng = Rng::new(seed);
    let mut id = 0usize;
    if tier == "thorough" {
        // exhaustive: every sequence of length <= 3 over the single-id alphabet (one instrument)
        let mut alphabet: Vec<String> = vec![
            "open 0 1 10 100".into(),
            "cancel 0 1".into(),
            "resp 0 1 ok".into(),
            "resp 0 1 err".into(),
            "snap 0 1 10 100 F 0 0 0".into(),
            "snap 0 1 10 100 X 0 0 0".into(),
            "snap 0 1 10 100 X 1 0 0".into(),
            "snap 0 1 10 100 X 2 0 0".into(),
            "snap 0 1 10 100 X 3 0 0".into(),
        ];
        for t in [1, 2, 3] {
            for f in [0, 5, 10] {
                alphabet.push(format!("snap 0 1 10 100 O 7 {t} {f}"));
            }
        }
        let a = alphabet.len();
        for len in 0..=3usize {
            for mut code in 0..a.pow(len as u32) {
                id += 1;
                out.case(format!("x{id}"));
                out.line("init 1");
                for _ in 0..len {
                    out.line(&alphabet[code % a]);
                    code /= a;
                }
            }
        }
    }
    for k in 0..n_cases {
        id += 1;
        out.case(format!("r{id}"));
        let n = rng.range(1, 2) as usize;
        out.line(format!("init {n}"));
        let cids = rng.range(1, 3) as u64;
        // every 10th case is a "hand-built snapshot" stream (cancel-in-flight markers): the model
        // must still agree with the code; the lifecycle spec is silent about those
        let handbuilt = k % 10 == 9;
        let len = rng.range(1, if tier == "thorough" { 40 } else { 25 });
        for _ in 0..len {
            out.line(gen_op(&mut rng, n, cids, handbuilt));
        }
        if rng.chance(3) {
            out.line(format!("snap {} 1 10 100 O 7 1 0", n + 1)); // unknown instrument
        }
    }
    // ---- input-domain family (separately seeded, so the cases above stay what they were) ----------
    // classes of the real API's input domain the random cases above never produce: every static order
    // attribute (side, kind, time in force, strategy, cancel-by-order-id), every error kind of a
    // failed cancel / failed open, decimal magnitudes 1e-8 .. 1e12 with `filled` equal to the quantity
    // in another scale, zero and negative quantities / prices, negative / far-apart exchange
    // timestamps, account snapshots that name an instrument with no orders, entries of one account
    // snapshot with differing quantity / price, many client order ids on up to three instruments,
    // instruments spread over two or three exchanges (`init n x`)
    let mut rng = Rng::new(seed ^ 0xD0_C01);
    let extra = n_cases / 4 + 2;
    for k in 0..extra {
        id += 1;
        out.case(format!("d{id}"));
        let n = rng.range(1, 3) as usize;
        // two cases in five: the instruments are spread over 2-3 exchanges (label i on exchange i % x)
        if k % 5 >= 3 {
            out.line(format!("init {n} {}", 2 + (k / 5) % 2));
        } else {
            out.line(format!("init {n}"));
        }
        let cids = if k % 8 == 7 { 30 } else { rng.range(1, 4) as u64 };
        let wide_num = k % 2 == 0; // magnitudes / signs
        let wide_time = k % 3 == 0;
        let len = rng.range(1, if tier == "thorough" { 60 } else { 30 }) * if cids == 30 { 3 } else { 1 };
        out.line(gen_attr(&mut rng));
        for _ in 0..len {
            if rng.chance(6) {
                out.line(gen_attr(&mut rng));
            }
            out.line(gen_dom_op(&mut rng, n, cids, wide_num, wide_time));
        }
    }
    // ---- configuration family (separately seeded, ids cfg<n>; the cases above stay what they were) ----
    // set-up shapes the families above never assemble: the exchange's account snapshots (`full` / `empty`)
    // carry BALANCES next to the order reports (`init n x 1`; every snapshot above has `balances: []`), on
    // 1-4 instruments over 1-3 exchanges, with account snapshots a third of the stream (an exchange that
    // reports by periodic full snapshots rather than by single order events)
    let mut rng = Rng::new(seed ^ 0xCF6_C01);
    for k in 0..n_cases / 8 + 2 {
        id += 1;
        out.case(format!("cfg{id}"));
        let n = rng.range(1, 4) as usize;
        let x = rng.range(1, 3);
        out.line(format!("init {n} {x} {}", if k % 4 == 3 { 0 } else { 1 }));
        let cids = rng.range(1, 3) as u64;
        let len = rng.range(2, if tier == "thorough" { 40 } else { 25 });
        for _ in 0..len {
            let snapshot = rng.chance(35);
            let line = loop {
                let o = gen_dom_op(&mut rng, n, cids, false, false);
                if !snapshot || o.starts_with("full ") || o.starts_with("empty") {
                    break o;
                }
            };
            out.line(line);
        }
    }
    out.flush();
}

fn gen_attr(rng: &mut Rng) -> String {
    format!(
        "attr {} {} {} {} {}",
        rng.pick(&["B", "S"]),
        rng.pick(&["M", "L"]),
        rng.pick(&["G0", "G1", "D", "F", "I"]),
        rng.pick(&["a", "b"]),
        rng.pick(&["n", "s"])
    )
}

/// (quantity, half, quantity + 1, the quantity written in another scale)
const QUANTITIES: &[(&str, &str, &str, &str)] = &[
    ("10", "5", "11", "10.0"),
    ("4", "2", "5", "4.00"),
    ("0.5", "0.25", "1.5", "0.50"),
    ("1.50", "0.75", "2.5", "1.5"),
    ("0.00000001", "0.000000005", "1.00000001", "0.000000010"),
    ("1000000000000", "500000000000", "1000000000001", "1000000000000.0"),
    ("0.000001", "0.0000005", "1.000001", "0.0000010"),
    ("0", "0", "1", "0.0"),
    ("-4", "-2", "-3", "-4.0"),
];
const PRICES: &[&str] = &["100", "101", "0.00000001", "1000000000000", "0.5", "0", "-1"];
const TIMES: &[i64] = &[-86_400_000, -3, -1, 0, 1, 2, 3, 1_000, 86_400_000, 3_000_000_000_000];

fn gen_dom_qp(rng: &mut Rng, wide_num: bool) -> (usize, String) {
    let qi = if wide_num { rng.below(QUANTITIES.len() as u64) as usize } else { rng.below(2) as usize };
    let p = if wide_num { *rng.pick(PRICES) } else { *rng.pick(&["100", "101"]) };
    (qi, p.to_string())
}

fn gen_dom_state(rng: &mut Rng, qi: usize, wide_time: bool) -> String {
    let (q, half, plus, alt) = QUANTITIES[qi];
    let t = if wide_time { *rng.pick(TIMES) } else { rng.range(0, 6) };
    let id = rng.range(1, 2);
    let filled = match rng.below(100) {
        0..=24 => "0",
        25..=49 => half,
        50..=69 => q,
        70..=84 => alt,
        85..=92 => plus,
        _ => "-1",
    };
    let r = rng.below(100);
    if r < 60 {
        format!("O {id} {t} {filled}")
    } else if r < 70 {
        "F 0 0 0".into()
    } else {
        match rng.below(4) {
            2 => format!("X 2 {} 0", rng.below(10)),
            k => format!("X {k} 0 0"),
        }
    }
}

fn gen_dom_op(rng: &mut Rng, n: usize, cids: u64, wide_num: bool, wide_time: bool) -> String {
    let i = rng.below(n as u64);
    let c = rng.below(cids) + 1;
    let (qi, p) = gen_dom_qp(rng, wide_num);
    let q = QUANTITIES[qi].0;
    match rng.below(100) {
        0..=17 => format!("open {i} {c} {q} {p}"),
        18..=32 => format!("cancel {i} {c}"),
        33..=69 => format!("snap {i} {c} {q} {p} {}", gen_dom_state(rng, qi, wide_time)),
        70..=77 => format!("resp {i} {c} ok"),
        78..=86 => format!("resp {i} {c} err {}", rng.below(10)),
        87..=90 => {
            let k = rng.range(1, 3);
            let mut s = String::from("empty");
            for _ in 0..k {
                s += &format!(" {}", rng.below(n as u64));
            }
            s
        }
        _ => {
            let k = rng.range(0, 8);
            let mut s = String::from("full");
            for _ in 0..k {
                let i = rng.below(n as u64);
                let c = rng.below(cids) + 1;
                let (qi, p) = gen_dom_qp(rng, wide_num);
                s += &format!(" {i} {c} {} {p} {}", QUANTITIES[qi].0, gen_dom_state(rng, qi, wide_time));
            }
            s
        }
    }
}

fn main() {
    let a = args();
    match a.cmd.as_str() {
        "gen" => generate(a.seed, a.n, &a.tier),
        "run" => run(),
        _ => {
            eprintln!("usage: c01 gen <seed> <n> <tier> | run < cases");
            std::process::exit(2)
        }
    }
}
