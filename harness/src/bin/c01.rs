//! C01 — order lifecycle. Drives the real `EngineState::update_from_account` and
//! `InFlightRequestRecorder for EngineState` (routing by instrument index), observing
//! `InstrumentState.orders` of every instrument after each op.
use barter::engine::state::{
    order::in_flight_recorder::InFlightRequestRecorder, trading::TradingState,
};
use barter_execution::{
    AccountEvent, AccountEventKind, AccountSnapshot, InstrumentAccountSnapshot,
    error::{ApiError, OrderError},
    order::{
        Order, OrderKey, OrderKind, TimeInForce,
        id::{ClientOrderId, OrderId, StrategyId},
        request::{OrderRequestCancel, OrderRequestOpen, RequestCancel, RequestOpen},
        state::{
            ActiveOrderState, CancelInFlight, Cancelled, InactiveOrderState, Open, OpenInFlight,
            OrderState,
        },
    },
};
use barter_instrument::{Side, exchange::ExchangeIndex, instrument::InstrumentIndex};
use barter_integration::snapshot::Snapshot;
use rust_decimal::Decimal;
use vh::{engine_util::*, *};

fn key(i: usize, cid: &str) -> OrderKey<ExchangeIndex, InstrumentIndex> {
    OrderKey {
        exchange: ExchangeIndex(0),
        instrument: InstrumentIndex(i),
        strategy: StrategyId::new("verif"),
        cid: ClientOrderId::new(cid),
    }
}

fn open_of(a: &str, b: &str, d: &str) -> Open {
    Open {
        id: OrderId::new(a),
        time_exchange: time_ms(b.parse().unwrap()),
        filled_quantity: parse_dec(d),
    }
}

fn parse_state(t: &[String]) -> OrderState {
    match t[0].as_str() {
        "F" => OrderState::active(OpenInFlight),
        "O" => OrderState::active(open_of(&t[1], &t[2], &t[3])),
        "C0" => OrderState::active(CancelInFlight { order: None }),
        "C1" => OrderState::active(CancelInFlight {
            order: Some(open_of(&t[1], &t[2], &t[3])),
        }),
        "X" => match t[1].as_str() {
            "0" => OrderState::inactive(Cancelled {
                id: OrderId::new("x"),
                time_exchange: time_ms(0),
            }),
            "1" => OrderState::fully_filled(),
            "2" => OrderState::inactive(InactiveOrderState::OpenFailed(OrderError::Rejected(
                ApiError::OrderRejected("rejected".into()),
            ))),
            "3" => OrderState::expired(),
            other => panic!("bad inactive kind {other}"),
        },
        other => panic!("bad state {other}"),
    }
}

/// `[i c q p K a b d]` -> (instrument label, order snapshot)
fn parse_snap(t: &[String], map: &[usize]) -> (usize, Order) {
    let i: usize = t[0].parse().unwrap();
    let order = Order {
        key: key(map[i], &t[1]),
        side: Side::Buy,
        price: parse_dec(&t[3]),
        quantity: parse_dec(&t[2]),
        kind: OrderKind::Limit,
        time_in_force: TimeInForce::GoodUntilCancelled { post_only: false },
        state: parse_state(&t[4..8]),
    };
    (i, order)
}

fn fmt_open(o: &Open) -> String {
    format!(
        "({},{},{})",
        o.id.0,
        (o.time_exchange - t0()).num_milliseconds(),
        fmt_dec(o.filled_quantity)
    )
}

fn fmt_active(s: &ActiveOrderState) -> String {
    match s {
        ActiveOrderState::OpenInFlight(_) => "F".into(),
        ActiveOrderState::Open(o) => format!("O{}", fmt_open(o)),
        ActiveOrderState::CancelInFlight(c) => match &c.order {
            None => "C(-)".into(),
            Some(o) => format!("C{}", fmt_open(o)),
        },
    }
}

fn observe(engine: &TestEngine, map: &[usize], lines: &mut Vec<String>) {
    for (label, idx) in map.iter().enumerate() {
        let orders = &engine
            .state
            .instruments
            .instrument_index(&InstrumentIndex(*idx))
            .orders
            .0;
        let mut v: Vec<_> = orders.iter().collect();
        v.sort_by_key(|(cid, _)| cid.0.parse::<u64>().unwrap());
        lines.push(
            format!(
                "ins{label} {}",
                v.iter()
                    .map(|(cid, o)| format!(
                        "{}:{}:{}:{}",
                        cid.0,
                        fmt_dec(o.quantity),
                        fmt_dec(o.price),
                        fmt_active(&o.state)
                    ))
                    .collect::<Vec<_>>()
                    .join(" ")
            )
            .trim_end()
            .to_string()
                + if v.is_empty() { " " } else { "" },
        );
        lines.push(
            format!(
                "st{label} {}",
                v.iter()
                    .map(|(cid, o)| format!("{}:{}", cid.0, fmt_active(&o.state)))
                    .collect::<Vec<_>>()
                    .join(" ")
            )
            .trim_end()
            .to_string()
                + if v.is_empty() { " " } else { "" },
        );
    }
}

fn run() {
    run_cases(|case, lines| {
        let mut built: Option<Built> = None;
        // label -> InstrumentIndex position
        let mut map: Vec<usize> = vec![];
        for op in case.ops.iter() {
            lines.push("@".into());
            if op[0] == "init" {
                let n: usize = op[1].parse().unwrap();
                let names: Vec<String> = (0..n).map(|i| format!("a{i}")).collect();
                let defs: Vec<(usize, &str, &str)> =
                    names.iter().map(|b| (0usize, b.as_str(), "usdt")).collect();
                let instruments = build_instruments(&defs);
                let b = build_engine(&instruments, &[], TradingState::Disabled);
                map = (0..n)
                    .map(|i| {
                        b.engine
                            .state
                            .instruments
                            .0
                            .values()
                            .position(|s| s.instrument.name_internal.name().as_str() == format!("a{i}_usdt_x0"))
                            .unwrap()
                    })
                    .collect();
                built = Some(b);
                observe(&built.as_ref().unwrap().engine, &map, lines);
                continue;
            }
            let engine = &mut built.as_mut().expect("init first").engine;
            // out-of-range instrument labels: the code panics, both sides say so
            let labels: Vec<usize> = match op[0].as_str() {
                "full" => op[1..].chunks(8).map(|c| c[0].parse().unwrap()).collect(),
                _ => vec![op[1].parse().unwrap()],
            };
            if labels.iter().any(|l| *l >= map.len()) {
                lines.push("panic".into());
                continue;
            }
            match op[0].as_str() {
                "open" => {
                    let i: usize = op[1].parse().unwrap();
                    engine.state.record_in_flight_open(&OrderRequestOpen {
                        key: key(map[i], &op[2]),
                        state: RequestOpen {
                            side: Side::Buy,
                            price: parse_dec(&op[4]),
                            quantity: parse_dec(&op[3]),
                            kind: OrderKind::Limit,
                            time_in_force: TimeInForce::GoodUntilCancelled { post_only: false },
                        },
                    });
                }
                "cancel" => {
                    let i: usize = op[1].parse().unwrap();
                    engine.state.record_in_flight_cancel(&OrderRequestCancel {
                        key: key(map[i], &op[2]),
                        state: RequestCancel { id: None },
                    });
                }
                "snap" => {
                    let (_, order) = parse_snap(&op[1..9], &map);
                    engine.state.update_from_account(&AccountEvent {
                        exchange: ExchangeIndex(0),
                        kind: AccountEventKind::OrderSnapshot(Snapshot(order)),
                    });
                }
                "resp" => {
                    let i: usize = op[1].parse().unwrap();
                    let state = if op[3] == "ok" {
                        Ok(Cancelled {
                            id: OrderId::new("x"),
                            time_exchange: time_ms(0),
                        })
                    } else {
                        Err(OrderError::Rejected(ApiError::OrderRejected("no".into())))
                    };
                    engine.state.update_from_account(&AccountEvent {
                        exchange: ExchangeIndex(0),
                        kind: AccountEventKind::OrderCancelled(
                            barter_execution::order::request::OrderResponseCancel {
                                key: key(map[i], &op[2]),
                                state,
                            },
                        ),
                    });
                }
                "full" => {
                    // group consecutive entries of the same instrument, as an exchange snapshot does
                    let mut groups: Vec<InstrumentAccountSnapshot> = vec![];
                    for chunk in op[1..].chunks(8) {
                        let (i, order) = parse_snap(chunk, &map);
                        let idx = InstrumentIndex(map[i]);
                        match groups.last_mut() {
                            Some(g) if g.instrument == idx => g.orders.push(order),
                            _ => groups.push(InstrumentAccountSnapshot {
                                instrument: idx,
                                orders: vec![order],
                            }),
                        }
                    }
                    engine.state.update_from_account(&AccountEvent {
                        exchange: ExchangeIndex(0),
                        kind: AccountEventKind::Snapshot(AccountSnapshot {
                            exchange: ExchangeIndex(0),
                            balances: vec![],
                            instruments: groups,
                        }),
                    });
                }
                other => panic!("bad op {other}"),
            }
            observe(engine, &map, lines);
        }
    });
}

// ---------------------------------------------------------------------------------- generation

fn gen_state(rng: &mut Rng, q: i64, handbuilt: bool) -> String {
    let t = rng.range(0, 6);
    let id = rng.range(1, 2);
    // 6% over-filled reports (filled = q + 1): "nothing left to fill" is `remaining == 0`, so such an
    // order stays tracked (audit/oracle/C01.md C01-M3: `is_zero()` vs `<= 0` must be distinguishable)
    let filled = if rng.chance(6) { q + 1 } else { *rng.pick(&[0, q / 2, q]) };
    let r = rng.below(100);
    if handbuilt && r < 10 {
        if rng.chance(50) {
            "C0 0 0 0".into()
        } else {
            format!("C1 {id} {t} {filled}")
        }
    } else if r < 60 {
        format!("O {id} {t} {filled}")
    } else if r < 70 {
        "F 0 0 0".into()
    } else {
        format!("X {} 0 0", rng.below(4))
    }
}

fn gen_op(rng: &mut Rng, n: usize, cids: u64, handbuilt: bool) -> String {
    let i = rng.below(n as u64);
    let c = rng.below(cids) + 1;
    let q = *rng.pick(&[10i64, 4]);
    let p = *rng.pick(&[100i64, 101]);
    match rng.below(100) {
        0..=17 => format!("open {i} {c} {q} {p}"),
        18..=32 => format!("cancel {i} {c}"),
        33..=74 => format!("snap {i} {c} {q} {p} {}", gen_state(rng, q, handbuilt)),
        75..=89 => format!("resp {i} {c} {}", if rng.chance(50) { "ok" } else { "err" }),
        _ => {
            let k = rng.range(0, 4);
            let mut s = String::from("full");
            for _ in 0..k {
                let i = rng.below(n as u64);
                let c = rng.below(cids) + 1;
                s += &format!(" {i} {c} {q} {p} {}", gen_state(rng, q, handbuilt));
            }
            s
        }
    }
}

fn generate(seed: u64, n_cases: usize, tier: &str) {
    let mut out = Out::new();
    let mut rng = Rng::new(seed);
    let mut id = 0usize;
    if tier == "thorough" {
        // exhaustive: every sequence of length <= 3 over the single-id alphabet (one instrument)
        let mut alphabet: Vec<String> = vec![
            "open 0 1 10 100".into(),
            "cancel 0 1".into(),
            "resp 0 1 ok".into(),
            "resp 0 1 err".into(),
            "snap 0 1 10 100 F 0 0 0".into(),
            "snap 0 1 10 100 X 0 0 0".into(),
            "snap 0 1 10 100 X 1 0 0".into(),
            "snap 0 1 10 100 X 2 0 0".into(),
            "snap 0 1 10 100 X 3 0 0".into(),
        ];
        for t in [1, 2, 3] {
            for f in [0, 5, 10] {
                alphabet.push(format!("snap 0 1 10 100 O 7 {t} {f}"));
            }
        }
        let a = alphabet.len();
        for len in 0..=3usize {
            for mut code in 0..a.pow(len as u32) {
                id += 1;
                out.case(format!("x{id}"));
                out.line("init 1");
                for _ in 0..len {
                    out.line(&alphabet[code % a]);
                    code /= a;
                }
            }
        }
    }
    for k in 0..n_cases {
        id += 1;
        out.case(format!("r{id}"));
        let n = rng.range(1, 2) as usize;
        out.line(format!("init {n}"));
        let cids = rng.range(1, 3) as u64;
        // every 10th case is a "hand-built snapshot" stream (cancel-in-flight markers): the model
        // must still agree with the code; the lifecycle spec is silent about those
        let handbuilt = k % 10 == 9;
        let len = rng.range(1, if tier == "thorough" { 40 } else { 25 });
        for _ in 0..len {
            out.line(gen_op(&mut rng, n, cids, handbuilt));
        }
        if rng.chance(3) {
            out.line(format!("snap {} 1 10 100 O 7 1 0", n + 1)); // unknown instrument
        }
    }
    out.flush();
}

fn main() {
    let a = args();
    match a.cmd.as_str() {
        "gen" => generate(a.seed, a.n, &a.tier),
        "run" => run(),
        _ => {
            eprintln!("usage: c01 gen <seed> <n> <tier> | run < cases");
            std::process::exit(2)
        }
    }
}
