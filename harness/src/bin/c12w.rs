//! C12W — `ExchangeStream::poll_next`, `WebSocketParser::parse` (+ `process_*`,
//! `is_websocket_disconnected`), `process_buffered_events` and the `de.rs` helpers of
//! `barter-integration`, driven in-process.
//!
//! The real `ExchangeStream<WebSocketParser, QueueStream, ScriptT>` is polled by hand (no-op waker) over
//! an in-memory inner stream of tungstenite `Message`s / `Error`s whose readiness is scripted
//! (`QueueStream`: items, explicit `Pending` markers, an `ended` flag), and additionally over
//! `futures::stream::iter` with `StreamExt::collect` (`collect`). The `Transformer` is scriptable
//! and stateful (`ScriptT`, `Input = Vec<u32>`): every element `x` of a message yields one output,
//! `Err(acc)` when `x % 7 == 0`, otherwise `acc += x; Ok(acc)`.
//!
//! Strings in ops and observations are written `=<esc>`: bytes `0x21..=0x7e` except `%` as
//! themselves, everything else `%XX`. Byte payloads are hex (`-` = empty).
//!
//! Ops
//!   `bpush <msg>`            add a message to the events "buffered during subscription validation"
//!   `new <acc0> <buf>`       `ExchangeStream::new(queue, ScriptT{acc0}, buffer)`; `<buf>` = `-` or
//!                            `o5,e3,...` (explicit `Ok(5)`, `Err(Script(3))`); when `bpush`ed events
//!                            exist the buffer is `process_buffered_events(..)` extended by `<buf>`
//!   `push <msg>`             next poll result of the inner stream; `<msg>` =
//!                            `text =<s>` | `bin <hex>` | `ping <hex>` | `pong <hex>` | `close none` |
//!                            `close <u16> =<reason>` | `frame <hex>` | `err <kind>` | `pend`
//!   `end`                    the inner stream ends after what was pushed
//!   `poll`                   one `poll_next`
//!   `drain`                  `poll_next` until it returns `Ready(None)` or `Pending`
//!   `collect`                a fresh `ExchangeStream` over `stream::iter(all pushed messages)`, collected
//!   `parse <msg>`            `WebSocketParser::parse::<Vec<u32>>` and the `process_*` helper directly (+ the
//!                            `Display` text of a `Terminated` error)
//!   `disc <kind>`            `is_websocket_disconnected`
//!   `de_u64_ms =<json>` `de_str_u64_ms =<json>` `de_str_f64_ms =<json>` `de_str_f64_s =<json>`
//!   `de_str_u64 =<json>` `de_str_f64 =<json>`   `de_str::<u64>` / `de_str::<f64>` (value as exact fraction)
//!   `dur <secs> <nanos>`     `datetime_utc_from_epoch_duration`
//!   `extract <k> =<json>`    a sequence visitor calling `extract_next::<_, u32>` k times (fields f0, f1, ..)
//!   `se <n>`                 `se_element_to_vector`
use barter_integration::{
    Transformer,
    de::{
        datetime_utc_from_epoch_duration, de_str, de_str_f64_epoch_ms_as_datetime_utc,
        de_str_f64_epoch_s_as_datetime_utc, de_str_u64_epoch_ms_as_datetime_utc,
        de_u64_epoch_ms_as_datetime_utc, extract_next, se_element_to_vector,
    },
    error::SocketError,
    protocol::{
        StreamParser,
        websocket::{
            WebSocketParser, WsError, WsMessage, is_websocket_disconnected, process_binary,
            process_close_frame, process_frame, process_ping, process_pong, process_text,
        },
    },
    stream::ExchangeStream,
};
use chrono::{DateTime, Utc};
use futures::{Stream, StreamExt};
use serde::Deserialize;
use std::{
    cell::RefCell,
    collections::VecDeque,
    pin::Pin,
    rc::Rc,
    task::{Context, Poll},
};
use tokio_tungstenite::tungstenite::{
    self,
    error::{CapacityError, ProtocolError, TlsError, UrlError},
    protocol::{
        CloseFrame,
        frame::{Frame, coding::CloseCode},
    },
};
use vh::*;

// ------------------------------------------------------------------------------------------ text

fn esc_bytes(bs: &[u8]) -> String {
    let mut s = String::from("=");
    for &b in bs {
        if (0x21..=0x7e).contains(&b) && b != b'%' {
            s.push(b as char);
        } else {
            s.push_str(&format!("%{b:02X}"));
        }
    }
    s
}

fn esc(s: &str) -> String {
    esc_bytes(s.as_bytes())
}

fn unesc_bytes(tok: &str) -> Vec<u8> {
    let t = tok.strip_prefix('=').unwrap_or_else(|| panic!("bad string token {tok}"));
    let b = t.as_bytes();
    let mut out = Vec::new();
    let mut i = 0;
    while i < b.len() {
        if b[i] == b'%' {
            out.push(u8::from_str_radix(&t[i + 1..i + 3], 16).expect("bad escape"));
            i += 3;
        } else {
            out.push(b[i]);
            i += 1;
        }
    }
    out
}

fn unesc(tok: &str) -> String {
    String::from_utf8(unesc_bytes(tok)).expect("string token is utf-8")
}

fn unhex(tok: &str) -> Vec<u8> {
    if tok == "-" {
        return vec![];
    }
    (0..tok.len() / 2)
        .map(|i| u8::from_str_radix(&tok[2 * i..2 * i + 2], 16).expect("bad hex"))
        .collect()
}

fn hex(bs: &[u8]) -> String {
    if bs.is_empty() {
        "-".into()
    } else {
        bs.iter().map(|b| format!("{b:02x}")).collect()
    }
}

// ------------------------------------------------------------------------------ scripted pieces

#[derive(Debug)]
enum TErr {
    Socket(SocketError),
    Script(u64),
}

impl From<SocketError> for TErr {
    fn from(e: SocketError) -> Self {
        TErr::Socket(e)
    }
}

/// Scriptable stateful transformer: the message is the script.
#[derive(Debug)]
struct ScriptT {
    acc: u64,
}

impl Transformer for ScriptT {
    type Error = TErr;
    type Input = Vec<u32>;
    type Output = u64;
    type OutputIter = Vec<Result<u64, TErr>>;
    fn transform(&mut self, input: Vec<u32>) -> Self::OutputIter {
        input
            .into_iter()
            .map(|x| {
                if x % 7 == 0 {
                    Err(TErr::Script(self.acc))
                } else {
                    self.acc += x as u64;
                    Ok(self.acc)
                }
            })
            .collect()
    }
}

enum InnerEv {
    Item(Result<WsMessage, WsError>),
    Pending,
}

#[derive(Default)]
struct Queue {
    items: VecDeque<InnerEv>,
    ended: bool,
}

/// In-memory inner stream with scripted readiness.
struct QueueStream(Rc<RefCell<Queue>>);

impl Stream for QueueStream {
    type Item = Result<WsMessage, WsError>;
    fn poll_next(self: Pin<&mut Self>, _cx: &mut Context<'_>) -> Poll<Option<Self::Item>> {
        let mut q = self.0.borrow_mut();
        match q.items.pop_front() {
            Some(InnerEv::Item(m)) => Poll::Ready(Some(m)),
            Some(InnerEv::Pending) => Poll::Pending,
            None if q.ended => Poll::Ready(None),
            None => Poll::Pending,
        }
    }
}

fn ws_error(kind: &str) -> WsError {
    match kind {
        "closed" => WsError::ConnectionClosed,
        "already" => WsError::AlreadyClosed,
        "io" => WsError::Io(std::io::Error::other("scripted")),
        "tls" => WsError::Tls(TlsError::InvalidDnsName),
        "capacity" => WsError::Capacity(CapacityError::TooManyHeaders),
        "proto_sac" => WsError::Protocol(ProtocolError::SendAfterClosing),
        "proto_rac" => WsError::Protocol(ProtocolError::ReceivedAfterClosing),
        "proto_reset" => WsError::Protocol(ProtocolError::ResetWithoutClosingHandshake),
        "proto_other0" => WsError::Protocol(ProtocolError::WrongHttpMethod),
        "proto_other1" => WsError::Protocol(ProtocolError::NonZeroReservedBits),
        "proto_other2" => WsError::Protocol(ProtocolError::UnknownControlFrameType(3)),
        "proto_other3" => WsError::Protocol(ProtocolError::InvalidCloseSequence),
        "wbf" => WsError::WriteBufferFull(WsMessage::text("x")),
        "utf8" => WsError::Utf8,
        "attack" => WsError::AttackAttempt,
        "url" => WsError::Url(UrlError::NoHostName),
        "http" => WsError::Http(tungstenite::http::Response::new(None)),
        "httpfmt" => WsError::HttpFormat(
            tungstenite::http::Request::builder()
                .method("bad method")
                .body(())
                .unwrap_err(),
        ),
        other => panic!("bad error kind {other}"),
    }
}

const ERR_KINDS: [&str; 18] = [
    "closed", "already", "io", "tls", "capacity", "proto_sac", "proto_rac", "proto_reset",
    "proto_other0", "proto_other1", "proto_other2", "proto_other3", "wbf", "utf8", "attack", "url",
    "http", "httpfmt",
];

fn ws_error_kind(e: &WsError) -> String {
    match e {
        WsError::ConnectionClosed => "closed".into(),
        WsError::AlreadyClosed => "already".into(),
        WsError::Io(_) => "io".into(),
        WsError::Tls(_) => "tls".into(),
        WsError::Capacity(_) => "capacity".into(),
        WsError::Protocol(ProtocolError::SendAfterClosing) => "proto_sac".into(),
        WsError::Protocol(ProtocolError::ReceivedAfterClosing) => "proto_rac".into(),
        WsError::Protocol(ProtocolError::ResetWithoutClosingHandshake) => "proto_reset".into(),
        WsError::Protocol(ProtocolError::WrongHttpMethod) => "proto_other0".into(),
        WsError::Protocol(ProtocolError::NonZeroReservedBits) => "proto_other1".into(),
        WsError::Protocol(ProtocolError::UnknownControlFrameType(_)) => "proto_other2".into(),
        WsError::Protocol(ProtocolError::InvalidCloseSequence) => "proto_other3".into(),
        WsError::Protocol(_) => "proto_unknown".into(),
        WsError::WriteBufferFull(_) => "wbf".into(),
        WsError::Utf8 => "utf8".into(),
        WsError::AttackAttempt => "attack".into(),
        WsError::Url(_) => "url".into(),
        WsError::Http(_) => "http".into(),
        WsError::HttpFormat(_) => "httpfmt".into(),
    }
}

/// `<msg>` tokens -> inner poll result
fn inner_ev(t: &[String]) -> InnerEv {
    match t[0].as_str() {
        "pend" => InnerEv::Pending,
        "err" => InnerEv::Item(Err(ws_error(&t[1]))),
        _ => InnerEv::Item(Ok(message(t))),
    }
}

fn message(t: &[String]) -> WsMessage {
    match t[0].as_str() {
        "text" => WsMessage::Text(unesc(&t[1]).into()),
        "bin" => WsMessage::Binary(unhex(&t[1]).into()),
        "ping" => WsMessage::Ping(unhex(&t[1]).into()),
        "pong" => WsMessage::Pong(unhex(&t[1]).into()),
        "close" if t[1] == "none" => WsMessage::Close(None),
        "close" => WsMessage::Close(Some(CloseFrame {
            code: CloseCode::from(t[1].parse::<u16>().expect("close code")),
            reason: unesc(&t[2]).into(),
        })),
        "frame" => WsMessage::Frame(Frame::ping(unhex(&t[1]))),
        other => panic!("bad message {other}"),
    }
}

fn fmt_sock(e: &SocketError) -> String {
    match e {
        SocketError::Deserialise { payload, .. } => format!("deser {}", esc(payload)),
        SocketError::Terminated(s) => format!("term {}", esc(s)),
        SocketError::WebSocket(e) => format!("ws {}", ws_error_kind(e)),
        other => format!("other {}", esc(&other.to_string())),
    }
}

fn fmt_item(r: &Result<u64, TErr>) -> String {
    match r {
        Ok(n) => format!("ok {n}"),
        Err(TErr::Script(n)) => format!("terr {n}"),
        Err(TErr::Socket(e)) => format!("sock {}", fmt_sock(e)),
    }
}

fn fmt_vec(v: &[u32]) -> String {
    if v.is_empty() {
        "-".into()
    } else {
        v.iter().map(|x| x.to_string()).collect::<Vec<_>>().join(",")
    }
}

fn fmt_parsed(p: &Option<Result<Vec<u32>, SocketError>>) -> String {
    match p {
        None => "none".into(),
        Some(Ok(v)) => format!("ok {}", fmt_vec(v)),
        Some(Err(e)) => format!("err {}", fmt_sock(e)),
    }
}

fn parse_buf(tok: &str) -> VecDeque<Result<u64, TErr>> {
    if tok == "-" {
        return VecDeque::new();
    }
    tok.split(',')
        .map(|x| {
            let n: u64 = x[1..].parse().expect("buffer item");
            match &x[..1] {
                "o" => Ok(n),
                "e" => Err(TErr::Script(n)),
                _ => panic!("bad buffer item {x}"),
            }
        })
        .collect()
}

type Ex = ExchangeStream<WebSocketParser, QueueStream, ScriptT>;

struct Live {
    ex: Ex,
    queue: Rc<RefCell<Queue>>,
    acc0: u64,
    buf0: String,
    buffered: Vec<Vec<String>>,
    pushed: Vec<Vec<String>>,
}

fn observe(l: &Live, lines: &mut Vec<String>) {
    let buf: Vec<String> = l.ex.buffer.iter().map(|r| fmt_item(r).replace(' ', ":")).collect();
    lines.push(format!("buf {}", if buf.is_empty() { "-".into() } else { buf.join(" ") }));
    lines.push(format!("acc {}", l.ex.transformer.acc));
    let q = l.queue.borrow();
    lines.push(format!("queue {} {}", q.items.len(), if q.ended { "ended" } else { "open" }));
}

fn poll_once(l: &mut Live) -> Poll<Option<Result<u64, TErr>>> {
    let waker = futures::task::noop_waker();
    let mut cx = Context::from_waker(&waker);
    Pin::new(&mut l.ex).poll_next(&mut cx)
}

fn fmt_poll(p: &Poll<Option<Result<u64, TErr>>>) -> String {
    match p {
        Poll::Pending => "pending".into(),
        Poll::Ready(None) => "none".into(),
        Poll::Ready(Some(r)) => format!("item {}", fmt_item(r)),
    }
}

fn build(acc0: u64, buf0: &str, buffered: &[Vec<String>], queue: Rc<RefCell<Queue>>) -> Ex {
    let mut transformer = ScriptT { acc: acc0 };
    let mut buffer = if buffered.is_empty() {
        VecDeque::new()
    } else {
        let events: Vec<WsMessage> = buffered.iter().map(|t| message(t)).collect();
        barter_data::process_buffered_events::<WebSocketParser, _>(&mut transformer, events)
    };
    buffer.extend(parse_buf(buf0));
    ExchangeStream::new(QueueStream(queue), transformer, buffer)
}

// --------------------------------------------------------------------------------------- de ops

#[derive(Deserialize)]
struct WU64Ms(#[serde(deserialize_with = "de_u64_epoch_ms_as_datetime_utc")] DateTime<Utc>);
#[derive(Deserialize)]
struct WStrU64Ms(#[serde(deserialize_with = "de_str_u64_epoch_ms_as_datetime_utc")] DateTime<Utc>);
#[derive(Deserialize)]
struct WStrF64Ms(#[serde(deserialize_with = "de_str_f64_epoch_ms_as_datetime_utc")] DateTime<Utc>);
#[derive(Deserialize)]
struct WStrF64S(#[serde(deserialize_with = "de_str_f64_epoch_s_as_datetime_utc")] DateTime<Utc>);
#[derive(Deserialize)]
struct WStrU64(#[serde(deserialize_with = "de_str")] u64);
#[derive(Deserialize)]
struct WStrF64(#[serde(deserialize_with = "de_str")] f64);

fn err_label(e: &serde_json::Error) -> String {
    let m = e.to_string();
    if m.contains("cannot parse integer from empty string") {
        "empty".into()
    } else if m.contains("invalid digit found in string") {
        "digit".into()
    } else if m.contains("number too large to fit in target type") {
        "overflow".into()
    } else if m.contains("cannot parse float from empty string") {
        "fempty".into()
    } else if m.contains("invalid float literal") {
        "finvalid".into()
    } else if let Some(rest) = m.strip_prefix("missing field `") {
        format!("missing:{}", rest.split('`').next().unwrap_or(""))
    } else {
        "json".into()
    }
}

fn nanos_of(t: DateTime<Utc>) -> i128 {
    t.timestamp() as i128 * 1_000_000_000 + t.timestamp_subsec_nanos() as i128
}

fn guarded<F: FnOnce() -> String>(f: F) -> String {
    match std::panic::catch_unwind(std::panic::AssertUnwindSafe(f)) {
        Ok(s) => s,
        Err(_) => "panic".into(),
    }
}

fn de_time<W, F>(json: &str, get: F) -> String
where
    W: for<'a> Deserialize<'a>,
    F: Fn(W) -> DateTime<Utc>,
{
    guarded(|| match serde_json::from_str::<W>(json) {
        Ok(w) => format!("ok {}", nanos_of(get(w))),
        Err(e) => format!("err {}", err_label(&e)),
    })
}

/// exact value of a finite f64 as a fraction in lowest terms (`num/den` or `num`)
fn f64_exact(x: f64) -> String {
    if x.is_nan() {
        return "nan".into();
    }
    if x.is_infinite() {
        return if x > 0.0 { "inf".into() } else { "-inf".into() };
    }
    if x == 0.0 {
        return "0".into();
    }
    let bits = x.to_bits();
    let neg = bits >> 63 == 1;
    let e = ((bits >> 52) & 0x7ff) as i32;
    let frac = bits & ((1u64 << 52) - 1);
    let (mut m, mut ex) = if e == 0 { (frac, -1074) } else { (frac | (1u64 << 52), e - 1075) };
    while m % 2 == 0 {
        m /= 2;
        ex += 1;
    }
    let sign = if neg { "-" } else { "" };
    if ex >= 0 {
        if ex > 60 {
            return "big".into();
        }
        format!("{sign}{}", (m as u128) << ex)
    } else {
        if -ex > 120 {
            return "big".into();
        }
        format!("{sign}{}/{}", m, 1u128 << (-ex))
    }
}

struct ExtractSeed(usize);
const FIELD_NAMES: [&str; 6] = ["f0", "f1", "f2", "f3", "f4", "f5"];

impl<'de> serde::de::DeserializeSeed<'de> for ExtractSeed {
    type Value = (Vec<u32>, usize);
    fn deserialize<D: serde::Deserializer<'de>>(self, d: D) -> Result<Self::Value, D::Error> {
        struct V(usize);
        impl<'de> serde::de::Visitor<'de> for V {
            type Value = (Vec<u32>, usize);
            fn expecting(&self, f: &mut std::fmt::Formatter) -> std::fmt::Result {
                f.write_str("a sequence")
            }
            fn visit_seq<A: serde::de::SeqAccess<'de>>(self, mut seq: A) -> Result<Self::Value, A::Error> {
                let mut got = Vec::new();
                for name in FIELD_NAMES.iter().take(self.0) {
                    got.push(extract_next::<_, u32>(&mut seq, name)?);
                }
                let mut rest = 0;
                while seq.next_element::<serde::de::IgnoredAny>()?.is_some() {
                    rest += 1;
                }
                Ok((got, rest))
            }
        }
        d.deserialize_seq(V(self.0))
    }
}

// ------------------------------------------------------------------------------------------ run

fn run() {
    run_cases(|case, lines| {
        let mut live: Option<Live> = None;
        let mut buffered: Vec<Vec<String>> = Vec::new();
        for op in case.ops.iter() {
            lines.push("@".into());
            match op[0].as_str() {
                "bpush" => buffered.push(op[1..].to_vec()),
                "new" => {
                    let acc0: u64 = op[1].parse().expect("acc0");
                    let queue = Rc::new(RefCell::new(Queue::default()));
                    let ex = build(acc0, &op[2], &buffered, queue.clone());
                    let l = Live {
                        ex,
                        queue,
                        acc0,
                        buf0: op[2].clone(),
                        buffered: std::mem::take(&mut buffered),
                        pushed: vec![],
                    };
                    observe(&l, lines);
                    live = Some(l);
                }
                "push" => {
                    let l = live.as_mut().expect("new first");
                    l.queue.borrow_mut().items.push_back(inner_ev(&op[1..]));
                    l.pushed.push(op[1..].to_vec());
                    let q = l.queue.borrow();
                    lines.push(format!("queue {} {}", q.items.len(), if q.ended { "ended" } else { "open" }));
                }
                "end" => {
                    let l = live.as_mut().expect("new first");
                    l.queue.borrow_mut().ended = true;
                    let q = l.queue.borrow();
                    lines.push(format!("queue {} ended", q.items.len()));
                }
                "poll" => {
                    let l = live.as_mut().expect("new first");
                    let p = poll_once(l);
                    lines.push(format!("poll {}", fmt_poll(&p)));
                    observe(l, lines);
                }
                "drain" => {
                    let l = live.as_mut().expect("new first");
                    for i in 0..10_000 {
                        let p = poll_once(l);
                        lines.push(format!("out{i} {}", fmt_poll(&p)));
                        match p {
                            Poll::Ready(Some(_)) => {}
                            _ => break,
                        }
                    }
                    observe(l, lines);
                }
                "collect" => {
                    let l = live.as_ref().expect("new first");
                    let items: Vec<Result<WsMessage, WsError>> = l
                        .pushed
                        .iter()
                        .filter_map(|t| match inner_ev(t) {
                            InnerEv::Item(m) => Some(m),
                            InnerEv::Pending => None,
                        })
                        .collect();
                    // same construction path, but the inner stream is futures::stream::iter
                    let mut transformer = ScriptT { acc: l.acc0 };
                    let mut buffer = if l.buffered.is_empty() {
                        VecDeque::new()
                    } else {
                        let events: Vec<WsMessage> = l.buffered.iter().map(|t| message(t)).collect();
                        barter_data::process_buffered_events::<WebSocketParser, _>(&mut transformer, events)
                    };
                    buffer.extend(parse_buf(&l.buf0));
                    let ex: ExchangeStream<WebSocketParser, _, ScriptT> =
                        ExchangeStream::new(futures::stream::iter(items), transformer, buffer);
                    // `stream::iter` is always ready, so `collect` completes within one poll unless the
                    // ExchangeStream itself answers Pending (which would hang a real executor)
                    let mut fut = Box::pin(ex.collect::<Vec<Result<u64, TErr>>>());
                    let waker = futures::task::noop_waker();
                    let mut cx = Context::from_waker(&waker);
                    let all = match std::future::Future::poll(fut.as_mut(), &mut cx) {
                        Poll::Ready(all) => all,
                        Poll::Pending => {
                            lines.push("coln pending".into());
                            continue;
                        }
                    };
                    for (i, r) in all.iter().enumerate() {
                        lines.push(format!("col{i} {}", fmt_item(r)));
                    }
                    lines.push(format!("coln {}", all.len()));
                }
                "parse" => {
                    let (via_parse, via_helper) = if op[1] == "err" {
                        (
                            WebSocketParser::parse::<Vec<u32>>(Err(ws_error(&op[2]))),
                            // no helper for the transport-error arm
                            WebSocketParser::parse::<Vec<u32>>(Err(ws_error(&op[2]))),
                        )
                    } else {
                        let direct: Option<Result<Vec<u32>, SocketError>> = match message(&op[1..]) {
                            WsMessage::Text(t) => process_text(t),
                            WsMessage::Binary(b) => process_binary(b),
                            WsMessage::Ping(p) => process_ping(p),
                            WsMessage::Pong(p) => process_pong(p),
                            WsMessage::Close(c) => process_close_frame(c),
                            WsMessage::Frame(f) => process_frame(f),
                        };
                        (WebSocketParser::parse::<Vec<u32>>(Ok(message(&op[1..]))), direct)
                    };
                    lines.push(format!("parse {}", fmt_parsed(&via_parse)));
                    if let Some(Err(e @ SocketError::Terminated(_))) = &via_parse {
                        lines.push(format!("display {}", esc(&e.to_string())));
                    }
                    lines.push(format!("helper {}", fmt_parsed(&via_helper)));
                }
                "disc" => {
                    let e = ws_error(&op[1]);
                    lines.push(format!("disc {}", is_websocket_disconnected(&e) as u8));
                }
                "de_u64_ms" => lines.push(format!("de {}", de_time::<WU64Ms, _>(&unesc(&op[1]), |w| w.0))),
                "de_str_u64_ms" => {
                    lines.push(format!("de {}", de_time::<WStrU64Ms, _>(&unesc(&op[1]), |w| w.0)))
                }
                "de_str_f64_ms" => {
                    lines.push(format!("de {}", de_time::<WStrF64Ms, _>(&unesc(&op[1]), |w| w.0)))
                }
                "de_str_f64_s" => {
                    lines.push(format!("de {}", de_time::<WStrF64S, _>(&unesc(&op[1]), |w| w.0)))
                }
                "de_str_u64" => {
                    let json = unesc(&op[1]);
                    lines.push(format!(
                        "v {}",
                        guarded(|| match serde_json::from_str::<WStrU64>(&json) {
                            Ok(w) => format!("ok {}", w.0),
                            Err(e) => format!("err {}", err_label(&e)),
                        })
                    ));
                }
                "de_str_f64" => {
                    let json = unesc(&op[1]);
                    lines.push(format!(
                        "v {}",
                        guarded(|| match serde_json::from_str::<WStrF64>(&json) {
                            Ok(w) => format!("ok {}", f64_exact(w.0)),
                            Err(e) => format!("err {}", err_label(&e)),
                        })
                    ));
                }
                "dur" => {
                    let secs: u64 = op[1].parse().expect("secs");
                    let nanos: u32 = op[2].parse().expect("nanos");
                    lines.push(format!(
                        "dt {}",
                        guarded(|| {
                            let t = datetime_utc_from_epoch_duration(std::time::Duration::new(secs, nanos));
                            format!("ok {}", nanos_of(t))
                        })
                    ));
                }
                "extract" => {
                    let k: usize = op[1].parse().expect("k");
                    let json = unesc(&op[2]);
                    lines.push(format!(
                        "ex {}",
                        guarded(|| {
                            use serde::de::DeserializeSeed;
                            let mut d = serde_json::Deserializer::from_str(&json);
                            let r = ExtractSeed(k).deserialize(&mut d).and_then(|v| d.end().map(|_| v));
                            match r {
                                Ok((got, rest)) => format!("ok {} rest={rest}", fmt_vec(&got)),
                                Err(e) => format!("err {}", err_label(&e)),
                            }
                        })
                    ));
                }
                "se" => {
                    let n: u64 = op[1].parse().expect("n");
                    let mut buf = Vec::new();
                    let mut ser = serde_json::Serializer::new(&mut buf);
                    se_element_to_vector(n, &mut ser).expect("serialise");
                    lines.push(format!("se {}", esc(&String::from_utf8(buf).unwrap())));
                }
                other => panic!("bad op {other}"),
            }
        }
    });
}

// ------------------------------------------------------------------------------------ generator

const VALS: [u32; 12] = [0, 1, 2, 3, 5, 7, 14, 21, 100, 6, 4294967295, 49];

fn gen_vec_text(rng: &mut Rng) -> String {
    let n = *rng.pick(&[0usize, 0, 1, 1, 1, 2, 2, 3, 4]);
    let body: Vec<String> = (0..n).map(|_| rng.pick(&VALS).to_string()).collect();
    match rng.below(12) {
        0 => format!("[ {} ]", body.join(" , ")),
        1 => format!(" [{}]\n", body.join(",")),
        2 => format!("[{}]\t", body.join(",\r\n")),
        _ => format!("[{}]", body.join(",")),
    }
}

const BAD_TEXT: [&str; 18] = [
    "", "[1,", "{}", "nope", "[1,,2]", "[-1]", "[1.5]", "\"x\"", "[01]", "[4294967296]", "[1]x", "null",
    "[1e2]", "[+1]", "[1 2]", "]", "[\"1\"]", "[-0]",
];

/// byte payloads that are not UTF-8 (one per `Utf8Error` class, some behind a valid prefix)
const BAD_UTF8: [&str; 22] = [
    "ff", "c3", "c328", "e28228", "e282", "f0908c28", "f09028", "f0288cbc", "eda080", "c0af", "f4908080",
    "5b315dff", "5b315dc3", "80", "f8888080", "e0a0", "f0", "f09f98", "e2828241ff", "c3a9ff", "f5", "e08080",
];

fn gen_text(rng: &mut Rng) -> String {
    if rng.chance(25) { rng.pick(&BAD_TEXT).to_string() } else { gen_vec_text(rng) }
}

fn gen_bytes(rng: &mut Rng) -> String {
    match rng.below(10) {
        0..=2 => rng.pick(&BAD_UTF8).to_string(),
        3 => {
            // valid non-ASCII utf-8 (never a Vec<u32>)
            hex("h\u{e9}llo \u{20ac} \u{1f600}".as_bytes())
        }
        _ => hex(gen_text(rng).as_bytes()),
    }
}

fn gen_small_bytes(rng: &mut Rng) -> String {
    match rng.below(4) {
        0 => "-".into(),
        1 => hex(b"1"),
        2 => hex(b"[1,2]"),
        _ => hex(&[rng.below(256) as u8, rng.below(256) as u8]),
    }
}

const REASONS: [&str; 8] = ["", "bye", "going away", "a\"b\\c", "tab\there", "\u{e9}", "line\nfeed\r\0", "~\u{7f}"];
const CODES: [u16; 30] = [
    0, 1, 999, 1000, 1001, 1002, 1003, 1004, 1005, 1006, 1007, 1008, 1009, 1010, 1011, 1012, 1013, 1014, 1015,
    1016, 2999, 3000, 3999, 4000, 4999, 5000, 65535, 1000, 1000, 1001,
];

/// a message that is not an error and not a pending marker
fn gen_message(rng: &mut Rng) -> String {
    match rng.below(100) {
        0..=54 => format!("text {}", esc(&gen_text(rng))),
        55..=69 => format!("bin {}", gen_bytes(rng)),
        70..=76 => format!("ping {}", gen_small_bytes(rng)),
        77..=82 => format!("pong {}", gen_small_bytes(rng)),
        83..=86 => "close none".into(),
        87..=94 => format!("close {} {}", rng.pick(&CODES), esc(*rng.pick::<&str>(&REASONS))),
        _ => format!("frame {}", gen_small_bytes(rng)),
    }
}

fn gen_inner(rng: &mut Rng, pend_pct: u64, err_pct: u64) -> String {
    if rng.chance(pend_pct) {
        "pend".into()
    } else if rng.chance(err_pct) {
        format!("err {}", rng.pick(&ERR_KINDS))
    } else {
        gen_message(rng)
    }
}

fn gen_buf(rng: &mut Rng) -> String {
    let n = *rng.pick(&[0usize, 0, 0, 1, 2, 3]);
    if n == 0 {
        return "-".into();
    }
    (0..n)
        .map(|_| format!("{}{}", if rng.chance(70) { "o" } else { "e" }, rng.below(50)))
        .collect::<Vec<_>>()
        .join(",")
}

fn json_str(s: &str) -> String {
    format!("\"{s}\"")
}

const NUMERALS: [&str; 40] = [
    "0", "1", "999", "1000", "1661978265280", "1661978265", "8210266876799", "8210266876800", "8210266876799999",
    "8210266876800000", "18446744073709551615", "18446744073709551616", "99999999999999999999", "007", "+5", "-5", "+",
    "-", "", " 5", "5 ", "5x", "0x10", "1_000", "12345678901234567", "9007199254740993", "1.5", "1e3", "١٢", "+-5",
    "00", "4102444800000", "253402300799999", "1661978265.280067", "1661978265280.9", "0.5", "1e18", "+0",
    "18446744073709551615x", "184467440737095516150",
];

const FLOATS: [&str; 66] = [
    "0", "-0", "0.0", "1", "1.", ".5", ".", "1e3", "1E3", "1e+3", "1e-3", "1e", "1e+", "e5", "+1.5", "-1.5", "-1", "-0.5",
    "-1e-9", "inf", "-inf", "+inf", "Infinity", "-INFINITY", "infinit", "nan", "NaN", "-nan", "nanx", "", " 1", "1 ",
    "1_0", "0x1p3", "1661978265.280067", "1661978265.2800675", "1661978265280.9", "1661978265280", "0.000000001",
    "0.0000000005", "0.0000000015", "0.0000000025", "0.00000000049", "8210266876799.5", "8210266876799.9999",
    "8210266876800", "8210266876799999.5", "8210266876800000", "18446744073709551615", "18446744073709551616",
    "1e19", "1e20", "1e300", "1e400", "-1e400", "9007199254740993", "0.1", "0.30000000000000004", "123456.789",
    "4.35", "2.5e-9", "1.0000000005", "1,5", "١", "0.0009765625", "0.0029296875",
];

const JSON_OTHER: [&str; 16] = [
    "null", "true", "5", "-5", "1.5", "[]", "[\"5\"]", "{}", "\"5", "5\"", "\"a\\\"b\"", "\"\\u0035\"", "\"5\\n\"",
    "\"\\\\\"", " \"5\" ", "\"5\" x",
];

fn gen_json_for_str(rng: &mut Rng, pool: &[&str]) -> String {
    match rng.below(10) {
        0 => rng.pick(&JSON_OTHER).to_string(),
        1 => json_str(&format!("{}", rng.below(2_000_000_000_000))),
        2 => json_str(&format!("{}.{}", rng.below(2_000_000_000), rng.below(1_000_000))),
        _ => json_str(*rng.pick::<&str>(pool)),
    }
}

fn gen_de_op(rng: &mut Rng) -> String {
    match rng.below(12) {
        0 | 1 => {
            let j = if rng.chance(30) {
                rng.pick(&JSON_OTHER).to_string()
            } else {
                // a bare JSON token: numerals that are valid JSON numbers or not
                // (a numeral followed by junk would reach the helper before serde_json sees the junk)
                let pool: Vec<&str> = NUMERALS.iter().copied().filter(|n| !n.ends_with("5x")).collect();
                rng.pick::<&str>(&pool).trim().to_string()
            };
            format!("de_u64_ms {}", esc(&j))
        }
        2 | 3 => format!("de_str_u64_ms {}", esc(&gen_json_for_str(rng, &NUMERALS))),
        4 | 5 => format!("de_str_f64_ms {}", esc(&gen_json_for_str(rng, &FLOATS))),
        6 | 7 => format!("de_str_f64_s {}", esc(&gen_json_for_str(rng, &FLOATS))),
        8 => format!("de_str_u64 {}", esc(&gen_json_for_str(rng, &NUMERALS))),
        9 => {
            // values whose exact binary expansion stays printable
            let pool = [
                "0", "-0", "1", "0.1", "0.5", "-2.75", "1661978265.280067", "123456.789", "1e3", "1e-3", "4.35",
                "9007199254740993", "inf", "-inf", "nan", "", "x", "1e15", "0.30000000000000004", "+.5e1",
            ];
            format!("de_str_f64 {}", esc(&gen_json_for_str(rng, &pool)))
        }
        10 => {
            let secs = *rng.pick(&[0u64, 1, 1661978265, 8210266876798, 8210266876799, 8210266876800, 9223372036854775807,
                9223372036854775808, 18446744073709551615]);
            let nanos = *rng.pick(&[0u32, 1, 500_000_000, 999_999_999]);
            format!("dur {secs} {nanos}")
        }
        _ => {
            if rng.chance(20) {
                format!("se {}", rng.pick(&[0u64, 5, 18446744073709551615]))
            } else {
                let k = rng.below(5);
                let elems = ["1", "2", "0", "4294967295", "4294967296", "-1", "1.5", "\"x\"", "null", "true", "7"];
                let n = rng.below(5) as usize;
                let body: Vec<String> = (0..n)
                    .map(|_| if rng.chance(75) { rng.pick(&elems[..4]).to_string() } else { rng.pick(&elems).to_string() })
                    .collect();
                let j = match rng.below(12) {
                    0 => rng.pick(&["[1,", "{}", "5", "", "[1 2]", "null"]).to_string(),
                    1 => format!(" [ {} ] ", body.join(" , ")),
                    _ => format!("[{}]", body.join(",")),
                };
                format!("extract {k} {}", esc(&j))
            }
        }
    }
}

fn generate(seed: u64, n_cases: usize, tier: &str) {
    let mut out = Out::new();
    let mut rng = Rng::new(seed);
    let mut id = 0usize;
    let thorough = tier == "thorough";
    if thorough {
        // every inner script of length <= 4 over 9 symbols, ended, drained; with and without a pre-filled buffer
        let syms: [&str; 9] = [
            "push text =[1,2]", "push text =[]", "push text =[7,3]", "push text =nope", "push ping -",
            "push close 1000 =bye", "push err closed", "push pend", "push bin 5b355dff",
        ];
        for len in 0..=4usize {
            let total = syms.len().pow(len as u32);
            for mut code in 0..total {
                id += 1;
                out.case(format!("x{id}"));
                out.line(if code % 2 == 0 { "new 0 -" } else { "new 10 o1,e2" });
                let mut pends = 0;
                for _ in 0..len {
                    let sym = syms[code % syms.len()];
                    if sym == "push pend" {
                        pends += 1;
                    }
                    out.line(sym);
                    code /= syms.len();
                }
                out.line("end");
                for _ in 0..=pends {
                    out.line("drain");
                }
                out.line("poll");
            }
        }
        // every catalogue entry once through every helper
        id += 1;
        out.case(format!("x{id}"));
        for f in FLOATS.iter() {
            out.line(format!("de_str_f64_ms {}", esc(&json_str(f))));
            out.line(format!("de_str_f64_s {}", esc(&json_str(f))));
        }
        for n in NUMERALS.iter() {
            out.line(format!("de_str_u64_ms {}", esc(&json_str(n))));
            out.line(format!("de_str_u64 {}", esc(&json_str(n))));
            if !n.trim().is_empty() && !n.ends_with("5x") {
                out.line(format!("de_u64_ms {}", esc(n.trim())));
            }
        }
        for j in JSON_OTHER.iter() {
            for op in ["de_u64_ms", "de_str_u64_ms", "de_str_f64_ms", "de_str_f64_s", "de_str_u64", "de_str_f64"] {
                out.line(format!("{op} {}", esc(j)));
            }
        }
        for k in ERR_KINDS.iter() {
            out.line(format!("disc {k}"));
            out.line(format!("parse err {k}"));
        }
        for t in BAD_TEXT.iter() {
            out.line(format!("parse text {}", esc(t)));
            out.line(format!("parse bin {}", hex(t.as_bytes())));
        }
        for b in BAD_UTF8.iter() {
            out.line(format!("parse bin {b}"));
        }
        for c in CODES.iter() {
            for r in REASONS.iter() {
                out.line(format!("parse close {c} {}", esc(r)));
            }
        }
    }
    for _ in 0..n_cases {
        id += 1;
        out.case(format!("r{id}"));
        let kind = rng.below(100);
        if kind < 60 {
            // stream case
            for _ in 0..*rng.pick(&[0usize, 0, 0, 1, 2, 4]) {
                out.line(format!("bpush {}", gen_message(&mut rng)));
            }
            out.line(format!("new {} {}", rng.pick(&[0u64, 0, 1, 10, 1000]), gen_buf(&mut rng)));
            let len = rng.range(0, if thorough { 60 } else { 30 });
            let pend_pct = *rng.pick(&[0u64, 0, 10, 30]);
            let err_pct = *rng.pick(&[0u64, 5, 20]);
            let poll_pct = *rng.pick(&[20u64, 40, 60]);
            let mut ended = false;
            for _ in 0..len {
                if rng.chance(poll_pct) {
                    out.line(if rng.chance(15) { "drain" } else { "poll" });
                } else if !ended && rng.chance(4) {
                    out.line("end");
                    ended = true;
                } else if rng.chance(3) {
                    out.line("collect");
                } else if !ended || rng.chance(10) {
                    out.line(format!("push {}", gen_inner(&mut rng, pend_pct, err_pct)));
                } else {
                    out.line("poll");
                }
            }
            if rng.chance(70) {
                if !ended && rng.chance(70) {
                    out.line("end");
                }
                for _ in 0..rng.range(1, 4) {
                    out.line("drain");
                }
                out.line("poll");
                if rng.chance(30) {
                    out.line("collect");
                }
            }
        } else if kind < 72 {
            for _ in 0..rng.range(1, 12) {
                if rng.chance(20) {
                    out.line(format!("disc {}", rng.pick(&ERR_KINDS)));
                } else if rng.chance(15) {
                    out.line(format!("parse err {}", rng.pick(&ERR_KINDS)));
                } else {
                    out.line(format!("parse {}", gen_message(&mut rng)));
                }
            }
        } else {
            for _ in 0..rng.range(1, 14) {
                out.line(gen_de_op(&mut rng));
            }
        }
    }
    gen_domain_families(seed, n_cases, thorough, &mut id, &mut out);
    out.flush();
}

// ------------------------------------------------------------- input-domain families (domain audit)
//
// Separately seeded, appended AFTER the random cases (which stay what they were): sizes the random stream cases
// never reach — messages of 8-40 elements (one message filling the buffer with tens of outputs, as text, binary
// and among the events buffered during subscription validation), runs of 20-80 consecutive skippable frames
// (ping / pong / raw frame, with empty, 1-byte and 125-byte payloads) inside ONE poll, a pre-filled buffer of
// 10-30 items, a large initial transformer state, empty text / binary payloads and a close frame directly behind
// such a run.

fn gen_long_vec_text(rng: &mut Rng) -> String {
    let n = rng.range(8, 40);
    let body: Vec<String> = (0..n).map(|_| rng.pick(&VALS).to_string()).collect();
    format!("[{}]", body.join(","))
}

fn gen_housekeeping(rng: &mut Rng) -> String {
    let payload = match rng.below(4) {
        0 => "-".to_string(),
        1 => hex(&[rng.below(256) as u8]),
        2 => hex(&[0x5a; 125]),
        _ => hex(b"[1,2]"),
    };
    format!("{} {payload}", rng.pick(&["ping", "pong", "frame"]))
}

fn gen_domain_families(seed: u64, n_cases: usize, thorough: bool, id: &mut usize, out: &mut Out) {
    let mut rng = Rng::new(seed ^ 0xD0_12_57_EA_5EED);
    let n_extra = if thorough { n_cases / 20 } else { 30 };
    for _ in 0..n_extra {
        *id += 1;
        out.case(format!("dlong{id}"));
        if rng.chance(40) {
            for _ in 0..rng.range(1, 12) {
                let m = match rng.below(4) {
                    0 => format!("text {}", esc(&gen_long_vec_text(&mut rng))),
                    1 => format!("bin {}", hex(gen_long_vec_text(&mut rng).as_bytes())),
                    2 => gen_housekeeping(&mut rng),
                    _ => gen_message(&mut rng),
                };
                out.line(format!("bpush {m}"));
            }
        }
        let buf = if rng.chance(40) {
            (0..rng.range(10, 30))
                .map(|_| format!("{}{}", if rng.chance(70) { "o" } else { "e" }, rng.pick(&[0u64, 1, 49, 4294967296, u64::MAX])))
                .collect::<Vec<_>>()
                .join(",")
        } else {
            gen_buf(&mut rng)
        };
        out.line(format!("new {} {buf}", rng.pick(&[0u64, 1, 4294967295, 1099511627776])));
        let mut pends = 0;
        for _ in 0..rng.range(1, 4) {
            for _ in 0..rng.range(20, if thorough { 80 } else { 50 }) {
                if rng.chance(2) {
                    pends += 1;
                    out.line("push pend");
                } else {
                    out.line(format!("push {}", gen_housekeeping(&mut rng)));
                }
            }
            out.line(match rng.below(8) {
                0 => "push text =".to_string(),
                1 => "push bin -".to_string(),
                2 => "push close none".to_string(),
                3 => format!("push bin {}", hex(gen_long_vec_text(&mut rng).as_bytes())),
                4 => format!("push err {}", rng.pick(&ERR_KINDS)),
                _ => format!("push text {}", esc(&gen_long_vec_text(&mut rng))),
            });
            for _ in 0..rng.range(0, 3) {
                out.line("poll");
            }
        }
        if rng.chance(80) {
            out.line("end");
        }
        for _ in 0..=pends {
            out.line("drain");
        }
        out.line("poll");
        out.line("collect");
    }
}

fn main() {
    let a = args();
    match a.cmd.as_str() {
        "gen" => generate(a.seed, a.n, &a.tier),
        "run" => run(),
        _ => {
            eprintln!("usage: c12w gen <seed> <n> <tier> | run < cases");
            std::process::exit(2)
        }
    }
}
