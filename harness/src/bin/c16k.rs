//! C16K (sub-check of C16) — the keyed trading summary, ALL fields of every entry.
//!
//! Engine path: events go through the real `Engine::process` (trades routed to the instrument by
//! index, balance snapshots — single or as items of a full account snapshot — routed to the asset by
//! index, behind `AssetState::update_from_balance`'s time guard); a summary is
//! `Engine::trading_summary_generator(rf).generate(iv)`.
//! Direct path: a long-lived real `TradingSummaryGenerator` (initialised from a fresh engine state, both
//! clocks at the engine start), updated by its own `update_from_position` / `update_from_balance`, with
//! `generate(&mut self)` calls interleaved (`gen`) or run on a clone (`peek`).
//!
//! Configuration-shape family: `initb n m mode rf [a total free]..` builds the engine state with INITIAL
//! balances (`EngineStateBuilder::balances`, applied at `time_engine_start`) instead of an empty one.
//!
//! Ops and observations: see `lean/BarterModel/Driver/C16K.lean`. Times in ops and observations are
//! milliseconds relative to the engine start. Instrument tear sheets are looked up in
//! `TradingSummary.instruments` by the instrument's *name*, asset tear sheets in `TradingSummary.assets`
//! by the asset's `ExchangeAsset` key.
use barter::{
    EngineEvent,
    engine::{
        EngineOutput, Processor,
        audit::EngineAudit,
        state::{position::PositionExited, trading::TradingState},
    },
    execution::AccountStreamEvent,
    statistic::{
        metric::drawdown::{Drawdown, max::MaxDrawdown, mean::MeanDrawdown},
        summary::{TradingSummary, TradingSummaryGenerator, instrument::TearSheet},
        time::{Annual252, Annual365, Daily, TimeInterval},
    },
};
use barter_execution::{
    AccountEvent, AccountEventKind, AccountSnapshot,
    balance::{AssetBalance, Balance},
    order::id::{OrderId, StrategyId},
    trade::{AssetFees, Trade, TradeId},
};
use barter_instrument::{
    Side,
    asset::{AssetIndex, QuoteAsset},
    exchange::ExchangeIndex,
    instrument::{InstrumentIndex, name::InstrumentNameInternal},
};
use barter::engine::state::{
    EngineState, global::DefaultGlobalData, instrument::data::DefaultInstrumentMarketData,
};
use barter_instrument::{Keyed, asset::{ExchangeAsset, name::AssetNameInternal}};
use barter_integration::snapshot::Snapshot;
use chrono::{DateTime, TimeDelta, Utc};
use rust_decimal::Decimal;
use vh::{engine_util::*, *};

// ------------------------------------------------------------------------------------ tokens

#[derive(Clone, Copy, Debug)]
enum Iv {
    D,
    A252,
    A365,
    Ms(i64),
}

fn parse_iv(s: &str) -> Iv {
    match s {
        "D" => Iv::D,
        "A252" => Iv::A252,
        "A365" => Iv::A365,
        _ => Iv::Ms(
            s.strip_prefix("ms:")
                .and_then(|x| x.parse().ok())
                .unwrap_or_else(|| panic!("bad interval {s:?}")),
        ),
    }
}

fn fmt_iv(iv: Iv) -> String {
    match iv {
        Iv::D => "D".into(),
        Iv::A252 => "A252".into(),
        Iv::A365 => "A365".into(),
        Iv::Ms(ms) => format!("ms:{ms}"),
    }
}

/// Runs `$body` with `$t` bound to the concrete `TimeInterval` value denoted by `$iv`.
macro_rules! with_iv {
    ($iv:expr, |$t:ident| $body:expr) => {
        match $iv {
            Iv::D => {
                let $t = Daily;
                $body
            }
            Iv::A252 => {
                let $t = Annual252;
                $body
            }
            Iv::A365 => {
                let $t = Annual365;
                $body
            }
            Iv::Ms(ms) => {
                let $t = TimeDelta::milliseconds(ms);
                $body
            }
        }
    };
}

/// Reads the interval token back from the interval a metric carries.
trait IvTok {
    fn tok(&self) -> String;
}
impl IvTok for Daily {
    fn tok(&self) -> String {
        "D".into()
    }
}
impl IvTok for Annual252 {
    fn tok(&self) -> String {
        "A252".into()
    }
}
impl IvTok for Annual365 {
    fn tok(&self) -> String {
        "A365".into()
    }
}
impl IvTok for TimeDelta {
    fn tok(&self) -> String {
        format!("ms:{}", self.num_milliseconds())
    }
}

fn fmt_val(d: Decimal) -> String {
    if d == Decimal::MAX {
        "MAX".into()
    } else if d == Decimal::MIN {
        "MIN".into()
    } else {
        fmt_dec_approx(d)
    }
}

fn fmt_opt_val(d: Option<Decimal>) -> String {
    d.map(fmt_val).unwrap_or_else(|| "none".into())
}

/// milliseconds relative to the engine start
fn rel(t: DateTime<Utc>) -> i64 {
    t.signed_duration_since(t0()).num_milliseconds()
}

fn fmt_dd(d: Option<&Drawdown>) -> String {
    match d {
        None => "none".into(),
        Some(d) => format!(
            "{} {} {}",
            fmt_dec_approx(d.value),
            rel(d.time_start),
            rel(d.time_end)
        ),
    }
}

fn fmt_mean(m: Option<&MeanDrawdown>) -> String {
    match m {
        None => "none".into(),
        Some(m) => format!("{} {}", fmt_dec_approx(m.mean_drawdown), m.mean_drawdown_ms),
    }
}

fn fmt_max(m: Option<&MaxDrawdown>) -> String {
    fmt_dd(m.map(|m| &m.0))
}

// ------------------------------------------------------------------------------------ system under test

fn instrument_name(i: usize) -> InstrumentNameInternal {
    InstrumentNameInternal::new(format!("b{}_usdt_x{}", i, i % 2))
}

fn n_assets(n: usize) -> usize {
    n + n.min(2)
}

enum Sut {
    Direct(Box<TestEngine>, TradingSummaryGenerator),
    Engine(Box<TestEngine>, Decimal),
}

fn observe_instrument<I: TimeInterval + IvTok>(k: usize, s: &TearSheet<I>, lines: &mut Vec<String>) {
    lines.push(format!("i{k}.pnl {}", fmt_dec(s.pnl)));
    lines.push(format!(
        "i{k}.iv {} {} {} {}",
        s.pnl_return.interval.tok(),
        s.sharpe_ratio.interval.tok(),
        s.sortino_ratio.interval.tok(),
        s.calmar_ratio.interval.tok()
    ));
    lines.push(format!("i{k}.ror {}", fmt_val(s.pnl_return.value)));
    lines.push(format!("i{k}.sharpe {}", fmt_val(s.sharpe_ratio.value)));
    lines.push(format!("i{k}.sortino {}", fmt_val(s.sortino_ratio.value)));
    lines.push(format!("i{k}.calmar {}", fmt_val(s.calmar_ratio.value)));
    lines.push(format!("i{k}.dd {}", fmt_dd(s.pnl_drawdown.as_ref())));
    lines.push(format!("i{k}.ddmean {}", fmt_mean(s.pnl_drawdown_mean.as_ref())));
    lines.push(format!("i{k}.ddmax {}", fmt_max(s.pnl_drawdown_max.as_ref())));
    lines.push(format!(
        "i{k}.win {}",
        fmt_opt_dec_approx(s.win_rate.as_ref().map(|w| w.value))
    ));
    lines.push(format!(
        "i{k}.pf {}",
        fmt_opt_val(s.profit_factor.as_ref().map(|p| p.value))
    ));
}

fn observe<I: TimeInterval + IvTok>(
    engine: &TestEngine,
    n: usize,
    clock: bool,
    summary: &TradingSummary<I>,
    lines: &mut Vec<String>,
) {
    if clock {
        lines.push(format!("start {}", rel(summary.time_engine_start)));
        lines.push(format!("end {}", rel(summary.time_engine_end)));
    }
    assert_eq!(summary.instruments.len(), n, "summary has one entry per instrument");
    for i in 0..n {
        let sheet = summary
            .instruments
            .get(&instrument_name(i))
            .expect("summary entry for the instrument name");
        observe_instrument(i, sheet, lines);
    }
    assert_eq!(summary.assets.len(), engine.state.assets.0.len());
    for (a, key) in engine.state.assets.0.keys().enumerate() {
        let sheet = summary.assets.get(key).expect("summary entry for the asset key");
        match sheet.balance_end {
            None => lines.push(format!("a{a}.bal none")),
            Some(b) => lines.push(format!("a{a}.bal {} {}", fmt_dec(b.total), fmt_dec(b.free))),
        }
        lines.push(format!("a{a}.dd {}", fmt_dd(sheet.drawdown.as_ref())));
        lines.push(format!("a{a}.ddmean {}", fmt_mean(sheet.drawdown_mean.as_ref())));
        lines.push(format!("a{a}.ddmax {}", fmt_max(sheet.drawdown_max.as_ref())));
    }
}

fn instrument_index(engine: &TestEngine, i: usize) -> usize {
    // an unknown label is passed through as an out-of-range index (the code panics on it)
    engine
        .state
        .instruments
        .0
        .get_index_of(&instrument_name(i))
        .unwrap_or(1000 + i)
}

fn exchange_index_of_asset(engine: &TestEngine, a: usize) -> usize {
    match engine.state.assets.0.get_index(a) {
        Some((key, _)) => engine
            .state
            .connectivity
            .exchanges
            .get_index_of(&key.exchange)
            .unwrap(),
        None => 0,
    }
}

#[allow(clippy::too_many_arguments)]
fn trade_event(
    engine: &TestEngine,
    k: usize,
    sub: usize,
    idx: usize,
    side: Side,
    price: Decimal,
    quantity: Decimal,
    fees: Decimal,
    t: i64,
) -> Event {
    let exchange = engine
        .state
        .instruments
        .0
        .get_index(idx)
        .map(|(_, s)| s.instrument.exchange)
        .unwrap_or(ExchangeIndex(0));
    EngineEvent::Account(AccountStreamEvent::Item(AccountEvent {
        exchange,
        kind: AccountEventKind::Trade(Trade {
            id: TradeId::new(format!("t{k}_{sub}")),
            order_id: OrderId::new(format!("o{k}_{sub}")),
            instrument: InstrumentIndex(idx),
            strategy: StrategyId::new("verif"),
            time_exchange: time_ms(t),
            side,
            price,
            quantity,
            fees: AssetFees::quote_fees(fees),
        }),
    }))
}

fn position_exits(audit: &<TestEngine as Processor<Event>>::Audit) -> Vec<PositionExited<QuoteAsset>> {
    let mut res = vec![];
    if let EngineAudit::Process(p) = audit {
        for o in p.outputs.iter() {
            if let EngineOutput::PositionExit(pos) = o {
                res.push(pos.clone());
            }
        }
    }
    res
}

fn push_closed(i: usize, idx: usize, exits: &[PositionExited<QuoteAsset>], lines: &mut Vec<String>) {
    assert_eq!(exits.len(), 1, "the fill exits exactly one position");
    let p = &exits[0];
    assert_eq!(p.instrument, InstrumentIndex(idx));
    lines.push(format!(
        "closed {i} {} {} {} {}",
        fmt_dec(p.pnl_realised),
        fmt_dec(p.price_entry_average),
        fmt_dec(p.quantity_abs_max),
        rel(p.time_exit)
    ));
}

fn sides(tok: &str) -> (Side, Side) {
    match tok {
        "B" => (Side::Buy, Side::Sell),
        "S" => (Side::Sell, Side::Buy),
        other => panic!("bad side {other}"),
    }
}

fn balance_of(op: &[String]) -> AssetBalance<AssetIndex> {
    AssetBalance {
        asset: AssetIndex(op[0].parse().unwrap()),
        balance: Balance::new(parse_dec(&op[2]), parse_dec(&op[3])),
        time_exchange: time_ms(op[1].parse().unwrap()),
    }
}

fn run() {
    run_cases(|case, lines| {
        let mut sut: Option<Sut> = None;
        let mut n = 0usize;
        for (k, op) in case.ops.iter().enumerate() {
            lines.push("@".into());
            match op[0].as_str() {
                "init" => {
                    n = op[1].parse().unwrap();
                    let m: usize = op[2].parse().unwrap();
                    let rf = parse_dec(&op[4]);
                    let bases: Vec<String> = (0..n).map(|i| format!("b{i}")).collect();
                    let defs: Vec<(usize, &str, &str)> =
                        (0..n).map(|i| (i % 2, bases[i].as_str(), "usdt")).collect();
                    let instruments = build_instruments(&defs);
                    let built = build_engine(&instruments, &[], TradingState::Disabled);
                    let engine = built.engine;
                    assert_eq!(engine.state.assets.0.len(), m, "asset count of the configuration");
                    assert_eq!(m, n_assets(n));
                    sut = Some(match op[3].as_str() {
                        "direct" => {
                            // the real constructor, with both summary clocks at the engine start (the
                            // engine's own `trading_summary_generator` reads them from the wall-clock
                            // driven `HistoricalClock`)
                            let generator = TradingSummaryGenerator::init(
                                rf,
                                t0(),
                                t0(),
                                &engine.state.instruments,
                                &engine.state.assets,
                            );
                            Sut::Direct(Box::new(engine), generator)
                        }
                        "engine" => Sut::Engine(Box::new(engine), rf),
                        other => panic!("bad mode {other}"),
                    });
                }
                "initb" => {
                    n = op[1].parse().unwrap();
                    let m: usize = op[2].parse().unwrap();
                    let rf = parse_dec(&op[4]);
                    assert!((op.len() - 5) % 3 == 0, "bad op initb");
                    let bases: Vec<String> = (0..n).map(|i| format!("b{i}")).collect();
                    let defs: Vec<(usize, &str, &str)> =
                        (0..n).map(|i| (i % 2, bases[i].as_str(), "usdt")).collect();
                    let instruments = build_instruments(&defs);
                    assert_eq!(instruments.assets().len(), m, "asset count of the configuration");
                    // initial balances through `EngineStateBuilder::balances`, keyed by ExchangeAsset (an unknown
                    // asset index has no key: the builder is given a key the state does not contain and panics)
                    let balances: Vec<Keyed<ExchangeAsset<AssetNameInternal>, Balance>> = op[5..]
                        .chunks(3)
                        .map(|c| {
                            let a: usize = c[0].parse().unwrap();
                            let key = match instruments.assets().get(a) {
                                Some(k) => ExchangeAsset::new(k.value.exchange, k.value.asset.name_internal.clone()),
                                None => ExchangeAsset::new(EXCHANGES[4], AssetNameInternal::new(format!("unknown{a}"))),
                            };
                            Keyed::new(key, Balance::new(parse_dec(&c[1]), parse_dec(&c[2])))
                        })
                        .collect();
                    let built = build_engine(&instruments, &[], TradingState::Disabled);
                    let mut engine = built.engine;
                    let state: State = EngineState::builder(
                        &instruments,
                        DefaultGlobalData::default(),
                        DefaultInstrumentMarketData::default,
                    )
                    .time_engine_start(t0())
                    .trading_state(TradingState::Disabled)
                    .balances(balances)
                    .build();
                    engine.state = state;
                    sut = Some(match op[3].as_str() {
                        "direct" => {
                            let generator = TradingSummaryGenerator::init(
                                rf,
                                t0(),
                                t0(),
                                &engine.state.instruments,
                                &engine.state.assets,
                            );
                            Sut::Direct(Box::new(engine), generator)
                        }
                        "engine" => Sut::Engine(Box::new(engine), rf),
                        other => panic!("bad mode {other}"),
                    });
                }
                "pos" => {
                    let Some(Sut::Direct(engine, generator)) = sut.as_mut() else {
                        panic!("pos needs direct mode")
                    };
                    let i: usize = op[1].parse().unwrap();
                    let t: i64 = op[2].parse().unwrap();
                    let position = PositionExited::<QuoteAsset, InstrumentIndex> {
                        instrument: InstrumentIndex(instrument_index(engine, i)),
                        side: if k % 2 == 0 { Side::Buy } else { Side::Sell },
                        price_entry_average: parse_dec(&op[4]),
                        quantity_abs_max: parse_dec(&op[5]),
                        pnl_realised: parse_dec(&op[3]),
                        fees_enter: AssetFees::quote_fees(Decimal::ZERO),
                        fees_exit: AssetFees::quote_fees(Decimal::ZERO),
                        time_enter: time_ms(t - 1),
                        time_exit: time_ms(t),
                        trades: vec![],
                    };
                    generator.update_from_position(&position);
                    lines.push(format!("end {}", rel(generator.time_engine_now)));
                }
                "rt" => {
                    let Some(Sut::Engine(engine, _)) = sut.as_mut() else {
                        panic!("rt needs engine mode")
                    };
                    let i: usize = op[1].parse().unwrap();
                    let idx = instrument_index(engine, i);
                    let (open, close) = sides(&op[2]);
                    let (entry, qty, exit) = (parse_dec(&op[3]), parse_dec(&op[4]), parse_dec(&op[5]));
                    let (fee_in, fee_out) = (parse_dec(&op[6]), parse_dec(&op[7]));
                    let (t_in, t_out): (i64, i64) = (op[8].parse().unwrap(), op[9].parse().unwrap());
                    let e1 = trade_event(engine, k, 0, idx, open, entry, qty, fee_in, t_in);
                    let a1 = engine.process(e1);
                    assert!(position_exits(&a1).is_empty(), "opening fill closes nothing");
                    let e2 = trade_event(engine, k, 1, idx, close, exit, qty, fee_out, t_out);
                    let a2 = engine.process(e2);
                    push_closed(i, idx, &position_exits(&a2), lines);
                }
                "flip" => {
                    let Some(Sut::Engine(engine, _)) = sut.as_mut() else {
                        panic!("flip needs engine mode")
                    };
                    let i: usize = op[1].parse().unwrap();
                    let idx = instrument_index(engine, i);
                    let (open, close) = sides(&op[2]);
                    let (entry, qty, exit) = (parse_dec(&op[3]), parse_dec(&op[4]), parse_dec(&op[5]));
                    let (fee_in, fee_out) = (parse_dec(&op[6]), parse_dec(&op[7]));
                    let (t1, t2, t3): (i64, i64, i64) =
                        (op[8].parse().unwrap(), op[9].parse().unwrap(), op[10].parse().unwrap());
                    let e1 = trade_event(engine, k, 0, idx, open, entry, qty, fee_in, t1);
                    let a1 = engine.process(e1);
                    assert!(position_exits(&a1).is_empty(), "opening fill closes nothing");
                    let e2 = trade_event(engine, k, 1, idx, close, exit, qty + qty, fee_out, t2);
                    let a2 = engine.process(e2);
                    push_closed(i, idx, &position_exits(&a2), lines);
                    let e3 = trade_event(engine, k, 2, idx, open, exit, qty, Decimal::ZERO, t3);
                    let a3 = engine.process(e3);
                    push_closed(i, idx, &position_exits(&a3), lines);
                }
                "bal" => {
                    let balance = balance_of(&op[1..5]);
                    match sut.as_mut().expect("init first") {
                        Sut::Direct(_, generator) => {
                            generator.update_from_balance(Snapshot(&balance));
                            lines.push(format!("end {}", rel(generator.time_engine_now)));
                        }
                        Sut::Engine(engine, _) => {
                            let exchange =
                                ExchangeIndex(exchange_index_of_asset(engine, balance.asset.index()));
                            let _ = engine.process(EngineEvent::Account(AccountStreamEvent::Item(
                                AccountEvent {
                                    exchange,
                                    kind: AccountEventKind::BalanceSnapshot(Snapshot(balance)),
                                },
                            )));
                        }
                    }
                }
                "snap" => {
                    let Some(Sut::Engine(engine, _)) = sut.as_mut() else {
                        panic!("snap needs engine mode")
                    };
                    let balances: Vec<AssetBalance<AssetIndex>> =
                        op[1..].chunks(4).map(balance_of).collect();
                    // an account snapshot WITHOUT balances (a fresh account) is legal: exchange 0
                    let exchange = ExchangeIndex(
                        balances
                            .first()
                            .map(|b| exchange_index_of_asset(engine, b.asset.index()))
                            .unwrap_or(0),
                    );
                    let _ = engine.process(EngineEvent::Account(AccountStreamEvent::Item(
                        AccountEvent {
                            exchange,
                            kind: AccountEventKind::Snapshot(AccountSnapshot {
                                exchange,
                                balances,
                                instruments: vec![],
                            }),
                        },
                    )));
                }
                "gen" | "peek" => {
                    let iv = parse_iv(&op[1]);
                    let mutating = op[0] == "gen";
                    match sut.as_mut().expect("init first") {
                        Sut::Direct(engine, generator) => with_iv!(iv, |t| {
                            let summary = if mutating {
                                generator.generate(t)
                            } else {
                                generator.clone().generate(t)
                            };
                            observe(engine, n, true, &summary, lines)
                        }),
                        Sut::Engine(engine, rf) => with_iv!(iv, |t| {
                            let summary = engine.trading_summary_generator(*rf).generate(t);
                            observe(engine, n, false, &summary, lines)
                        }),
                    }
                }
                other => panic!("bad op {other}"),
            }
        }
    });
}

// ------------------------------------------------------------------------------------ generator

const DAY: i64 = 86_400_000;

/// entry price x size with a finite decimal expansion of 1/(entry*size): every return is an exact
/// `Decimal`, so `mean == risk_free` in the zero-risk branch is not decided by rounding noise
const NOTIONALS: [(&str, &str); 7] = [
    ("100", "1"),
    ("50", "2"),
    ("25", "4"),
    ("1", "1"),
    ("10", "0.5"),
    ("200", "0.5"),
    ("20", "5"),
];

fn iv_tok(rng: &mut Rng, exotic: bool) -> String {
    let c = rng.below(if exotic { 10 } else { 6 });
    let iv = match c {
        0 | 1 => Iv::D,
        2 => Iv::A252,
        3 => Iv::A365,
        4 => Iv::Ms(*rng.pick(&[2i64, 4, 8, 1, 24, 48]) * 3_600_000),
        5 => Iv::Ms(rng.range(1, 800) * DAY),
        6 => Iv::Ms(rng.range(1, 40_000_000) * 1000),
        // not a whole number of seconds (the code truncates)
        7 => Iv::Ms(rng.range(1000, 10_000_000)),
        // shorter than a second / zero
        8 => Iv::Ms(*rng.pick(&[0i64, 1, 500, 999])),
        _ => Iv::Ms(-rng.range(1, 400) * DAY),
    };
    fmt_iv(iv)
}

struct Clock {
    step: i64,
    whole: bool,
    now: Vec<i64>,
}

impl Clock {
    /// next exit time of instrument `i`: mostly advancing, sometimes equal, rarely going back
    fn next(&mut self, rng: &mut Rng, i: usize) -> i64 {
        let dt = match rng.below(20) {
            0 => 0,
            1 => -self.step,
            _ => self.step * rng.range(1, 3),
        };
        self.now[i] += dt;
        if !self.whole {
            self.now[i] += rng.range(0, 999);
        }
        self.now[i]
    }
}

fn pnl_of(rng: &mut Rng, bias: u64, first: bool, equal_losses: bool) -> i64 {
    match bias {
        0 => rng.range(1, 30),
        1 => -(if equal_losses { 5 } else { rng.range(1, 30) }),
        2 => {
            if first {
                -rng.range(1, 30)
            } else {
                rng.range(0, 30)
            }
        }
        3 => {
            if rng.chance(15) {
                -(if equal_losses { 7 } else { rng.range(1, 40) })
            } else {
                rng.range(0, 30)
            }
        }
        4 => rng.range(-30, 30),
        _ => {
            if rng.chance(50) {
                0
            } else {
                rng.range(-10, 10)
            }
        }
    }
}

fn gen_pos(rng: &mut Rng, n: usize, clock: &mut Clock, bias: u64, seen: &mut [bool], eq: bool) -> String {
    let i = rng.below(n as u64) as usize;
    let t = clock.next(rng, i);
    let pnl = pnl_of(rng, bias, !seen[i], eq);
    seen[i] = true;
    let (entry, qty) = *rng.pick(&NOTIONALS);
    format!(
        "pos {i} {t} {} {entry} {qty}",
        dec_str(pnl, if rng.chance(20) { 1 } else { 0 })
    )
}

fn gen_rt(rng: &mut Rng, n: usize, clock: &mut Clock, bias: u64, seen: &mut [bool], eq: bool) -> String {
    let i = rng.below(n as u64) as usize;
    let (entry, qty) = *rng.pick(&NOTIONALS);
    let side = *rng.pick(&["B", "S"]);
    // exit = entry + pnl / qty, so that the realised PnL (before fees) is the biased integer
    let pnl = pnl_of(rng, bias, !seen[i], eq);
    seen[i] = true;
    let e = parse_dec(entry);
    let q = parse_dec(qty);
    let delta = Decimal::from(pnl) / q;
    let mut exit = if side == "B" { e + delta } else { e - delta };
    if exit <= Decimal::ZERO {
        exit = e;
    }
    let fees = if rng.chance(60) {
        ("0".to_string(), "0".to_string())
    } else {
        (
            dec_str(*rng.pick(&[0i64, 1, 5]), 1),
            dec_str(*rng.pick(&[0i64, 1, 25]), 2),
        )
    };
    let t_out = clock.next(rng, i);
    let t_in = t_out - rng.range(0, 3) * 1000;
    if rng.chance(20) {
        let t3 = t_out + *rng.pick(&[0i64, 1000, 60_000]);
        clock.now[i] = t3;
        // no fee on the flipping fill: the remainder position then closes exactly break-even. (With a
        // fee its return is a loss of ~1e-5; two such losses have a variance of ~1e-11, which
        // rust_decimal holds to 17 significant digits only - beyond the 1e-18 comparison tolerance.)
        format!(
            "flip {i} {side} {entry} {qty} {} {} 0 {t_in} {t_out} {t3}",
            exit.normalize(),
            fees.0
        )
    } else {
        format!(
            "rt {i} {side} {entry} {qty} {} {} {} {t_in} {t_out}",
            exit.normalize(),
            fees.0,
            fees.1
        )
    }
}

/// balance levels per asset: a random walk over few levels with new peaks, dips and exact recoveries
struct Balances {
    clock: i64,
    level: Vec<i64>,
    /// lowest level the walk may reach: 10 (rarely 0) in the ordinary classes; negative in the
    /// `zero-peak` class, whose curves START at a total <= 0 (outside C18's documented domain: the
    /// oracle is silent on their drawdown fields, model and code are compared on them)
    floor: Option<i64>,
}

impl Balances {
    fn item(&mut self, rng: &mut Rng, m: usize) -> String {
        let a = rng.below(m as u64) as usize;
        // mostly advancing, with equal and STALE timestamps
        let t = match rng.below(10) {
            0 | 1 => self.clock,
            2 | 3 => (self.clock - rng.range(1, 5) * 1000).max(0),
            _ => {
                self.clock += rng.range(1, 3) * 1000;
                self.clock
            }
        };
        let step = *rng.pick(&[-30i64, -20, -10, -10, 0, 10, 10, 20, 40]);
        let floor = match self.floor {
            Some(f) => f,
            None => if rng.chance(3) { 0 } else { 10 },
        };
        self.level[a] = (self.level[a] + step).max(floor);
        let total = self.level[a];
        let free = rng.range(0, total.max(1));
        format!("{a} {t} {} {}", dec_str(total, 0), dec_str(free * 10, 1))
    }
}

fn fixed_vectors(out: &mut Out) {
    // the witness of theorem `interleaved_generate_witness` on both paths
    out.case("w-direct-100-90-gen-110");
    out.line("init 1 2 direct 0");
    out.line("bal 0 0 100 100");
    out.line("bal 0 10 90 90");
    out.line("gen D");
    out.line("bal 0 30 110 110");
    out.line("gen D");
    out.line("gen D");
    out.case("w-direct-100-90-110");
    out.line("init 1 2 direct 0");
    out.line("bal 0 0 100 100");
    out.line("bal 0 10 90 90");
    out.line("peek D");
    out.line("bal 0 30 110 110");
    out.line("gen D");
    out.case("w-engine-100-90-gen-110");
    out.line("init 1 2 engine 0");
    out.line("bal 0 0 100 100");
    out.line("bal 0 10 90 90");
    out.line("gen D");
    out.line("bal 0 30 110 110");
    out.line("gen D");
    out.line("gen D");
    // the witness of `engine_direct_assets_differ_witness`: a stale snapshot
    out.case("w-stale-engine");
    out.line("init 1 2 engine 0");
    out.line("bal 0 5 100 100");
    out.line("bal 0 3 90 40");
    out.line("bal 0 6 110 110");
    out.line("gen D");
    out.case("w-stale-direct");
    out.line("init 1 2 direct 0");
    out.line("bal 0 5 100 100");
    out.line("bal 0 3 90 40");
    out.line("bal 0 6 110 110");
    out.line("gen D");
    // a full account snapshot is applied item by item, each behind the guard
    out.case("w-full-snapshot");
    out.line("init 2 4 engine 0.0015");
    out.line("snap 0 5000 100 100 1 5000 50 50 0 4000 70 70 0 5000 80 60");
    out.line("gen D");
    out.line("snap 1 4000 10 10 0 6000 120 120");
    out.line("gen A365");
    // instruments: interleaved requests while the PnL curve is in a drawdown
    out.case("w-instrument-interleaved");
    out.line("init 2 4 direct 0.0015");
    out.line("pos 0 86400000 10 100 1");
    out.line("pos 1 3600000 -20 100 1");
    out.line("pos 0 172800000 -5 100 1");
    out.line("gen D");
    out.line("pos 0 259200000 20 100 1");
    out.line("gen A365");
    out.line("peek A252");
    // an asset whose first total is not positive (theorem `asset_zero_peak_witness`): the drawdown is
    // measured from the first positive peak
    out.case("w-zero-peak-engine");
    out.line("init 1 2 engine 0");
    out.line("bal 0 0 0 0");
    out.line("bal 0 10 -5 -5");
    out.line("bal 0 20 10 10");
    out.line("bal 0 30 5 5");
    out.line("gen D");
    out.case("w-zero-peak-direct");
    out.line("init 1 2 direct 0");
    out.line("bal 0 0 0 0");
    out.line("bal 0 10 -5 -5");
    out.line("gen D");
    out.line("bal 0 20 10 10");
    out.line("bal 0 30 5 5");
    out.line("gen D");
    out.case("w-instrument-engine");
    out.line("init 2 4 engine 0.0015");
    out.line("rt 0 B 100 1 110 0 0 0 86400000");
    out.line("rt 1 S 100 1 120 0.5 0.25 1000 3600000");
    out.line("flip 0 B 100 1 95 0 0 100000000 172800000 172800000");
    out.line("gen D");
    out.line("rt 0 S 50 2 40 0 0 200000000 259200000");
    out.line("gen A365");
    out.line("gen A252");
}

fn random_case(rng: &mut Rng, out: &mut Out, tier: &str) {
    let n = rng.range(1, 3) as usize;
    let m = n_assets(n);
    let engine = rng.chance(50);
    let rf = *rng.pick(&["0", "0.0015", "0.001", "-0.0005", "0.02"]);
    out.line(format!(
        "init {n} {m} {} {rf}",
        if engine { "engine" } else { "direct" }
    ));
    case_body(rng, out, tier, n, m, engine, &[]);
}

/// the events of a random case after its `init` / `initb` line; `initial[a] = Some(total)`: asset `a` starts
/// with a configured balance, its walk continues from that level
fn case_body(rng: &mut Rng, out: &mut Out, tier: &str, n: usize, m: usize, engine: bool, initial: &[Option<i64>]) {
    let len = match rng.below(10) {
        0 => rng.range(0, 3),
        _ => rng.range(3, if tier == "thorough" { 45 } else { 30 }),
    };
    let bias = *rng.pick(&[0u64, 1, 2, 3, 3, 4, 4, 4, 4, 5]);
    let bal_pct = *rng.pick(&[0u64, 20, 50, 90]);
    let gen_pct = *rng.pick(&[5u64, 15, 30]);
    let equal_losses = rng.chance(30);
    let mut clock = Clock {
        step: *rng.pick(&[1000i64, 60_000, 3_600_000, DAY, 7 * DAY, 30 * DAY]),
        whole: !rng.chance(25),
        now: vec![0; n],
    };
    // 8 %: the `zero-peak` class - balances that start at zero or below (and may stay negative)
    let zero_peak = rng.chance(8);
    let mut balances = if zero_peak {
        Balances {
            clock: 0,
            level: (0..m).map(|_| *rng.pick(&[0i64, 0, -10, -30, 20])).collect(),
            floor: Some(-40),
        }
    } else {
        Balances {
            clock: 0,
            level: (0..m).map(|_| *rng.pick(&[50i64, 100, 100, 200])).collect(),
            floor: None,
        }
    };
    for (a, l) in initial.iter().enumerate() {
        if let Some(l) = l {
            balances.level[a] = *l;
        }
    }
    let mut seen = vec![false; n];
    for _ in 0..len {
        if rng.chance(gen_pct) {
            let exotic = rng.chance(10);
            // on the direct path most requests mutate the generator, some run on a clone
            let op = if rng.chance(70) { "gen" } else { "peek" };
            out.line(format!("{op} {}", iv_tok(rng, exotic)));
        }
        if rng.chance(bal_pct) {
            if engine && rng.chance(25) {
                let k = rng.range(1, 4);
                let items: Vec<String> = (0..k).map(|_| balances.item(rng, m)).collect();
                out.line(format!("snap {}", items.join(" ")));
            } else {
                out.line(format!("bal {}", balances.item(rng, m)));
            }
        } else if engine {
            out.line(gen_rt(rng, n, &mut clock, bias, &mut seen, equal_losses));
        } else {
            out.line(gen_pos(rng, n, &mut clock, bias, &mut seen, equal_losses));
        }
    }
    let gens = rng.range(1, 3);
    for _ in 0..gens {
        let exotic = rng.chance(10);
        out.line(format!("gen {}", iv_tok(rng, exotic)));
    }
    // a final op on which the code panics (a panic ends the case)
    if rng.chance(5) {
        if engine {
            match rng.below(2) {
                0 => out.line(format!("bal {m} 1 1 1")),
                _ => out.line(format!("rt {n} B 100 1 101 0 0 1 2")),
            }
        } else {
            match rng.below(4) {
                0 => out.line(format!("pos {} 5 1 0 1", rng.below(n as u64))),
                1 => out.line(format!("pos {} 5 -1 100 0", rng.below(n as u64))),
                2 => out.line(format!("pos {n} 5 1 100 1")),
                _ => out.line(format!("bal {m} 1 1 1")),
            }
        }
    }
}

fn generate(seed: u64, n_cases: usize, tier: &str) {
    let mut out = Out::new();
    let mut rng = Rng::new(seed);
    fixed_vectors(&mut out);
    let mut id = 0usize;
    if tier == "thorough" {
        // small scope, exhaustive: one asset, every sequence of length <= 4 over
        // {four levels at the next time, one level at a STALE time, a summary request}, on both paths
        // second alphabet (the `zero-peak` class): totals 0, -5, 10, 5 - curves that start at or below zero
        let alphabets: [&[&str]; 2] = [
            &["L100", "L90", "L110", "L80", "stale", "gen"],
            &["L0", "L-5", "L10", "L5", "gen"],
        ];
        for (syms, mode) in alphabets.iter().flat_map(|s| [(*s, "engine"), (*s, "direct")]) {
            for len in 1..=4usize {
                let total = syms.len().pow(len as u32);
                for mut code in 0..total {
                    id += 1;
                    out.case(format!("x{id}"));
                    out.line(format!("init 1 2 {mode} 0"));
                    let mut t = 0i64;
                    for _ in 0..len {
                        let s = syms[code % syms.len()];
                        code /= syms.len();
                        match s {
                            "gen" => out.line("gen D"),
                            "stale" => out.line(format!("bal 0 {} 70 70", (t - 1500).max(0))),
                            level => {
                                t += 1000;
                                out.line(format!("bal 0 {t} {} {}", &level[1..], &level[1..]));
                            }
                        }
                    }
                    out.line("gen D");
                }
            }
        }
    }
    for _ in 0..n_cases {
        id += 1;
        out.case(format!("r{id}"));
        random_case(&mut rng, &mut out, tier);
    }
    domain_family(&mut out, seed, n_cases, tier);
    config_family(&mut out, seed, n_cases, tier);
    out.flush();
}

// ---------------------------------------------------------------- input-domain family (`d..` cases)
//
// Separately seeded, appended after the random cases (which stay exactly as they were): input classes
// of the public API the random cases never produce. One class per case, cycled by case number:
//   0 signed fees   (engine) maker REBATES (negative `Trade.fees`) on the opening and / or the closing fill of
//                   `rt`, on the opening fill of `flip` (its flipping fill stays free of fees, see gen_rt)
//   1 long          60-100 (thorough -150) closed positions on ONE instrument (direct / engine), requests
//                   only every ~25 events and at the end
//   2 odd balances  (both paths) free > total, free < 0, zero totals after positive ones, NEGATIVE and far
//                   exchange times, the first snapshot of an asset at a negative time, then equal / stale ones
//   3 snapshots     (engine) full account snapshots WITHOUT balances, with the same asset two to four times
//                   (equal, rising and falling times inside ONE snapshot), alternating with single ones
//   4 signs of cost (direct) negative entry price, negative size, both; the same record on two instruments
//   5 wide / empty  0 instruments (empty summary, requests only) or 4-5 instruments

fn dom_rt_signed(rng: &mut Rng, n: usize, clock: &mut Clock) -> String {
    let i = rng.below(n as u64) as usize;
    let (entry, qty) = *rng.pick(&NOTIONALS);
    let side = *rng.pick(&["B", "S"]);
    let pnl = rng.range(-20, 20);
    let e = parse_dec(entry);
    let delta = Decimal::from(pnl) / parse_dec(qty);
    let mut exit = if side == "B" { e + delta } else { e - delta };
    if exit <= Decimal::ZERO {
        exit = e;
    }
    let fee_in = dec_str(*rng.pick(&[-5i64, -2, -1, 0, 1, 5]), 1);
    let fee_out = dec_str(*rng.pick(&[-25i64, -10, -1, 0, 1, 25]), 2);
    let t_out = clock.next(rng, i);
    let t_in = t_out - rng.range(0, 3) * 1000;
    if rng.chance(20) {
        let t3 = t_out + *rng.pick(&[0i64, 1000, 60_000]);
        clock.now[i] = t3;
        format!("flip {i} {side} {entry} {qty} {} {fee_in} 0 {t_in} {t_out} {t3}", exit.normalize())
    } else {
        format!("rt {i} {side} {entry} {qty} {} {fee_in} {fee_out} {t_in} {t_out}", exit.normalize())
    }
}

fn domain_family(out: &mut Out, seed: u64, n_cases: usize, tier: &str) {
    let mut rng = Rng::new(seed ^ 0xD0_16_4B_D0);
    let rng = &mut rng;
    let thorough = tier == "thorough";
    let count = (n_cases / 8).max(6);
    for j in 0..count {
        out.case(format!("d{}", j + 1));
        let rf = *rng.pick(&["0", "0.0015", "0.001", "-0.0005"]);
        let new_clock = |rng: &mut Rng, n: usize| Clock {
            step: *rng.pick(&[1000i64, 60_000, 3_600_000, DAY, 7 * DAY]),
            whole: !rng.chance(25),
            now: vec![0; n],
        };
        match j % 6 {
            0 => {
                let n = rng.range(1, 3) as usize;
                out.line(format!("init {n} {} engine {rf}", n_assets(n)));
                let mut clock = new_clock(rng, n);
                for _ in 0..rng.range(2, 20) {
                    out.line(dom_rt_signed(rng, n, &mut clock));
                    if rng.chance(15) {
                        out.line(format!("gen {}", iv_tok(rng, false)));
                    }
                }
                out.line(format!("gen {}", iv_tok(rng, false)));
            }
            1 => {
                let engine = rng.chance(50);
                out.line(format!("init 1 2 {} {rf}", if engine { "engine" } else { "direct" }));
                let mut clock = new_clock(rng, 1);
                let bias = *rng.pick(&[0u64, 1, 3, 4, 4, 5]);
                let eq = rng.chance(30);
                let mut seen = vec![false; 1];
                let len = rng.range(60, if thorough { 150 } else { 100 });
                for k in 0..len {
                    if engine {
                        out.line(gen_rt(rng, 1, &mut clock, bias, &mut seen, eq));
                    } else {
                        out.line(gen_pos(rng, 1, &mut clock, bias, &mut seen, eq));
                    }
                    if k % 25 == 24 {
                        out.line(format!("{} {}", if rng.chance(70) { "gen" } else { "peek" }, iv_tok(rng, false)));
                    }
                }
                out.line("gen D");
                out.line(format!("gen {}", iv_tok(rng, false)));
            }
            2 => {
                let n = rng.range(1, 2) as usize;
                let m = n_assets(n);
                let engine = rng.chance(50);
                out.line(format!("init {n} {m} {} {rf}", if engine { "engine" } else { "direct" }));
                let mut t: i64 = *rng.pick(&[-86_400_000i64, -5000, -1, 0, 1_700_000_000_000]);
                let mut level = vec![0i64; m];
                for a in 0..m {
                    level[a] = *rng.pick(&[50i64, 100, 200]);
                }
                for _ in 0..rng.range(3, 25) {
                    let a = rng.below(m as u64) as usize;
                    t += *rng.pick(&[0i64, 0, -1000, -3000, 1000, 1000, 2000, 60_000]);
                    level[a] = (level[a] + *rng.pick(&[-30i64, -20, -10, 0, 10, 20, 40])).max(if rng.chance(10) { 0 } else { 10 });
                    let total = level[a];
                    let free = match rng.below(5) {
                        0 => total * 10,
                        1 => 0,
                        2 => -rng.range(1, 500),
                        3 => total * 10 + rng.range(1, 500),
                        _ => rng.range(0, total.max(1)) * 10,
                    };
                    out.line(format!("bal {a} {t} {total} {}", dec_str(free, 1)));
                    if rng.chance(20) {
                        out.line(format!("{} {}", if rng.chance(70) { "gen" } else { "peek" }, iv_tok(rng, false)));
                    }
                }
                out.line("gen D");
            }
            3 => {
                let n = rng.range(1, 3) as usize;
                let m = n_assets(n);
                out.line(format!("init {n} {m} engine {rf}"));
                let mut t = 0i64;
                let mut level = 100i64;
                if rng.chance(50) {
                    out.line("snap");
                    out.line("gen D");
                }
                for _ in 0..rng.range(2, 12) {
                    match rng.below(5) {
                        0 => out.line("snap"),
                        1 => {
                            t += 1000;
                            level = (level + *rng.pick(&[-20i64, -10, 10, 30])).max(10);
                            out.line(format!("bal {} {t} {level} {level}", rng.below(m as u64)));
                        }
                        _ => {
                            // the same asset several times in ONE snapshot
                            let a = rng.below(m as u64);
                            let k = rng.range(2, 4);
                            let mut items = vec![];
                            for _ in 0..k {
                                t += *rng.pick(&[0i64, 0, 1000, -1000, 2000]);
                                t = t.max(0);
                                level = (level + *rng.pick(&[-30i64, -10, 0, 10, 20])).max(10);
                                let who = if rng.chance(80) { a } else { rng.below(m as u64) };
                                items.push(format!("{who} {t} {level} {level}"));
                            }
                            out.line(format!("snap {}", items.join(" ")));
                        }
                    }
                    if rng.chance(25) {
                        out.line(format!("gen {}", iv_tok(rng, false)));
                    }
                }
                out.line("gen D");
            }
            4 => {
                let n = rng.range(2, 3) as usize;
                out.line(format!("init {n} {} direct {rf}", n_assets(n)));
                let mut clock = new_clock(rng, n);
                for _ in 0..rng.range(2, 20) {
                    let i = rng.below(n as u64) as usize;
                    let t = clock.next(rng, i);
                    let (entry, qty) = *rng.pick(&NOTIONALS);
                    let (se, sq) = *rng.pick(&[("-", ""), ("", "-"), ("-", "-"), ("-", "")]);
                    let pnl = if rng.chance(25) { 0 } else { rng.range(-20, 20) };
                    out.line(format!("pos {i} {t} {pnl} {se}{entry} {sq}{qty}"));
                    if rng.chance(30) {
                        let i2 = (i + 1) % n;
                        let t2 = clock.next(rng, i2);
                        out.line(format!("pos {i2} {t2} {pnl} {se}{entry} {sq}{qty}"));
                    }
                    if rng.chance(15) {
                        out.line(format!("{} {}", if rng.chance(70) { "gen" } else { "peek" }, iv_tok(rng, false)));
                    }
                }
                out.line("gen D");
            }
            _ => {
                let n = *rng.pick(&[0usize, 4, 5]);
                let m = n_assets(n);
                let engine = rng.chance(50);
                out.line(format!("init {n} {m} {} {rf}", if engine { "engine" } else { "direct" }));
                if n == 0 {
                    // (no `snap` here: without instruments the engine knows no exchange an account event could name)
                    out.line("gen D");
                    out.line(format!("gen {}", iv_tok(rng, true)));
                } else {
                    let mut clock = new_clock(rng, n);
                    let mut seen = vec![false; n];
                    let mut balances = Balances {
                        clock: 0,
                        level: (0..m).map(|_| *rng.pick(&[50i64, 100, 100, 200])).collect(),
                        floor: None,
                    };
                    for _ in 0..rng.range(3, 25) {
                        if rng.chance(30) {
                            out.line(format!("bal {}", balances.item(rng, m)));
                        } else if engine {
                            out.line(gen_rt(rng, n, &mut clock, 4, &mut seen, false));
                        } else {
                            out.line(gen_pos(rng, n, &mut clock, 4, &mut seen, false));
                        }
                    }
                    out.line("gen D");
                }
            }
        }
    }
}

// ---------------------------------------------------------- configuration-shape family (`cfg..` cases)
//
// Separately seeded, appended after the `d..` cases (which, like the random cases, stay exactly as they were):
// a STARTING STATE that is not empty. `initb` configures initial balances through
// `EngineStateBuilder::balances` for a subset of the assets (the builder applies each as a snapshot at
// `time_engine_start` through `AssetState::update_from_balance`): the first point of that asset's balance
// curve, a peak or not, stale for nothing, and what every later snapshot older than the engine start is
// stale against on the engine path. 10 % name an asset twice (a HashMap: the last one is kept, ONE point).
// Events as in the random cases; a quarter of the cases start with an immediate request.
fn config_family(out: &mut Out, seed: u64, n_cases: usize, tier: &str) {
    let mut rng = Rng::new(seed ^ 0xCF_16_0B_16);
    let count = (n_cases / 8).max(8);
    for j in 0..count {
        out.case(format!("cfg{}", j + 1));
        let n = rng.range(1, 3) as usize;
        let m = n_assets(n);
        let engine = j % 2 == 0;
        let rf = *rng.pick(&["0", "0.0015", "-0.0005", "0.02"]);
        let mut line = format!("initb {n} {m} {} {rf}", if engine { "engine" } else { "direct" });
        let mut picked: Vec<usize> = (0..m).filter(|_| rng.chance(60)).collect();
        if picked.is_empty() {
            picked.push(rng.below(m as u64) as usize);
        }
        if j % 4 >= 2 {
            picked.reverse();
        }
        if rng.chance(10) {
            picked.push(picked[0]);
        }
        let unknown = rng.chance(3);
        if unknown {
            picked.push(m);
        }
        let mut initial: Vec<Option<i64>> = vec![None; m];
        for a in picked {
            // mostly a positive level of the walk (the oracle speaks about the drawdowns), sometimes zero / negative
            let total = *rng.pick(&[50i64, 100, 100, 200, 200, 300, 0, -10]);
            let free = rng.range(0, total.max(1));
            if a < m {
                initial[a] = Some(total);
            }
            line.push_str(&format!(" {a} {} {}", dec_str(total, 0), dec_str(free * 10, 1)));
        }
        out.line(line);
        if unknown {
            continue;
        }
        if rng.chance(25) {
            out.line(format!("gen {}", iv_tok(&mut rng, false)));
        }
        if rng.chance(30) {
            // a snapshot from before the engine start for an asset with an initial balance
            let a = rng.below(m as u64);
            out.line(format!("bal {a} {} 500 1", -rng.range(1, 5) * 1000));
        }
        case_body(&mut rng, out, tier, n, m, engine, &initial);
    }
}

fn main() {
    let a = args();
    match a.cmd.as_str() {
        "gen" => generate(a.seed, a.n, &a.tier),
        "run" => run(),
        _ => {
            eprintln!("usage: c16k gen <seed> <n> <tier> | run < cases");
            std::process::exit(2)
        }
    }
}
