//! C10 — audit stream + state replica. Steps the real engine with `process_with_audit`, feeds every
//! `AuditTick` to a real `StateReplicaManager`, compares engine and replica after every record;
//! `runall sync|async` replays the whole history through `sync_run_with_audit` /
//! `async_run_with_audit` over a real channel and a real `StateReplicaManager::run`, optionally through a
//! faulty transport (`runall <runner> <drop|dup|late|swap>:<pos>`); `rep_dup` / `rep_gap` / `rep_old k` /
//! `rep_at s` deliver single records outside the engine's own order (syntax: `Driver/C10.lean`).
use barter::{
    engine::{
        audit::{AuditTick, Auditor, EngineAudit, state_replica::StateReplicaManager},
        process_with_audit,
        run::{async_run_with_audit, sync_run_with_audit},
        EngineOutput,
    },
    EngineEvent,
};
use barter_data::event::DataKind;
use barter_execution::order::request::{OrderRequestCancel, OrderRequestOpen};
use barter_integration::{
    Terminal,
    channel::{ChannelTxDroppable, mpsc_unbounded},
};
use vh::{engine_proto::*, engine_util::*, *};

type Audit = EngineAudit<EngineEvent<DataKind>, EngineOutput<(), ()>>;
type Tick = AuditTick<Audit>;
type Replica = StateReplicaManager<State, std::vec::IntoIter<Tick>>;
type Algo = (Vec<OrderRequestCancel>, Vec<OrderRequestOpen>);

fn states_equal_but_orders(a: &State, b: &State) -> bool {
    let mut a = a.clone();
    let mut b = b.clone();
    for s in a.instruments.0.values_mut() {
        s.orders.0.clear();
    }
    for s in b.instruments.0.values_mut() {
        s.orders.0.clear();
    }
    a == b
}

fn feed_replica(rep: &mut Replica, tick: Tick) -> &'static str {
    let before = rep.state_replica.context.sequence;
    rep.updates = vec![tick].into_iter();
    match rep.run() {
        Err(_) => "error",
        Ok(()) => {
            if rep.state_replica.context.sequence == before { "skipped" } else { "applied" }
        }
    }
}

fn run() {
    run_cases(|case, lines| {
        let mut world: Option<World> = None;
        let mut init_toks: Vec<String> = vec![];
        let mut replica: Option<Replica> = None;
        let mut algo: Option<Algo> = None;
        let mut last_tick: Option<Tick> = None;
        // every record the engine produced in this case, oldest first (`rep_old`)
        let mut all_ticks: Vec<Tick> = vec![];
        // history for `runall`: the events as built, with their strategy output
        let mut history: Vec<(Event, Option<Algo>)> = vec![];
        for op in case.ops.iter() {
            lines.push("@".into());
            match op[0].as_str() {
                "init" => {
                    let mut w = init_world(&op[1..]);
                    init_toks = op[1..].to_vec();
                    let snapshot = <TestEngine as Auditor<Audit>>::audit_snapshot(w.engine());
                    lines.push(format!("seq {}", snapshot.context.sequence.value()));
                    replica = Some(StateReplicaManager::new(snapshot, vec![].into_iter()));
                    observe_any(&w, &w.built.engine.state, "", lines);
                    world = Some(w);
                    algo = None;
                    history.clear();
                    all_ticks.clear();
                }
                "algo" => {
                    let w = world.as_ref().expect("init first");
                    algo = Some(parse_reqs(w, &op[1..]));
                    lines.push("algo-set".into());
                }
                "ev" => {
                    let w = world.as_mut().expect("init first");
                    let a = algo.take();
                    let event = match build_event(w, &op[1..]) {
                        Built2::Event(e, _) => e,
                        Built2::Panic => {
                            lines.push("panic".into());
                            continue;
                        }
                        Built2::Noop => {
                            lines.push("noop".into());
                            continue;
                        }
                    };
                    history.push((event.clone(), a.clone()));
                    if let Some(a) = a {
                        w.built.engine.strategy.script.borrow_mut().push_back(a);
                    }
                    let tick: Tick = process_with_audit(&mut w.built.engine, event);
                    w.built.engine.strategy.script.borrow_mut().clear();
                    for rx in w.built.rxs.iter_mut().flatten() {
                        drain(rx);
                    }
                    lines.push(format!("seq {}", tick.context.sequence.value()));
                    lines.push(format!("terminal {}", if tick.event.is_terminal() { 1 } else { 0 }));
                    // the event and the outputs the RECORD carries (not the event handed to the engine)
                    lines.push(format!("rec_ev {}", tick_digest(w, &tick)));
                    lines.push(format!("rec_out {}", tick_outputs(&tick)));
                    let rep = replica.as_mut().unwrap();
                    let res = feed_replica(rep, tick.clone());
                    all_ticks.push(tick.clone());
                    last_tick = Some(tick);
                    lines.push(format!("rep_step {res}"));
                    lines.push(format!("rep_seq {}", rep.state_replica.context.sequence.value()));
                    observe_any(w, &w.built.engine.state, "", lines);
                    observe_any(w, rep.replica_engine_state(), "rep_", lines);
                    lines.push(format!(
                        "rep_rest_eq {}",
                        if states_equal_but_orders(&w.built.engine.state, rep.replica_engine_state()) { 1 } else { 0 }
                    ));
                    // the property itself, evaluated on the two REAL states: the replica's orders equal the
                    // engine's once in-flight request markers are set aside (computed from the lines just
                    // printed: O(x) stays, C(x) is the open order under a cancel mark, F and C(-) are marks only)
                    lines.push(format!("rep_sync {}", orders_in_sync(lines, "ord", "rep_ord") as u8));
                }
                "rep_dup" | "rep_gap" => {
                    let w = world.as_ref().expect("init first");
                    let rep = replica.as_mut().unwrap();
                    let Some(mut tick) = last_tick.clone() else {
                        lines.push("no-tick".into());
                        continue;
                    };
                    if op[0] == "rep_gap" {
                        // a record two ahead of the last applied one: the one in between is missing
                        tick.context.sequence = barter::Sequence(rep.state_replica.context.sequence.value() + 2);
                    }
                    let res = feed_replica(rep, tick);
                    lines.push(format!("rep_step {res}"));
                    lines.push(format!("rep_seq {}", rep.state_replica.context.sequence.value()));
                    observe_any(w, rep.replica_engine_state(), "rep_", lines);
                }
                "rep_old" | "rep_at" => {
                    // `rep_old k`: the record produced k events before the last one, re-delivered unchanged
                    // (a record repeated LATER: must be skipped); `rep_at s`: the last record stamped with
                    // the absolute sequence s (0 = the snapshot's own number, far ahead, ...). A record that
                    // would be the valid successor (s = replica + 1) is a forged stream, not a faulty one:
                    // rejected as `bad-op` here and by the drivers.
                    let w = world.as_ref().expect("init first");
                    let rep = replica.as_mut().unwrap();
                    let arg: u64 = op[1].parse().expect("number");
                    let tick = if op[0] == "rep_old" {
                        all_ticks.len().checked_sub(1 + arg as usize).map(|i| all_ticks[i].clone())
                    } else {
                        last_tick.clone().map(|mut t| {
                            t.context.sequence = barter::Sequence(arg);
                            t
                        })
                    };
                    let Some(tick) = tick else {
                        lines.push("no-tick".into());
                        continue;
                    };
                    if tick.context.sequence.value() == rep.state_replica.context.sequence.value() + 1 {
                        lines.push("bad-op".into());
                        continue;
                    }
                    let res = feed_replica(rep, tick);
                    lines.push(format!("rep_step {res}"));
                    lines.push(format!("rep_seq {}", rep.state_replica.context.sequence.value()));
                    observe_any(w, rep.replica_engine_state(), "rep_", lines);
                }
                "runall" => {
                    // fresh engine, same configuration, whole history through the real runner
                    let mut w = init_world(&init_toks);
                    let snapshot = <TestEngine as Auditor<Audit>>::audit_snapshot(w.engine());
                    let tick_cell = w.built.engine.strategy.tick.clone();
                    {
                        let mut plan = w.built.engine.strategy.plan.borrow_mut();
                        for (k, (_, a)) in history.iter().enumerate() {
                            if let Some(a) = a {
                                plan.insert(k as u64 + 1, a.clone());
                            }
                        }
                    }
                    let events: Vec<Event> = history.iter().map(|(e, _)| e.clone()).collect();
                    let (tx, mut rx) = mpsc_unbounded::<Tick>();
                    let mut audit_tx = ChannelTxDroppable::new(tx);
                    let cell = tick_cell.clone();
                    let mut feed = events.into_iter().inspect(move |_| cell.set(cell.get() + 1));
                    let last: Audit = if op[1] == "sync" {
                        sync_run_with_audit(&mut feed, &mut w.built.engine, &mut audit_tx)
                    } else {
                        let rt = tokio::runtime::Builder::new_current_thread().build().unwrap();
                        let mut stream = futures::stream::iter(feed);
                        rt.block_on(async_run_with_audit(&mut stream, &mut w.built.engine, &mut audit_tx))
                    };
                    drop(audit_tx);
                    let mut ticks: Vec<Tick> = vec![];
                    while let Ok(t) = rx.rx.try_recv() {
                        ticks.push(t);
                    }
                    lines.push(format!(
                        "run_seqs {}",
                        ticks.iter().map(|t| t.context.sequence.value().to_string()).collect::<Vec<_>>().join(" ")
                    ));
                    lines.push(format!(
                        "run_terminal {}",
                        ticks.iter().map(|t| if t.event.is_terminal() { "1" } else { "0" }).collect::<Vec<_>>().join(" ")
                    ));
                    lines.push(format!(
                        "run_last {}",
                        match &last {
                            EngineAudit::FeedEnded => "feed-ended",
                            EngineAudit::Process(p) if !p.errors.is_empty() => "fatal",
                            EngineAudit::Process(p) if matches!(p.event, EngineEvent::Shutdown(_)) => "shutdown",
                            _ => "other",
                        }
                    ));
                    // the event every record received on the channel carries, in order
                    for t in ticks.iter() {
                        lines.push(format!("run_ev {}", tick_digest(&w, t)));
                    }
                    // optional fault between channel and replica: `drop|dup|late|swap:<first|mid|last|index>`
                    let fault = op.get(2).map(|m| mutate_stream(m, &mut ticks));
                    let mut rep: Replica = StateReplicaManager::new(snapshot, ticks.into_iter());
                    let res = rep.run();
                    lines.push(format!("run_rep {}", if res.is_ok() { "ok" } else { "err" }));
                    observe_any(&w, &w.built.engine.state, "run_", lines);
                    observe_any(&w, rep.replica_engine_state(), "run_rep_", lines);
                    // a replica that lost a record stops at a prefix of the run: the components outside the
                    // model (balances, connectivity, ...) are compared only when every record could be applied
                    if !matches!(fault, Some(Fault::Loses)) {
                        lines.push(format!(
                            "run_rep_rest_eq {}",
                            if states_equal_but_orders(&w.built.engine.state, rep.replica_engine_state()) { 1 } else { 0 }
                        ));
                    }
                    // the order clause on the two REAL final states of the run (as `rep_sync`; when the
                    // replica stopped with an error its state is the one it had reached)
                    lines.push(format!("run_rep_sync {}", orders_in_sync(lines, "run_ord", "run_rep_ord") as u8));
                }
                "resnap" => {
                    // CONFIGURATION SHAPE (cfg audit): a replica assembled from the snapshot of a RUNNING,
                    // pre-populated engine - orders (also in flight), positions, prices, balances, trading
                    // state as they are - whose sequence counter is > 0: `audit_snapshot` on the engine of
                    // the case, a fresh `StateReplicaManager::new` on it; the following `ev`s feed it
                    let w = world.as_mut().expect("init first");
                    let snapshot = <TestEngine as Auditor<Audit>>::audit_snapshot(w.engine());
                    lines.push(format!("seq {}", snapshot.context.sequence.value()));
                    let rep: Replica = StateReplicaManager::new(snapshot, vec![].into_iter());
                    lines.push(format!("rep_seq {}", rep.state_replica.context.sequence.value()));
                    lines.push(format!("rep_start {}", rep.meta_start.sequence.value()));
                    observe_any(w, rep.replica_engine_state(), "rep_", lines);
                    lines.push(format!(
                        "rep_rest_eq {}",
                        if states_equal_but_orders(&w.built.engine.state, rep.replica_engine_state()) { 1 } else { 0 }
                    ));
                    replica = Some(rep);
                }
                "runtwo" => {
                    // CONFIGURATION SHAPE (cfg audit): a SECOND run on the same engine. Fresh engine, the first
                    // k events of the history through the runner (own snapshot, own channel, own replica), then
                    // - whatever way that run ended - a second `audit_snapshot` of the same, now pre-populated
                    // engine (sequence > 0), a new channel, the rest of the feed (everything the first run did
                    // not consume) through the runner and a fresh replica on the second snapshot (optionally
                    // through a transport fault)
                    let mut w = init_world(&init_toks);
                    let k: usize = op[2].parse::<usize>().expect("k").min(history.len());
                    let tick_cell = w.built.engine.strategy.tick.clone();
                    {
                        let mut plan = w.built.engine.strategy.plan.borrow_mut();
                        for (j, (_, a)) in history.iter().enumerate() {
                            if let Some(a) = a {
                                plan.insert(j as u64 + 1, a.clone());
                            }
                        }
                    }
                    let rt = tokio::runtime::Builder::new_current_thread().build().unwrap();
                    let run_part = |w: &mut World, events: Vec<Event>, first_pos: u64| -> (Vec<Tick>, Audit) {
                        let (tx, mut rx) = mpsc_unbounded::<Tick>();
                        let mut audit_tx = ChannelTxDroppable::new(tx);
                        // strategy output is planned per feed position of the WHOLE history
                        tick_cell.set(first_pos);
                        let cell = tick_cell.clone();
                        let mut feed = events.into_iter().inspect(move |_| cell.set(cell.get() + 1));
                        let last: Audit = if op[1] == "sync" {
                            sync_run_with_audit(&mut feed, &mut w.built.engine, &mut audit_tx)
                        } else {
                            let mut stream = futures::stream::iter(feed);
                            rt.block_on(async_run_with_audit(&mut stream, &mut w.built.engine, &mut audit_tx))
                        };
                        drop(audit_tx);
                        let mut ticks: Vec<Tick> = vec![];
                        while let Ok(t) = rx.rx.try_recv() {
                            ticks.push(t);
                        }
                        (ticks, last)
                    };
                    let last_kind = |last: &Audit| match last {
                        EngineAudit::FeedEnded => "feed-ended",
                        EngineAudit::Process(p) if !p.errors.is_empty() => "fatal",
                        EngineAudit::Process(p) if matches!(p.event, EngineEvent::Shutdown(_)) => "shutdown",
                        _ => "other",
                    };
                    let seqs = |ticks: &[Tick]| ticks.iter().map(|t| t.context.sequence.value().to_string()).collect::<Vec<_>>().join(" ");
                    // run 1
                    let snapshot1 = <TestEngine as Auditor<Audit>>::audit_snapshot(w.engine());
                    let events1: Vec<Event> = history[..k].iter().map(|(e, _)| e.clone()).collect();
                    let (ticks1, last1) = run_part(&mut w, events1, 0);
                    let consumed1 = ticks1.iter().filter(|t| matches!(t.event, EngineAudit::Process(_))).count();
                    lines.push(format!("run1_seqs {}", seqs(&ticks1)));
                    lines.push(format!("run1_last {}", last_kind(&last1)));
                    let mut rep1: Replica = StateReplicaManager::new(snapshot1, ticks1.into_iter());
                    lines.push(format!("run1_rep {}", if rep1.run().is_ok() { "ok" } else { "err" }));
                    lines.push(format!(
                        "run1_rep_rest_eq {}",
                        if states_equal_but_orders(&w.built.engine.state, rep1.replica_engine_state()) { 1 } else { 0 }
                    ));
                    // run 2: snapshot of the engine as run 1 left it
                    let snapshot2 = <TestEngine as Auditor<Audit>>::audit_snapshot(w.engine());
                    lines.push(format!("snap2_seq {}", snapshot2.context.sequence.value()));
                    // the second run goes on with the rest of the SAME feed: whatever the first run did not
                    // consume (it consumed one event per `Process` record)
                    let c1 = consumed1.min(history.len());
                    let events2: Vec<Event> = history[c1..].iter().map(|(e, _)| e.clone()).collect();
                    let (mut ticks, last) = run_part(&mut w, events2, c1 as u64);
                    lines.push(format!("run_seqs {}", seqs(&ticks)));
                    lines.push(format!(
                        "run_terminal {}",
                        ticks.iter().map(|t| if t.event.is_terminal() { "1" } else { "0" }).collect::<Vec<_>>().join(" ")
                    ));
                    lines.push(format!("run_last {}", last_kind(&last)));
                    for t in ticks.iter() {
                        lines.push(format!("run_ev {}", tick_digest(&w, t)));
                    }
                    let fault = op.get(3).map(|m| mutate_stream(m, &mut ticks));
                    let mut rep: Replica = StateReplicaManager::new(snapshot2, ticks.into_iter());
                    let res = rep.run();
                    lines.push(format!("run_rep {}", if res.is_ok() { "ok" } else { "err" }));
                    lines.push(format!("run_rep_seq {}", rep.state_replica.context.sequence.value()));
                    observe_any(&w, &w.built.engine.state, "run_", lines);
                    observe_any(&w, rep.replica_engine_state(), "run_rep_", lines);
                    if !matches!(fault, Some(Fault::Loses)) {
                        lines.push(format!(
                            "run_rep_rest_eq {}",
                            if states_equal_but_orders(&w.built.engine.state, rep.replica_engine_state()) { 1 } else { 0 }
                        ));
                    }
                    lines.push(format!("run_rep_sync {}", orders_in_sync(lines, "run_ord", "run_rep_ord") as u8));
                }
                other => panic!("bad op {other}"),
            }
        }
    });
}

enum Fault {
    /// records only repeated: every one of them must be skipped
    Repeats,
    /// a record removed or delivered out of order
    Loses,
}

/// `runall <runner> <kind>:<pos>`: a fault of the transport between the audit channel and the replica.
/// `pos` = `first` | `mid` (= len / 2) | `last` | an index (clamped to the last record);
/// `drop` removes the record, `dup` repeats it immediately, `late` repeats it just before the final
/// record, `swap` exchanges it with its successor (nothing when it is the last one).
fn mutate_stream(m: &str, ticks: &mut Vec<Tick>) -> Fault {
    let (kind, pos) = m.split_once(':').expect("fault kind:pos");
    let n = ticks.len();
    let j = match pos {
        "first" => 0,
        "mid" => n / 2,
        "last" => n.saturating_sub(1),
        k => k.parse::<usize>().expect("index").min(n.saturating_sub(1)),
    };
    match kind {
        "drop" => {
            if j < n {
                ticks.remove(j);
            }
            Fault::Loses
        }
        "dup" => {
            if j < n {
                ticks.insert(j, ticks[j].clone());
            }
            Fault::Repeats
        }
        "late" => {
            if j < n {
                ticks.insert(n - 1, ticks[j].clone());
            }
            Fault::Repeats
        }
        "swap" => {
            if j + 1 < n {
                ticks.swap(j, j + 1);
            }
            Fault::Loses
        }
        other => panic!("bad fault {other}"),
    }
}

/// `rec_ev` / `run_ev`: digest of the event an audit record carries
fn tick_digest(w: &World, tick: &Tick) -> String {
    match &tick.event {
        EngineAudit::FeedEnded => "feed-ended".into(),
        EngineAudit::Process(p) => event_digest(w, &p.event),
    }
}

/// `rec_out`: kinds of the outputs an audit record carries
fn tick_outputs(tick: &Tick) -> String {
    match &tick.event {
        EngineAudit::FeedEnded => String::new(),
        EngineAudit::Process(p) => output_kinds(p.outputs.as_ref()).join(" "),
    }
}

/// `<eng_pfx><i> …` vs `<rep_pfx><i> …` (`ord`/`rep_ord`, `run_ord`/`run_rep_ord`) of the current
/// observation block, in-flight markers set aside
fn orders_in_sync(lines: &[String], eng_pfx: &str, rep_pfx: &str) -> bool {
    let start = lines.iter().rposition(|l| l == "@").map(|i| i + 1).unwrap_or(0);
    let strip = |l: &str| -> Vec<String> {
        l.split_whitespace()
            .skip(1)
            .filter_map(|t| {
                let (cid, st) = t.split_once(':')?;
                let inner = st.strip_prefix("O(").or_else(|| st.strip_prefix("C("))?.strip_suffix(')')?;
                (inner != "-").then(|| format!("{cid}:O({inner})"))
            })
            .collect()
    };
    let block = &lines[start..];
    block.iter().filter(|l| l.starts_with(eng_pfx)).all(|l| {
        let key = l.split_whitespace().next().unwrap();
        let rep_key = format!("{rep_pfx}{}", &key[eng_pfx.len()..]);
        block
            .iter()
            .find(|r| r.split_whitespace().next() == Some(rep_key.as_str()))
            .is_some_and(|r| strip(r) == strip(l))
    })
}

// ------------------------------------------------------------------------------- generation

/// filter of a `cancel_orders` / `close_positions` command: mostly the default, otherwise any of the
/// label-space forms (`none`, one or two exchanges, one or two instruments) so that the record's
/// command (`rec_ev`) is told apart by its payload
fn gen_filter(rng: &mut Rng, dflt: String, nex: usize, nins: usize) -> String {
    match rng.below(10) {
        0..=4 => dflt,
        5 => "none".into(),
        6 => format!("ex:{}", rng.below(nex as u64)),
        7 => format!("ex:{},{}", rng.below(nex as u64), rng.below(nex as u64)),
        8 => format!("ins:{}", rng.below(nins as u64)),
        _ => format!("ins:{},{}", rng.below(nins as u64), rng.below(nins as u64)),
    }
}

fn gen_case(rng: &mut Rng, out: &mut Out, tier: &str) {
    let nex = rng.range(1, 2) as usize;
    let links: String = (0..nex).map(|_| if rng.chance(80) { 'H' } else { ['C', 'M', 'U'][rng.below(3) as usize] }).collect();
    let mut defs: Vec<(usize, usize, usize)> = (0..nex).map(|e| (e, rng.below(3) as usize, 3)).collect();
    for _ in 0..rng.below(2) {
        defs.push((rng.below(nex as u64) as usize, rng.below(3) as usize, 3));
    }
    let nins = defs.len();
    out.line(format!(
        "init {} L {links} I {}",
        if rng.chance(60) { "on" } else { "off" },
        defs.iter().map(|(e, b, q)| format!("{e},{b},{q}")).collect::<Vec<_>>().join(" ")
    ));
    let len = rng.range(1, if tier == "thorough" { 40 } else { 22 });
    let mut has_pos = vec![false; nins];
    // client order ids are fresh per request unless the case is a deliberate "re-use" case
    // (1 in 8), where replication of orders is outside the hypothesis and the spec stays silent
    let reuse = rng.chance(12);
    let mut next_cid = 1u64;
    let mut fresh = |rng: &mut Rng| {
        if reuse && rng.chance(40) {
            1 + rng.below(3)
        } else {
            next_cid += 1;
            next_cid + 10
        }
    };
    let mut known: Vec<(usize, u64)> = vec![];
    // multi-step stories about ONE order (reported open, cancel requested twice, cancel rejected, ...)
    // need the same order to be picked again and again: half of the picks go to a focus order
    let focus_pct = *rng.pick(&[0u64, 50, 50, 75]);
    let pick_known = |rng: &mut Rng, known: &Vec<(usize, u64)>| -> (usize, u64) {
        if rng.chance(focus_pct) { known[0] } else { *rng.pick(known) }
    };
    for step in 0..len {
        let mut created_now: Vec<(usize, u64)> = vec![];
        if rng.chance(45) {
            let mut reqs: Vec<String> = vec![];
            for _ in 0..rng.below(3) {
                let ins = rng.below(nins as u64) as usize;
                let cid = fresh(rng);
                // known only AFTER this step's event: the event of the step must not be an exchange report
                // for an order whose request goes out in the very same tick (confirmed before requested)
                created_now.push((ins, cid));
                reqs.push(format!("o:{}:{ins}:{cid}:B:100:10", defs[ins].0));
            }
            if !known.is_empty() && rng.chance(40) {
                let (ins, cid) = pick_known(rng, &known);
                reqs.insert(0, format!("c:{}:{ins}:{cid}", defs[ins].0));
            }
            out.line(format!("algo {}", reqs.join(" ")).trim_end().to_string());
        }
        let i = rng.below(nins as u64) as usize;
        let line = match rng.below(100) {
            0..=11 => {
                let cid = fresh(rng);
                known.push((i, cid));
                format!("ev cmd_open o:{}:{i}:{cid}:B:100:10", defs[i].0)
            }
            12..=19 if !known.is_empty() => {
                let (ins, cid) = pick_known(rng, &known);
                format!("ev cmd_cancel c:{}:{ins}:{cid}", defs[ins].0)
            }
            20..=29 => format!("ev trading {}", if rng.chance(60) { "on" } else { "off" }),
            30..=52 if !known.is_empty() => {
                let (ins, cid) = pick_known(rng, &known);
                format!("ev snap {ins} {cid} 10 100 O {} {} {}", 1 + rng.below(2), rng.below(6), rng.pick(&[0, 5, 10]))
            }
            53..=58 if !known.is_empty() => {
                let (ins, cid) = pick_known(rng, &known);
                format!("ev snap {ins} {cid} 10 100 X 0 0 0")
            }
            59..=68 if !known.is_empty() => {
                let (ins, cid) = pick_known(rng, &known);
                format!("ev resp {ins} {cid} {}", if rng.chance(50) { "ok" } else { "err" })
            }
            69..=71 => "ev shutdown".into(),
            72..=77 => format!("ev cancel_orders {}", gen_filter(rng, "none".into(), nex, nins)),
            78..=81 => format!("ev close_positions {}", gen_filter(rng, format!("ins:{i}"), nex, nins)),
            82..=88 => {
                if has_pos[i] && rng.chance(40) {
                    format!("ev reduce {i}")
                } else if has_pos[i] {
                    has_pos[i] = false;
                    format!("ev flat {i}")
                } else {
                    has_pos[i] = true;
                    format!("ev fill {i} {} {}", if rng.chance(50) { "B" } else { "S" }, 1 + rng.below(3))
                }
            }
            89..=94 => format!(
                "ev other {} {}",
                rng.pick(&["mktre", "accre", "bal"]),
                rng.below(nex as u64)
            ),
            _ => format!("ev price {i} {}", 100 + rng.below(5)),
        };
        out.line(line);
        known.append(&mut created_now);
        if rng.chance(8) {
            out.line(if rng.chance(50) { "rep_dup" } else { "rep_gap" });
        }
        let _ = step;
    }
    if rng.chance(50) {
        out.line(format!("runall {}", if rng.chance(50) { "sync" } else { "async" }));
    }
}

// ------------------------------------------------ input-domain families (separately seeded)

const FAULTS: [&str; 10] = [
    "drop:first", "drop:mid", "drop:last", "dup:first", "dup:mid", "dup:last", "late:first", "late:mid", "swap:first",
    "swap:mid",
];

fn gen_wide_filter(rng: &mut Rng, nex: usize, nins: usize) -> String {
    match rng.below(12) {
        0..=2 => "none".into(),
        3 => format!("ex:{}", rng.below(nex as u64)),
        4 => format!("ex:{},{}", rng.below(nex as u64), rng.below(nex as u64)),
        // an exchange / instrument the engine does not have: a filter that matches nothing
        5 => format!("ex:{}", nex + rng.below(2) as usize),
        6 => format!("ins:{}", rng.below(nins as u64)),
        7 => format!("ins:{},{}", rng.below(nins as u64), rng.below(nins as u64)),
        8 => format!("ins:{}", nins + rng.below(3) as usize),
        9 => format!("und:{}-3", rng.below(3)),
        10 => format!("und:{}-3,{}-3", rng.below(3), rng.below(3)),
        _ => format!("und:{}-{}", rng.below(3), 4 + rng.below(2)),
    }
}

/// the wide family: everything the engine protocol can express and `gen_case` never draws - three
/// exchanges, the first instrument on a non-first exchange, requests on both sides with varied price /
/// quantity (fractions), for another / an unknown exchange, with an order id, refused by the risk manager
/// (cid >= 5000), commands with 0-3 requests, order snapshots with varied quantity / price, the in-flight
/// echo `F`, reports for orders the engine never heard of, `und:` and non-matching filters, fractional /
/// tiny / huge fills and prices, the replica ops `rep_old` / `rep_at` (also back to back), and runs through
/// a faulty transport. `long` = a run of some hundred events without a terminal one before the end.
fn gen_wide(rng: &mut Rng, out: &mut Out, tier: &str, long: bool) {
    let nex = if long { rng.range(1, 3) } else { rng.range(1, 3) } as usize;
    let links: String = (0..nex)
        .map(|_| if long || rng.chance(75) { 'H' } else { ['C', 'M', 'U'][rng.below(3) as usize] })
        .collect();
    let mut defs: Vec<(usize, usize, usize)> = (0..nex).map(|e| (e, rng.below(3) as usize, 3)).collect();
    for _ in 0..rng.below(3) {
        defs.push((rng.below(nex as u64) as usize, rng.below(3) as usize, 3));
    }
    // any order of the instruments: the first one need not be on the first exchange
    for k in (1..defs.len()).rev() {
        let j = rng.below(k as u64 + 1) as usize;
        defs.swap(k, j);
    }
    let nins = defs.len();
    out.line(format!(
        "init {} L {links} I {}",
        if rng.chance(60) { "on" } else { "off" },
        defs.iter().map(|(e, b, q)| format!("{e},{b},{q}")).collect::<Vec<_>>().join(" ")
    ));
    let len = if long { rng.range(150, 400) } else { rng.range(0, if tier == "thorough" { 40 } else { 22 }) };
    let mut has_pos = vec![false; nins];
    let mut next_cid = 10u64;
    let mut next_refused = 5000u64;
    let mut known: Vec<(usize, u64)> = vec![];
    let prices = ["100", "101", "99.5", "0.01", "100000000"];
    let qtys = ["10", "1", "0.5", "2.5", "0.00000001"];
    let mut nev = 0u64;
    for _ in 0..len {
        let ex_of = |rng: &mut Rng, ins: usize| match rng.below(100) {
            0..=84 => defs[ins].0,
            85..=94 => rng.below(nex as u64) as usize,
            // an exchange the engine does not have: a fatal index error (never in a `long` run)
            _ if !long => nex + rng.below(2) as usize,
            _ => defs[ins].0,
        };
        let mut created_now: Vec<(usize, u64)> = vec![];
        let mut open_req = |rng: &mut Rng, created: &mut Vec<(usize, u64)>, refusable: bool| {
            let ins = rng.below(nins as u64) as usize;
            let cid = if refusable && rng.chance(20) {
                next_refused += 1;
                next_refused
            } else {
                next_cid += 1;
                next_cid
            };
            created.push((ins, cid));
            format!(
                "o:{}:{ins}:{cid}:{}:{}:{}",
                ex_of(rng, ins),
                if rng.chance(50) { "B" } else { "S" },
                rng.pick(&prices),
                rng.pick(&qtys)
            )
        };
        let cancel_req = |rng: &mut Rng, known: &Vec<(usize, u64)>, refusable: bool| {
            let (ins, cid) = if known.is_empty() || rng.chance(15) {
                // a cancel for an order nobody ever opened
                (rng.below(nins as u64) as usize, if refusable && rng.chance(30) { 5900 + rng.below(3) } else { 900 + rng.below(3) })
            } else {
                *rng.pick(known)
            };
            if rng.chance(30) {
                format!("c:{}:{ins}:{cid}:{}", ex_of(rng, ins), 1 + rng.below(3))
            } else {
                format!("c:{}:{ins}:{cid}", ex_of(rng, ins))
            }
        };
        if rng.chance(45) {
            let mut reqs: Vec<String> = vec![];
            for _ in 0..rng.below(3) {
                reqs.push(cancel_req(rng, &known, true));
            }
            for _ in 0..rng.below(3) {
                reqs.push(open_req(rng, &mut created_now, true));
            }
            reqs.retain(|r| !r.starts_with("c:") || rng.chance(50));
            out.line(format!("algo {}", reqs.join(" ")).trim_end().to_string());
        }
        let i = rng.below(nins as u64) as usize;
        let pick_order = |rng: &mut Rng, known: &Vec<(usize, u64)>| -> (usize, u64) {
            if known.is_empty() || rng.chance(15) {
                // an order the engine never heard of
                (i, 700 + rng.below(4))
            } else if rng.chance(50) {
                known[0]
            } else {
                *rng.pick(known)
            }
        };
        let line = match rng.below(100) {
            0..=9 => {
                let reqs: Vec<String> = (0..rng.below(4)).map(|_| open_req(rng, &mut created_now, false)).collect();
                format!("ev cmd_open {}", reqs.join(" ")).trim_end().to_string()
            }
            10..=17 => {
                let reqs: Vec<String> = (0..rng.below(4)).map(|_| cancel_req(rng, &known, false)).collect();
                format!("ev cmd_cancel {}", reqs.join(" ")).trim_end().to_string()
            }
            18..=27 => format!("ev trading {}", if rng.chance(50) { "on" } else { "off" }),
            28..=47 => {
                let (ins, cid) = pick_order(rng, &known);
                match rng.below(20) {
                    0 => format!("ev snap {ins} {cid} {} {} F 0 0 0", rng.pick(&qtys), rng.pick(&prices)),
                    1..=4 => format!("ev snap {ins} {cid} {} {} X 0 0 0", rng.pick(&qtys), rng.pick(&prices)),
                    _ => format!(
                        "ev snap {ins} {cid} {} {} O {} {} {}",
                        rng.pick(&qtys),
                        rng.pick(&prices),
                        1 + rng.below(3),
                        rng.below(6),
                        rng.pick(&["0", "5", "10", "0.5", "0.00000001"])
                    ),
                }
            }
            48..=57 => {
                let (ins, cid) = pick_order(rng, &known);
                format!("ev resp {ins} {cid} {}", if rng.chance(50) { "ok" } else { "err" })
            }
            58..=60 if !long => "ev shutdown".into(),
            61..=67 => format!("ev cancel_orders {}", gen_wide_filter(rng, nex, nins)),
            68..=73 => format!("ev close_positions {}", gen_wide_filter(rng, nex, nins)),
            74..=83 => {
                if has_pos[i] && rng.chance(40) {
                    format!("ev reduce {i}")
                } else if has_pos[i] {
                    has_pos[i] = false;
                    format!("ev flat {i}")
                } else {
                    has_pos[i] = true;
                    format!(
                        "ev fill {i} {} {}",
                        if rng.chance(50) { "B" } else { "S" },
                        rng.pick(&["1", "2", "3", "0.5", "0.00000001", "1000000"])
                    )
                }
            }
            84..=92 => format!("ev other {} {}", rng.pick(&["mktre", "accre", "bal"]), rng.below(nex as u64)),
            _ => format!("ev price {i} {}", rng.pick(&["100", "101", "104", "99.5", "0.25", "1000000"])),
        };
        out.line(line);
        nev += 1;
        known.append(&mut created_now);
        // faults of the record transport, one or two in a row
        let mut k = if rng.chance(if long { 4 } else { 14 }) { 1 + rng.below(2) } else { 0 };
        while k > 0 {
            k -= 1;
            out.line(match rng.below(8) {
                0 => "rep_dup".to_string(),
                1 => "rep_gap".to_string(),
                2..=4 => format!("rep_old {}", rng.below(nev + 1)),
                5 => "rep_at 0".to_string(),
                6 => format!("rep_at {}", rng.below(nev + 1)),
                _ => format!("rep_at {}", rng.pick(&[nev + 3, nev + 100, 1 << 32, u64::MAX])),
            });
        }
    }
    if long {
        out.line("ev shutdown");
        out.line(format!("runall sync {}", rng.pick(&FAULTS)));
        out.line("runall async");
        return;
    }
    for _ in 0..rng.below(3) {
        let runner = if rng.chance(50) { "sync" } else { "async" };
        if rng.chance(60) {
            out.line(format!("runall {runner} {}", rng.pick(&FAULTS)));
        } else {
            out.line(format!("runall {runner}"));
        }
    }
}

/// directed cases: each runner x each way a run ends (feed ended, shutdown, fatal error) x the terminal
/// event first / in the middle / last, every run once clean and once through each transport fault; and the
/// empty run (snapshot, then the feed ends at once)
fn gen_directed(out: &mut Out) {
    let mut id = 0;
    for ending in ["feed", "shutdown", "fatal"] {
        for at in [0usize, 2, 4] {
            if ending == "feed" && at != 0 {
                continue;
            }
            id += 1;
            out.case(format!("d{id}_{ending}_{at}"));
            // exchange 1 is closed: any request for it ends the run with a fatal error
            out.line("init on L HC I 0,0,3 1,1,3");
            let body = ["ev price 0 101", "ev cmd_open o:0:0:11:B:100:10", "ev snap 0 11 10 100 O 1 1 0", "ev fill 0 B 2", "ev other bal 0"];
            for (k, b) in body.iter().enumerate() {
                if k == at {
                    match ending {
                        "shutdown" => out.line("ev shutdown"),
                        "fatal" => out.line("ev cmd_open o:1:1:12:S:100:1"),
                        _ => {}
                    }
                }
                out.line(b);
                if k == 2 {
                    out.line("rep_old 1");
                    out.line("rep_at 0");
                    out.line("rep_dup");
                    out.line("rep_gap");
                }
            }
            for runner in ["sync", "async"] {
                out.line(format!("runall {runner}"));
                for f in FAULTS {
                    out.line(format!("runall {runner} {f}"));
                }
            }
        }
    }
    for (k, init) in ["init on L H I 0,0,3", "init off L C I 0,1,3", "init on L HM I 0,0,3 1,1,3"].iter().enumerate() {
        out.case(format!("d_empty{k}"));
        out.line(init);
        out.line("rep_dup");
        out.line("rep_old 0");
        out.line("rep_at 0");
        for runner in ["sync", "async"] {
            out.line(format!("runall {runner}"));
            out.line(format!("runall {runner} drop:first"));
            out.line(format!("runall {runner} dup:last"));
        }
    }
}

/// CONFIGURATION-SHAPE family (cfg audit): the replica is assembled from the snapshot of a RUNNING engine.
/// (a) `resnap` = `audit_snapshot` of the case's engine after some history - orders confirmed and in
/// flight, positions, prices, a balance, trading on or off, sequence counter > 0 - and a fresh replica on
/// it, fed by the following records (also old records from before the snapshot: skipped; `rep_at 0` on a
/// snapshot whose number is not 0), one to three times per case, also twice in a row and as the very first
/// / very last op; (b) `runtwo <runner> <k> [fault]` = a second run on the same engine: events 0..k
/// through the runner, then a second snapshot, a new channel and the rest through the runner into a fresh
/// replica (k = 0: the first run is the empty run; k = len: the second one is; a terminal event inside
/// the first part: the second run starts on an engine that was shut down).
fn gen_cfg(rng: &mut Rng, out: &mut Out, tier: &str) {
    let nex = rng.range(1, 3) as usize;
    let links: String = (0..nex).map(|_| if rng.chance(80) { 'H' } else { ['C', 'M', 'U'][rng.below(3) as usize] }).collect();
    let mut defs: Vec<(usize, usize, usize)> = (0..nex).map(|e| (e, rng.below(3) as usize, 3)).collect();
    for _ in 0..rng.below(3) {
        defs.push((rng.below(nex as u64) as usize, rng.below(3) as usize, 3));
    }
    for k in (1..defs.len()).rev() {
        let j = rng.below(k as u64 + 1) as usize;
        defs.swap(k, j);
    }
    let nins = defs.len();
    out.line(format!(
        "init {} L {links} I {}",
        if rng.chance(60) { "on" } else { "off" },
        defs.iter().map(|(e, b, q)| format!("{e},{b},{q}")).collect::<Vec<_>>().join(" ")
    ));
    let len = rng.range(2, if tier == "thorough" { 30 } else { 16 }) as u64;
    // where the snapshots are taken: after `at` events (0 = of the fresh engine, len = after everything)
    let mut snaps: Vec<u64> = (0..rng.range(1, 3)).map(|_| rng.below(len + 1)).collect();
    if rng.chance(15) {
        let d = snaps[0];
        snaps.push(d);
    }
    let mut has_pos = vec![false; nins];
    let mut next_cid = 10u64;
    let mut known: Vec<(usize, u64)> = vec![];
    let mut nev = 0u64;
    for step in 0..=len {
        for _ in snaps.iter().filter(|a| **a == step) {
            out.line("resnap");
            if rng.chance(35) {
                out.line(match rng.below(5) {
                    0 => "rep_dup".to_string(),
                    1 => "rep_gap".to_string(),
                    2 => format!("rep_old {}", rng.below(nev + 1)),
                    3 => "rep_at 0".to_string(),
                    _ => format!("rep_at {}", rng.below(nev + 3)),
                });
            }
        }
        if step == len {
            break;
        }
        let mut created_now: Vec<(usize, u64)> = vec![];
        if rng.chance(50) {
            let mut reqs: Vec<String> = vec![];
            if !known.is_empty() && rng.chance(35) {
                let (ins, cid) = *rng.pick(&known);
                reqs.push(format!("c:{}:{ins}:{cid}", defs[ins].0));
            }
            for _ in 0..rng.range(1, 2) {
                let ins = rng.below(nins as u64) as usize;
                next_cid += 1;
                created_now.push((ins, next_cid));
                reqs.push(format!(
                    "o:{}:{ins}:{next_cid}:{}:{}:{}",
                    defs[ins].0,
                    if rng.chance(50) { "B" } else { "S" },
                    rng.pick(&["100", "99.5", "101"]),
                    rng.pick(&["10", "1", "0.5"])
                ));
            }
            out.line(format!("algo {}", reqs.join(" ")));
        }
        let i = rng.below(nins as u64) as usize;
        let line = match rng.below(100) {
            0..=9 => {
                next_cid += 1;
                created_now.push((i, next_cid));
                format!("ev cmd_open o:{}:{i}:{next_cid}:B:100:10", defs[i].0)
            }
            10..=15 if !known.is_empty() => {
                let (ins, cid) = *rng.pick(&known);
                format!("ev cmd_cancel c:{}:{ins}:{cid}", defs[ins].0)
            }
            16..=25 => format!("ev trading {}", if rng.chance(55) { "on" } else { "off" }),
            26..=47 if !known.is_empty() => {
                let (ins, cid) = if rng.chance(50) { known[0] } else { *rng.pick(&known) };
                format!("ev snap {ins} {cid} 10 100 O {} {} {}", 1 + rng.below(2), rng.below(6), rng.pick(&[0, 5, 10]))
            }
            48..=52 if !known.is_empty() => {
                let (ins, cid) = *rng.pick(&known);
                format!("ev snap {ins} {cid} 10 100 X 0 0 0")
            }
            53..=60 if !known.is_empty() => {
                let (ins, cid) = *rng.pick(&known);
                format!("ev resp {ins} {cid} {}", if rng.chance(50) { "ok" } else { "err" })
            }
            61..=63 => "ev shutdown".into(),
            64..=68 => format!("ev cancel_orders {}", gen_filter(rng, "none".into(), nex, nins)),
            69..=72 => format!("ev close_positions {}", gen_filter(rng, format!("ins:{i}"), nex, nins)),
            73..=84 => {
                if has_pos[i] && rng.chance(40) {
                    format!("ev reduce {i}")
                } else if has_pos[i] {
                    has_pos[i] = false;
                    format!("ev flat {i}")
                } else {
                    has_pos[i] = true;
                    format!("ev fill {i} {} {}", if rng.chance(50) { "B" } else { "S" }, rng.pick(&["1", "2", "0.5"]))
                }
            }
            85..=92 => format!("ev other {} {}", rng.pick(&["mktre", "accre", "bal"]), rng.below(nex as u64)),
            _ => format!("ev price {i} {}", rng.pick(&["100", "101", "99.5"])),
        };
        out.line(line);
        nev += 1;
        known.append(&mut created_now);
        if rng.chance(6) {
            out.line(if rng.chance(50) { "rep_dup" } else { "rep_gap" });
        }
    }
    for _ in 0..rng.range(1, 2) {
        let runner = if rng.chance(50) { "sync" } else { "async" };
        let k = match rng.below(6) {
            0 => 0,
            1 => len,
            2 => len + 2,
            _ => rng.below(len + 1),
        };
        if rng.chance(35) {
            out.line(format!("runtwo {runner} {k} {}", rng.pick(&FAULTS)));
        } else {
            out.line(format!("runtwo {runner} {k}"));
        }
    }
    if rng.chance(25) {
        out.line(format!("runall {}", if rng.chance(50) { "sync" } else { "async" }));
    }
}

/// NETTING family (`n<k>`): account trades on instruments that ALREADY hold a position (increase / reduce / exact
/// close / flip), the replica fed with repeated / stale / gapped records in between: the replica must follow the
/// NET position, and the record digest must name the trade that was delivered (`tradeBetween`).
fn gen_net(rng: &mut Rng, out: &mut Out, tier: &str) {
    let nex = rng.range(1, 2) as usize;
    let links: String = (0..nex).map(|_| if rng.chance(85) { 'H' } else { 'C' }).collect();
    let mut defs: Vec<(usize, usize, usize)> = (0..nex).map(|e| (e, rng.below(3) as usize, 3)).collect();
    for _ in 0..rng.below(2) {
        defs.push((rng.below(nex as u64) as usize, rng.below(3) as usize, 3));
    }
    let nins = defs.len();
    out.line(format!(
        "init {} L {links} I {}",
        if rng.chance(60) { "on" } else { "off" },
        defs.iter().map(|(e, b, q)| format!("{e},{b},{q}")).collect::<Vec<_>>().join(" ")
    ));
    for i in 0..nins {
        if rng.chance(80) {
            out.line(format!("ev price {i} {}", 100 + rng.below(4)));
        }
    }
    let len = rng.range(5, if tier == "thorough" { 30 } else { 16 });
    let mut nev = nins as u64;
    for _ in 0..len {
        let i = rng.below(nins as u64) as usize;
        let line = match rng.below(14) {
            0..=7 => {
                nev += 1;
                format!("ev fill {i} {} {}", if rng.chance(50) { "B" } else { "S" }, rng.pick(&["1", "2", "3", "0.5", "1.5", "4"]))
            }
            8 => {
                nev += 1;
                "ev close_positions none".to_string()
            }
            9 => "rep_dup".to_string(),
            10 => "rep_gap".to_string(),
            11 => format!("rep_old {}", rng.below(nev.min(6) + 1)),
            12 => format!("rep_at {}", rng.below(nev + 1)),
            _ => {
                nev += 1;
                format!("ev reduce {i}")
            }
        };
        out.line(line);
    }
}

fn generate(seed: u64, n_cases: usize, tier: &str) {
    let mut out = Out::new();
    let mut rng = Rng::new(seed);
    for id in 0..n_cases {
        out.case(format!("r{id}"));
        gen_case(&mut rng, &mut out, tier);
    }
    // input-domain families, seeded apart so that the random cases above stay what they were
    gen_directed(&mut out);
    let mut wrng = Rng::new(seed ^ 0x10D0_4A1D);
    for id in 0..n_cases / 2 {
        out.case(format!("w{id}"));
        gen_wide(&mut wrng, &mut out, tier, false);
    }
    let mut lrng = Rng::new(seed ^ 0x10D0_1046);
    for id in 0..(if tier == "thorough" { 12 } else { 2 }) {
        out.case(format!("l{id}"));
        gen_wide(&mut lrng, &mut out, tier, true);
    }
    // configuration-shape family (cfg audit), seeded apart: everything above stays what it was
    // netting family, seeded apart
    let mut nrng = Rng::new(seed ^ 0x4E77_0C10);
    for id in 0..(n_cases / 5).max(if n_cases > 0 { 10 } else { 0 }) {
        out.case(format!("n{id}"));
        gen_net(&mut nrng, &mut out, tier);
    }
    let mut crng = Rng::new(seed ^ 0xCF61_0C10);
    for id in 0..n_cases / 4 {
        out.case(format!("cfg{id}"));
        gen_cfg(&mut crng, &mut out, tier);
    }
    out.flush();
}

fn main() {
    let a = args();
    match a.cmd.as_str() {
        "gen" => generate(a.seed, a.n, &a.tier),
        "run" => run(),
        _ => {
            eprintln!("usage: c10 gen <seed> <n> <tier> | run < cases");
            std::process::exit(2)
        }
    }
}
