//! C19 — `Command::CancelOrders(filter)` / `Command::ClosePositions(filter)` of the real `Engine`
//! act on exactly the filtered scope (see `vh::engine_proto` for the protocol; this file is only
//! the generator).
//!
//! A case builds an engine state (2-3 exchanges x 1-3 instruments each, several underlyings; per
//! instrument a mix of in-flight / open / partially filled / cancel-in-flight orders, long / short /
//! no position, price known / unknown), then issues cancel-orders / close-positions commands with
//! every filter kind, frequently twice in a row, and finally observes all positions and orders with
//! unfiltered commands.
use barter::{
    engine::{
        Engine, Processor,
        clock::HistoricalClock,
        execution_tx::MultiExchangeTxMap,
        state::trading::TradingState,
    },
    execution::{builder::ExecutionHandles, request::ExecutionRequest},
    risk::DefaultRiskManager,
    strategy::DefaultStrategy,
    system::{System, SystemAuxillaryHandles},
};
use barter_instrument::{
    Underlying,
    index::IndexedInstruments,
    instrument::{
        Instrument, InstrumentIndex,
        kind::{
            InstrumentKind,
            future::FutureContract,
            option::{OptionContract, OptionExercise, OptionKind},
            perpetual::PerpetualContract,
        },
        quote::InstrumentQuoteAsset,
    },
};
use barter_integration::channel::{UnboundedRx, UnboundedTx, mpsc_unbounded};
use rust_decimal::Decimal;
use vh::{
    engine_proto::{Built2, World, build_event, event_digest, init_world, observe_state, parse_filter, parse_reqs, run_event},
    engine_util::*,
    *,
};

type Def = (usize, usize, usize);

fn init_line(trading: &str, links: &str, defs: &[Def]) -> String {
    format!(
        "init {trading} L {links} I {}",
        defs.iter().map(|(e, b, q)| format!("{e},{b},{q}")).collect::<Vec<_>>().join(" ")
    )
}

/// ops that put one order of class `class` with client order id `cid` on instrument `ins`
/// F: in flight, O: open, P: partially filled, G: in flight then acknowledged open,
/// C: open then cancel in flight (with id), D: in flight then cancel in flight (no id),
/// E: partially filled then cancel in flight (cancel sent without id)
fn order_ops(class: char, ex: usize, ins: usize, cid: u64, oid: u64, t: u64) -> Vec<String> {
    let open = format!("ev cmd_open o:{ex}:{ins}:{cid}:B:100:10");
    let snap = |filled: u64| format!("ev snap {ins} {cid} 10 100 O {oid} {t} {filled}");
    match class {
        'F' => vec![open],
        'O' => vec![snap(0)],
        'P' => vec![snap(5)],
        'G' => vec![open, snap(0)],
        'C' => vec![snap(0), format!("ev cmd_cancel c:{ex}:{ins}:{cid}:{oid}")],
        'D' => vec![open, format!("ev cmd_cancel c:{ex}:{ins}:{cid}")],
        'E' => vec![snap(5), format!("ev cmd_cancel c:{ex}:{ins}:{cid}")],
        _ => vec![],
    }
}

fn subset_nonempty(rng: &mut Rng, n: usize) -> Vec<usize> {
    loop {
        let v: Vec<usize> = (0..n).filter(|_| rng.chance(50)).collect();
        if !v.is_empty() {
            return v;
        }
    }
}

fn join(v: &[usize]) -> String {
    v.iter().map(|x| x.to_string()).collect::<Vec<_>>().join(",")
}

const BASES: [usize; 3] = [0, 1, 2];
const QUOTES: [usize; 2] = [3, 4];

fn gen_filter(rng: &mut Rng, nex: usize, nins: usize, defs: &[Def]) -> String {
    match rng.below(100) {
        0..=14 => "none".into(),
        15..=42 => {
            let mut v = subset_nonempty(rng, nex);
            if rng.chance(10) {
                v.push(nex + rng.below(2) as usize); // an exchange the engine does not know
            }
            if rng.chance(10) {
                v.push(v[0]); // duplicate entry
            }
            format!("ex:{}", join(&v))
        }
        43..=70 => {
            let mut v = subset_nonempty(rng, nins);
            if rng.chance(10) {
                v.push(nins + rng.below(2) as usize); // an instrument the engine does not know
            }
            if rng.chance(10) {
                v.push(v[0]);
            }
            format!("ins:{}", join(&v))
        }
        _ => {
            // mostly underlyings that exist in this engine, sometimes any pair of the asset alphabet
            let mut pairs: Vec<String> = vec![];
            for d in defs {
                let p = format!("{}-{}", d.1, d.2);
                if rng.chance(40) && !pairs.contains(&p) {
                    pairs.push(p);
                }
            }
            for b in BASES {
                for q in QUOTES {
                    if rng.chance(10) {
                        pairs.push(format!("{b}-{q}"));
                    }
                }
            }
            if pairs.is_empty() {
                pairs.push(format!("{}-{}", rng.pick(&BASES), rng.pick(&QUOTES)));
            }
            if rng.chance(8) {
                pairs.push("3-0".into()); // reversed pair: names no instrument
            }
            format!("und:{}", pairs.join(","))
        }
    }
}

/// `dom`: `None` = the original random case (rng consumption unchanged); `Some(class)` = one of the
/// input classes the original generator never produced (input-domain audit):
///  0 reversed-pair underlyings (an instrument a3/a0 next to a0/a3; `und:0-3` must not match the former);
///  1 decimal quantities and prices (1e-8 .. 1e7, fractions; prices that are exact as f64);
///  2 engines with ONE exchange or with 4-5 exchanges;
///  3 positions closed again (`flat`) before the command, some re-opened on the other side;
///  4 a tracked order whose client order id equals the id the close-position order will get (9000+i);
///  5 the same command three times in a row; market price 0;
///  6 NETTING: several account trades on one instrument before the command (increase / reduce / exact close /
///    flip of the open position: `Position::update_from_trade`'s four arms at the engine level).
///
/// `cfg`: `Some(rng)` = configuration-shape family: a `cfg K <kinds> V <direct|system>` line (drawn from
/// that separate stream) precedes `init`, and half of the cases wire unhealthy / closed / missing links.
fn gen_case(rng: &mut Rng, out: &mut Out, tier: &str, dom: Option<u64>, mut cfg: Option<&mut Rng>) {
    let nex = match dom {
        Some(2) => *rng.pick(&[1usize, 1, 4, 5]),
        _ => rng.range(2, 3) as usize,
    };
    let all_healthy = match cfg.as_mut() {
        Some(c) => c.chance(50),
        None => rng.chance(75),
    };
    let links: String = if all_healthy {
        "H".repeat(nex)
    } else {
        (0..nex)
            .map(|_| match rng.below(100) {
                0..=54 => 'H',
                55..=69 => 'C',
                70..=84 => 'U',
                _ => 'M',
            })
            .collect()
    };
    // 1-3 instruments per exchange, few distinct underlyings (collisions across exchanges)
    let mut defs: Vec<Def> = vec![];
    for e in 0..nex {
        for _ in 0..rng.range(1, 3) {
            let q = if rng.chance(70) { 3 } else { 4 };
            let b = *rng.pick(&BASES);
            if dom == Some(0) && rng.chance(50) {
                // reversed pair (quote/base swapped), mostly of the pair 0-3 so that both directions exist
                if rng.chance(70) { defs.push((e, 3, 0)) } else { defs.push((e, q, b)) }
            } else if dom == Some(0) {
                defs.push((e, 0, 3));
            } else {
                defs.push((e, b, q));
            }
        }
    }
    // instruments stay grouped by exchange label: `IndexedInstruments` sorts by (exchange, name), and the
    // shared protocol identifies instrument label k with the k-th InstrumentIndex only in that order
    // (close-position requests are printed in the engine's iteration order)
    let nins = defs.len();
    let trading = if rng.chance(30) { "on" } else { "off" };
    if let Some(c) = cfg.as_mut() {
        // kinds: all spot (system path only), one family for all, or mixed per instrument
        let kinds: String = match c.below(4) {
            0 => "S".repeat(nins),
            1 => c.pick(&["P", "p", "F", "O"]).repeat(nins),
            _ => (0..nins).map(|_| *c.pick(&['S', 'P', 'p', 'F', 'O'])).collect(),
        };
        let via = if kinds.chars().all(|k| k == 'S') || c.chance(50) { "system" } else { "direct" };
        out.line(format!("cfg K {kinds} V {via}"));
    }
    out.line(init_line(trading, &links, &defs));

    // ---- state building: per-instrument op scripts, then interleaved at random
    let mut scripts: Vec<Vec<String>> = vec![];
    for (i, d) in defs.iter().enumerate() {
        let mut s: Vec<String> = vec![];
        let norders = *rng.pick(&[0usize, 1, 2, 2, 3, 4]);
        for _ in 0..norders {
            let cid = 1 + rng.below(5);
            let class = *rng.pick(&['F', 'O', 'P', 'G', 'C', 'D', 'E', 'F', 'O']);
            // mostly the instrument's own exchange; rarely a request addressed elsewhere
            let ex = if rng.chance(6) { rng.below(nex as u64) as usize } else { d.0 };
            s.extend(order_ops(class, ex, i, cid, 1 + rng.below(3), rng.below(4)));
        }
        let dom_qty = |rng: &mut Rng| -> String {
            rng.pick(&["0.00000001", "0.3", "1234567.891", "0.00000123", "2.5", "10000000", "0.125", "99999.99999999"]).to_string()
        };
        match rng.below(10) {
            0..=3 if dom != Some(3) && dom != Some(6) => {}
            0..=6 => {
                let q = if dom == Some(1) { dom_qty(rng) } else { (1 + rng.below(3)).to_string() };
                s.push(format!("ev fill {i} B {q}"))
            }
            _ => {
                let q = if dom == Some(1) { dom_qty(rng) } else { (1 + rng.below(3)).to_string() };
                s.push(format!("ev fill {i} S {q}"))
            }
        }
        if dom == Some(6) {
            // NETTING: further account trades on the instrument that already holds the position: same side
            // (increase), opposite side with a smaller / equal / larger quantity (reduce, exact close, flip)
            for _ in 0..rng.range(1, 3) {
                let side = if rng.chance(50) { "B" } else { "S" };
                s.push(format!("ev fill {i} {side} {}", rng.pick(&["1", "2", "3", "0.5", "4", "1.5"])));
            }
        }
        if dom == Some(3) && rng.chance(70) {
            // closed again before the command; sometimes re-opened on the other side
            let was_buy = s.last().map(|l| l.contains(" B ")).unwrap_or(false);
            s.push(format!("ev flat {i}"));
            if rng.chance(35) {
                s.push(format!("ev fill {i} {} {}", if was_buy { "S" } else { "B" }, 1 + rng.below(3)));
            }
        }
        if dom == Some(4) && rng.chance(60) {
            // an order tracked under the client order id of the future close-position order
            let class = *rng.pick(&['F', 'O', 'P', 'C', 'D']);
            s.extend(order_ops(class, d.0, i, 9000 + i as u64, 7, 1));
        }
        // a third of the positions were partially reduced before the command (open quantity below the
        // peak quantity ever held)
        if s.last().map(|l| l.starts_with("ev fill")).unwrap_or(false) && rng.chance(35) {
            s.push(format!("ev reduce {i}"));
        }
        if rng.chance(75) {
            let at = rng.below(s.len() as u64 + 1) as usize;
            let p = match dom {
                // exact as f64 (the market event carries an f64 price)
                Some(1) => rng.pick(&["0.5", "100.25", "0.0009765625", "65536.125", "12345678", "0.015625"]).to_string(),
                Some(5) if rng.chance(40) => "0".to_string(),
                _ => (100 + rng.below(4)).to_string(),
            };
            s.insert(at, format!("ev price {i} {p}"));
        }
        scripts.push(s);
    }
    let mut has_pos: Vec<bool> = scripts
        .iter()
        .map(|s| {
            // the last fill / flat of the script decides (scripts of the original generator have no flat)
            s.iter().rev().find(|l| l.starts_with("ev fill") || l.starts_with("ev flat")).map(|l| l.starts_with("ev fill")).unwrap_or(false)
        })
        .collect();
    let mut cursors = vec![0usize; nins];
    loop {
        let live: Vec<usize> = (0..nins).filter(|i| cursors[*i] < scripts[*i].len()).collect();
        if live.is_empty() {
            break;
        }
        let i = *rng.pick(&live);
        out.line(&scripts[i][cursors[i]]);
        cursors[i] += 1;
    }

    // ---- commands
    let ncmd = rng.range(1, if tier == "thorough" { 6 } else { 4 });
    for _ in 0..ncmd {
        let f = gen_filter(rng, nex, nins, &defs);
        let cmd = if rng.chance(55) { "cancel_orders" } else { "close_positions" };
        out.line(format!("ev {cmd} {f}"));
        if rng.chance(60) {
            // the same command again while the first is still in flight
            out.line(format!("ev {cmd} {f}"));
            if dom == Some(5) {
                out.line(format!("ev {cmd} {f}"));
            }
        }
        // sometimes the world moves on between commands
        if rng.chance(35) {
            let i = rng.below(nins as u64) as usize;
            let cid = 1 + rng.below(5);
            let line = match rng.below(7) {
                0 => format!("ev resp {i} {cid} ok"),
                1 => format!("ev resp {i} {cid} err"),
                2 => format!("ev snap {i} {cid} 10 100 X 0 0 0"),
                3 => format!("ev snap {i} {cid} 10 100 O {} {} {}", 1 + rng.below(3), rng.below(5), rng.pick(&[0, 5])),
                4 => format!("ev price {i} {}", 100 + rng.below(4)),
                5 => {
                    if has_pos[i] && rng.chance(50) {
                        format!("ev reduce {i}")
                    } else if has_pos[i] {
                        has_pos[i] = false;
                        format!("ev flat {i}")
                    } else {
                        has_pos[i] = true;
                        format!("ev fill {i} {} {}", if rng.chance(50) { "B" } else { "S" }, 1 + rng.below(3))
                    }
                }
                _ => format!("ev cmd_open o:{}:{i}:{cid}:S:101:2", defs[i].0),
            };
            out.line(line);
        }
    }
    // ---- observe every position / price and every order through unfiltered commands
    if rng.chance(70) {
        out.line("ev close_positions none");
    }
    if rng.chance(50) {
        out.line("ev cancel_orders none");
    }
}

/// thorough tier: every filter over every small state.
/// instruments i0 = (ex0, a0/a3), i1 = (ex1, a1/a3) or (ex1, a0/a3) or (ex0, a1/a4);
/// per instrument an order class and a position class; every filter (none, all subsets of
/// exchanges / instruments / underlyings incl. ones naming nothing); both commands, each twice.
fn exhaustive(out: &mut Out) {
    let layouts: [[Def; 2]; 3] = [[(0, 0, 3), (1, 1, 3)], [(0, 0, 3), (1, 0, 3)], [(0, 0, 3), (0, 1, 4)]];
    // order classes: list of (class, cid)
    let order_classes: [&[(char, u64)]; 5] = [
        &[],
        &[('F', 1)],
        &[('P', 2)],
        &[('C', 1)],
        &[('F', 1), ('O', 2), ('D', 3), ('E', 4)],
    ];
    // position classes: (fill side, price known)
    let pos_classes: [(Option<&str>, bool); 4] = [(None, true), (Some("B"), true), (Some("S"), true), (Some("B"), false)];
    let filters: Vec<String> = [
        "none", "ex:0", "ex:1", "ex:0,1", "ex:5", "ins:0", "ins:1", "ins:1,0", "ins:7", "und:0-3", "und:1-3",
        "und:0-3,1-3", "und:1-4", "und:2-4,3-0",
    ]
    .iter()
    .map(|s| s.to_string())
    .collect();
    let mut id = 0usize;
    for (li, layout) in layouts.iter().enumerate() {
        // the full product for the first layout, a diagonal slice for the others
        for (oa, ca) in order_classes.iter().enumerate() {
            for (ob, cb) in order_classes.iter().enumerate() {
                for (pa, posa) in pos_classes.iter().enumerate() {
                    for (pb, posb) in pos_classes.iter().enumerate() {
                        if li > 0 && (oa + ob + pa + pb) % 4 != li {
                            continue;
                        }
                        for f in filters.iter() {
                            id += 1;
                            out.case(format!("x{id}"));
                            let links = if layout.iter().any(|d| d.0 == 1) { "HH" } else { "H" };
                            out.line(init_line("off", links, layout));
                            for (i, (classes, pos)) in [(ca, posa), (cb, posb)].iter().enumerate() {
                                for (class, cid) in classes.iter() {
                                    for l in order_ops(*class, layout[i].0, i, *cid, 10 + *cid, 1) {
                                        out.line(l);
                                    }
                                }
                                if let Some(side) = pos.0 {
                                    out.line(format!("ev fill {i} {side} {}", 2 + i));
                                }
                                if pos.1 {
                                    out.line(format!("ev price {i} {}", 100 + i));
                                }
                            }
                            out.line(format!("ev cancel_orders {f}"));
                            out.line(format!("ev cancel_orders {f}"));
                            out.line(format!("ev close_positions {f}"));
                            out.line(format!("ev close_positions {f}"));
                            out.line("ev close_positions none");
                            out.line("ev cancel_orders none");
                        }
                    }
                }
            }
        }
    }
}

// ---------------------------------------------------------------------------------------------
// Configuration shapes (configuration-shape audit), interpreted by THIS binary before the shared
// protocol takes over:
//   `cfg K <letters> V <direct|system>`   before `init`
// K: one letter per instrument of the following `init` line, in label order - how that instrument is
//    declared to the engine: S spot, P perpetual (settled in its quote asset), p perpetual quoted in its
//    BASE asset and settled in an asset `a5` that no underlying names, F future, O option (settled in `a5`).
//    The engine state, the filters and both commands are the same for every kind (a position is a position).
// V: `system` = every cancel_orders / close_positions command is ALSO issued through a real
//    `barter::system::System` handle (`System::cancel_orders` / `System::close_positions`, which send on
//    `feed_tx`); what arrives on the engine's feed is printed (`sysfeed <event digest>`) and compared with
//    the command event the protocol processes (`syseq 1`).
// Without a `cfg` line a case runs exactly as before.

struct Cfg {
    kinds: Option<Vec<char>>,
    system: bool,
}

fn parse_cfg(toks: &[String]) -> Option<Cfg> {
    if toks.len() != 4 || toks[0] != "K" || toks[2] != "V" {
        return None;
    }
    if !toks[1].chars().all(|c| "SPpFO".contains(c)) {
        return None;
    }
    let system = match toks[3].as_str() {
        "direct" => false,
        "system" => true,
        _ => return None,
    };
    Some(Cfg { kinds: Some(toks[1].chars().collect()), system })
}

/// `engine_proto::init_world` with the instrument kinds of `kinds` (same labels, same names, same links)
fn init_world_kinds(toks: &[String], kinds: &[char]) -> World {
    let trading = if toks[0] == "on" { TradingState::Enabled } else { TradingState::Disabled };
    assert_eq!(toks[1], "L");
    let links: Vec<Link> = toks[2]
        .chars()
        .map(|c| match c {
            'H' => Link::Healthy,
            'C' => Link::Closed,
            'U' => Link::Unhealthy,
            _ => Link::Missing,
        })
        .collect();
    assert_eq!(toks[3], "I");
    let defs: Vec<(usize, usize, usize)> = toks[4..]
        .iter()
        .map(|t| {
            let v: Vec<usize> = t.split(',').map(|x| x.parse().unwrap()).collect();
            (v[0], v[1], v[2])
        })
        .collect();
    let expiry = time_ms(86_400_000);
    let mut builder = IndexedInstruments::builder();
    for (k, (ex, base, quote)) in defs.iter().enumerate() {
        let (base, quote) = (format!("a{base}"), format!("a{quote}"));
        let other = "a5".to_string();
        let (quote_asset, kind) = match kinds[k] {
            'P' => (
                InstrumentQuoteAsset::UnderlyingQuote,
                InstrumentKind::Perpetual(PerpetualContract { contract_size: Decimal::from(10), settlement_asset: quote.clone().into() }),
            ),
            'p' => (
                InstrumentQuoteAsset::UnderlyingBase,
                InstrumentKind::Perpetual(PerpetualContract { contract_size: Decimal::new(1, 3), settlement_asset: other.into() }),
            ),
            'F' => (
                InstrumentQuoteAsset::UnderlyingQuote,
                InstrumentKind::Future(FutureContract { contract_size: Decimal::from(100), settlement_asset: quote.clone().into(), expiry }),
            ),
            'O' => (
                InstrumentQuoteAsset::UnderlyingQuote,
                InstrumentKind::Option(OptionContract {
                    contract_size: Decimal::from(5),
                    settlement_asset: other.into(),
                    kind: OptionKind::Put,
                    exercise: OptionExercise::European,
                    expiry,
                    strike: Decimal::from(100),
                }),
            ),
            _ => (InstrumentQuoteAsset::UnderlyingQuote, InstrumentKind::Spot),
        };
        builder = builder.add_instrument(Instrument::new(
            EXCHANGES[*ex],
            format!("i{k}"),
            format!("I{k}"),
            Underlying::new(base, quote),
            quote_asset,
            kind,
            None,
        ));
    }
    let instruments = builder.build();
    let ex_idx: Vec<usize> = (0..links.len())
        .map(|l| instruments.exchanges().iter().position(|e| e.value == EXCHANGES[l]).expect("every exchange label has an instrument"))
        .collect();
    let mut by_index = vec![Link::Healthy; links.len()];
    for (label, idx) in ex_idx.iter().enumerate() {
        by_index[*idx] = links[label];
    }
    let built = build_engine(&instruments, &by_index, trading);
    let ins_idx: Vec<usize> = (0..defs.len())
        .map(|k| built.engine.state.instruments.0.values().position(|s| s.instrument.name_internal.name().as_str() == format!("i{k}")).unwrap())
        .collect();
    // the kinds really are in the engine state
    for (k, idx) in ins_idx.iter().enumerate() {
        let kind = &built.engine.state.instruments.instrument_index(&InstrumentIndex(*idx)).instrument.kind;
        let ok = match kinds[k] {
            'P' | 'p' => matches!(kind, InstrumentKind::Perpetual(_)),
            'F' => matches!(kind, InstrumentKind::Future(_)),
            'O' => matches!(kind, InstrumentKind::Option(_)),
            _ => matches!(kind, InstrumentKind::Spot),
        };
        assert!(ok, "instrument kind of i{k}");
    }
    World { built, ex_idx, ins_idx, defs, links, tick: 0 }
}

/// The engine type a `System` handle is parameterised with here (never run: the handle only needs its
/// `feed_tx`; the commands it sends are processed by the case's own engine).
type SysEngine = Engine<HistoricalClock, State, MultiExchangeTxMap<UnboundedTx<ExecutionRequest>>, DefaultStrategy<State>, DefaultRiskManager<State>>;

struct Sys {
    _rt: tokio::runtime::Runtime,
    system: System<SysEngine, Event>,
    feed_rx: UnboundedRx<Event>,
}

fn build_sys() -> Sys {
    let rt = tokio::runtime::Builder::new_current_thread().build().expect("runtime");
    let (feed_tx, feed_rx) = mpsc_unbounded::<Event>();
    let engine = rt.spawn(std::future::pending::<(SysEngine, <SysEngine as Processor<Event>>::Audit)>());
    let system = System {
        engine,
        handles: SystemAuxillaryHandles {
            execution: ExecutionHandles { mock_exchanges: vec![], managers: vec![], account_to_engines: vec![] },
            market_to_engine: rt.spawn(async {}),
            account_to_engine: rt.spawn(async {}),
        },
        feed_tx,
        audit: None,
    };
    Sys { _rt: rt, system, feed_rx }
}

fn run_case_cfg(case: &Case, lines: &mut Vec<String>) {
    // a case without a `cfg` line is the shared protocol's, unchanged
    if !case.ops.iter().any(|op| op[0] == "cfg") {
        return vh::engine_proto::run_case(case, lines);
    }
    let mut world: Option<World> = None;
    let mut algo = None;
    let mut cfg = Cfg { kinds: None, system: false };
    let mut sys: Option<Sys> = None;
    for op in case.ops.iter() {
        lines.push("@".into());
        match op[0].as_str() {
            "cfg" => match parse_cfg(&op[1..]) {
                Some(c) => {
                    if c.system && sys.is_none() {
                        sys = Some(build_sys());
                    }
                    cfg = c;
                    // a configuration line opens a new set-up: the next `init` builds its engine
                    world = None;
                    lines.push("cfg-set".into());
                }
                None => lines.push("bad-op".into()),
            },
            "init" => {
                let w = match cfg.kinds.take() {
                    Some(k) => {
                        if op.len() < 5 || k.len() != op.len() - 5 {
                            lines.push("bad-op".into());
                            continue;
                        }
                        init_world_kinds(&op[1..], &k)
                    }
                    None => init_world(&op[1..]),
                };
                observe_state(&w, lines);
                world = Some(w);
                algo = None;
            }
            // before `init` (only reachable in hand-written / minimised cases): rejected, as in the driver
            "algo" | "ev" if world.is_none() => lines.push("bad-op".into()),
            "algo" => {
                let w = world.as_ref().expect("init first");
                algo = Some(parse_reqs(w, &op[1..]));
                lines.push("algo-set".into());
            }
            "ev" => {
                let w = world.as_mut().expect("init first");
                if let (true, Some(sys)) = (cfg.system, sys.as_mut()) {
                    if op.len() == 3 && (op[1] == "cancel_orders" || op[1] == "close_positions") {
                        let filter = parse_filter(w, &op[2]);
                        if op[1] == "cancel_orders" {
                            sys.system.cancel_orders(filter);
                        } else {
                            sys.system.close_positions(filter);
                        }
                        let got: Vec<Event> = std::iter::from_fn(|| sys.feed_rx.rx.try_recv().ok()).collect();
                        // the event the protocol is about to process (same tokens; the tick is restored)
                        let tick = w.tick;
                        let direct = match build_event(w, &op[1..]) {
                            Built2::Event(e, _) => Some(e),
                            _ => None,
                        };
                        w.tick = tick;
                        lines.push(format!(
                            "sysfeed {}",
                            if got.is_empty() { "-".to_string() } else { got.iter().map(|e| event_digest(w, e)).collect::<Vec<_>>().join(" | ") }
                        ));
                        lines.push(format!("syseq {}", if got.len() == 1 && direct.as_ref() == got.first() { 1 } else { 0 }));
                    }
                }
                run_event(w, &op[1..], algo.take(), lines);
            }
            other => panic!("bad op {other}"),
        }
    }
}

fn generate(seed: u64, n_cases: usize, tier: &str) {
    let mut out = Out::new();
    let mut rng = Rng::new(seed);
    if tier == "thorough" {
        exhaustive(&mut out);
    }
    for id in 0..n_cases {
        out.case(format!("r{id}"));
        gen_case(&mut rng, &mut out, tier, None, None);
    }
    // input-domain classes, separately seeded so that the cases above stay as they were
    let mut drng = Rng::new(seed ^ 0xD0A1_19D0_A119);
    let extra = (n_cases / 8).max(if n_cases > 0 { 12 } else { 0 });
    for k in 0..extra {
        out.case(format!("d{k}"));
        gen_case(&mut drng, &mut out, tier, Some(k as u64 % 6), None);
    }
    // netting family (class 6), separately seeded: `n<k>`
    let mut nrng = Rng::new(seed ^ 0x4E77_19AE_7719);
    for k in 0..extra {
        out.case(format!("n{k}"));
        gen_case(&mut nrng, &mut out, tier, Some(6), None);
    }
    // configuration shapes (instrument kinds, commands through a `System` handle, degraded links), again
    // separately seeded: `c<k>`
    let mut crng = Rng::new(seed ^ 0xC0F1_19C0_F119);
    let mut krng = Rng::new(seed ^ 0x5E70_19C0_F119);
    for k in 0..extra {
        out.case(format!("c{k}"));
        gen_case(&mut crng, &mut out, tier, None, Some(&mut krng));
    }
    out.flush();
}

fn main() {
    let a = args();
    match a.cmd.as_str() {
        "gen" => generate(a.seed, a.n, &a.tier),
        "run" => run_cases(run_case_cfg),
        _ => {
            eprintln!("usage: c19 gen <seed> <n> <tier> | run < cases");
            std::process::exit(2)
        }
    }
}
