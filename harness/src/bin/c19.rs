//! C19 — `Command::CancelOrders(filter)` / `Command::ClosePositions(filter)` of the real `Engine`
//! act on exactly the filtered scope (see `vh::engine_proto` for the protocol; this file is only
//! the generator).
//!
//! A case builds an engine state (2-3 exchanges x 1-3 instruments each, several underlyings; per
//! instrument a mix of in-flight / open / partially filled / cancel-in-flight orders, long / short /
//! no position, price known / unknown), then issues cancel-orders / close-positions commands with
//! every filter kind, frequently twice in a row, and finally observes all positions and orders with
//! unfiltered commands.
use vh::{engine_proto::run_case, *};

type Def = (usize, usize, usize);

fn init_line(trading: &str, links: &str, defs: &[Def]) -> String {
    format!(
        "init {trading} L {links} I {}",
        defs.iter().map(|(e, b, q)| format!("{e},{b},{q}")).collect::<Vec<_>>().join(" ")
    )
}

/// ops that put one order of class `class` with client order id `cid` on instrument `ins`
/// F: in flight, O: open, P: partially filled, G: in flight then acknowledged open,
/// C: open then cancel in flight (with id), D: in flight then cancel in flight (no id),
/// E: partially filled then cancel in flight (cancel sent without id)
fn order_ops(class: char, ex: usize, ins: usize, cid: u64, oid: u64, t: u64) -> Vec<String> {
    let open = format!("ev cmd_open o:{ex}:{ins}:{cid}:B:100:10");
    let snap = |filled: u64| format!("ev snap {ins} {cid} 10 100 O {oid} {t} {filled}");
    match class {
        'F' => vec![open],
        'O' => vec![snap(0)],
        'P' => vec![snap(5)],
        'G' => vec![open, snap(0)],
        'C' => vec![snap(0), format!("ev cmd_cancel c:{ex}:{ins}:{cid}:{oid}")],
        'D' => vec![open, format!("ev cmd_cancel c:{ex}:{ins}:{cid}")],
        'E' => vec![snap(5), format!("ev cmd_cancel c:{ex}:{ins}:{cid}")],
        _ => vec![],
    }
}

fn subset_nonempty(rng: &mut Rng, n: usize) -> Vec<usize> {
    loop {
        let v: Vec<usize> = (0..n).filter(|_| rng.chance(50)).collect();
        if !v.is_empty() {
            return v;
        }
    }
}

fn join(v: &[usize]) -> String {
    v.iter().map(|x| x.to_string()).collect::<Vec<_>>().join(",")
}

const BASES: [usize; 3] = [0, 1, 2];
const QUOTES: [usize; 2] = [3, 4];

fn gen_filter(rng: &mut Rng, nex: usize, nins: usize, defs: &[Def]) -> String {
    match rng.below(100) {
        0..=14 => "none".into(),
        15..=42 => {
            let mut v = subset_nonempty(rng, nex);
            if rng.chance(10) {
                v.push(nex + rng.below(2) as usize); // an exchange the engine does not know
            }
            if rng.chance(10) {
                v.push(v[0]); // duplicate entry
            }
            format!("ex:{}", join(&v))
        }
        43..=70 => {
            let mut v = subset_nonempty(rng, nins);
            if rng.chance(10) {
                v.push(nins + rng.below(2) as usize); // an instrument the engine does not know
            }
            if rng.chance(10) {
                v.push(v[0]);
            }
            format!("ins:{}", join(&v))
        }
        _ => {
            // mostly underlyings that exist in this engine, sometimes any pair of the asset alphabet
            let mut pairs: Vec<String> = vec![];
            for d in defs {
                let p = format!("{}-{}", d.1, d.2);
                if rng.chance(40) && !pairs.contains(&p) {
                    pairs.push(p);
                }
            }
            for b in BASES {
                for q in QUOTES {
                    if rng.chance(10) {
                        pairs.push(format!("{b}-{q}"));
                    }
                }
            }
            if pairs.is_empty() {
                pairs.push(format!("{}-{}", rng.pick(&BASES), rng.pick(&QUOTES)));
            }
            if rng.chance(8) {
                pairs.push("3-0".into()); // reversed pair: names no instrument
            }
            format!("und:{}", pairs.join(","))
        }
    }
}

/// `dom`: `None` = the original random case (rng consumption unchanged); `Some(class)` = one of the
/// input classes the original generator never produced (input-domain audit):
///  0 reversed-pair underlyings (an instrument a3/a0 next to a0/a3; `und:0-3` must not match the former);
///  1 decimal quantities and prices (1e-8 .. 1e7, fractions; prices that are exact as f64);
///  2 engines with ONE exchange or with 4-5 exchanges;
///  3 positions closed again (`flat`) before the command, some re-opened on the other side;
///  4 a tracked order whose client order id equals the id the close-position order will get (9000+i);
///  5 the same command three times in a row; market price 0.
fn gen_case(rng: &mut Rng, out: &mut Out, tier: &str, dom: Option<u64>) {
    let nex = match dom {
        Some(2) => *rng.pick(&[1usize, 1, 4, 5]),
        _ => rng.range(2, 3) as usize,
    };
    let links: String = if rng.chance(75) {
        "H".repeat(nex)
    } else {
        (0..nex)
            .map(|_| match rng.below(100) {
                0..=54 => 'H',
                55..=69 => 'C',
                70..=84 => 'U',
                _ => 'M',
            })
            .collect()
    };
    // 1-3 instruments per exchange, few distinct underlyings (collisions across exchanges)
    let mut defs: Vec<Def> = vec![];
    for e in 0..nex {
        for _ in 0..rng.range(1, 3) {
            let q = if rng.chance(70) { 3 } else { 4 };
            let b = *rng.pick(&BASES);
            if dom == Some(0) && rng.chance(50) {
                // reversed pair (quote/base swapped), mostly of the pair 0-3 so that both directions exist
                if rng.chance(70) { defs.push((e, 3, 0)) } else { defs.push((e, q, b)) }
            } else if dom == Some(0) {
                defs.push((e, 0, 3));
            } else {
                defs.push((e, b, q));
            }
        }
    }
    // instruments stay grouped by exchange label: `IndexedInstruments` sorts by (exchange, name), and the
    // shared protocol identifies instrument label k with the k-th InstrumentIndex only in that order
    // (close-position requests are printed in the engine's iteration order)
    let nins = defs.len();
    let trading = if rng.chance(30) { "on" } else { "off" };
    out.line(init_line(trading, &links, &defs));

    // ---- state building: per-instrument op scripts, then interleaved at random
    let mut scripts: Vec<Vec<String>> = vec![];
    for (i, d) in defs.iter().enumerate() {
        let mut s: Vec<String> = vec![];
        let norders = *rng.pick(&[0usize, 1, 2, 2, 3, 4]);
        for _ in 0..norders {
            let cid = 1 + rng.below(5);
            let class = *rng.pick(&['F', 'O', 'P', 'G', 'C', 'D', 'E', 'F', 'O']);
            // mostly the instrument's own exchange; rarely a request addressed elsewhere
            let ex = if rng.chance(6) { rng.below(nex as u64) as usize } else { d.0 };
            s.extend(order_ops(class, ex, i, cid, 1 + rng.below(3), rng.below(4)));
        }
        let dom_qty = |rng: &mut Rng| -> String {
            rng.pick(&["0.00000001", "0.3", "1234567.891", "0.00000123", "2.5", "10000000", "0.125", "99999.99999999"]).to_string()
        };
        match rng.below(10) {
            0..=3 if dom != Some(3) => {}
            0..=6 => {
                let q = if dom == Some(1) { dom_qty(rng) } else { (1 + rng.below(3)).to_string() };
                s.push(format!("ev fill {i} B {q}"))
            }
            _ => {
                let q = if dom == Some(1) { dom_qty(rng) } else { (1 + rng.below(3)).to_string() };
                s.push(format!("ev fill {i} S {q}"))
            }
        }
        if dom == Some(3) && rng.chance(70) {
            // closed again before the command; sometimes re-opened on the other side
            let was_buy = s.last().map(|l| l.contains(" B ")).unwrap_or(false);
            s.push(format!("ev flat {i}"));
            if rng.chance(35) {
                s.push(format!("ev fill {i} {} {}", if was_buy { "S" } else { "B" }, 1 + rng.below(3)));
            }
        }
        if dom == Some(4) && rng.chance(60) {
            // an order tracked under the client order id of the future close-position order
            let class = *rng.pick(&['F', 'O', 'P', 'C', 'D']);
            s.extend(order_ops(class, d.0, i, 9000 + i as u64, 7, 1));
        }
        // a third of the positions were partially reduced before the command (open quantity below the
        // peak quantity ever held)
        if s.last().map(|l| l.starts_with("ev fill")).unwrap_or(false) && rng.chance(35) {
            s.push(format!("ev reduce {i}"));
        }
        if rng.chance(75) {
            let at = rng.below(s.len() as u64 + 1) as usize;
            let p = match dom {
                // exact as f64 (the market event carries an f64 price)
                Some(1) => rng.pick(&["0.5", "100.25", "0.0009765625", "65536.125", "12345678", "0.015625"]).to_string(),
                Some(5) if rng.chance(40) => "0".to_string(),
                _ => (100 + rng.below(4)).to_string(),
            };
            s.insert(at, format!("ev price {i} {p}"));
        }
        scripts.push(s);
    }
    let mut has_pos: Vec<bool> = scripts
        .iter()
        .map(|s| {
            // the last fill / flat of the script decides (scripts of the original generator have no flat)
            s.iter().rev().find(|l| l.starts_with("ev fill") || l.starts_with("ev flat")).map(|l| l.starts_with("ev fill")).unwrap_or(false)
        })
        .collect();
    let mut cursors = vec![0usize; nins];
    loop {
        let live: Vec<usize> = (0..nins).filter(|i| cursors[*i] < scripts[*i].len()).collect();
        if live.is_empty() {
            break;
        }
        let i = *rng.pick(&live);
        out.line(&scripts[i][cursors[i]]);
        cursors[i] += 1;
    }

    // ---- commands
    let ncmd = rng.range(1, if tier == "thorough" { 6 } else { 4 });
    for _ in 0..ncmd {
        let f = gen_filter(rng, nex, nins, &defs);
        let cmd = if rng.chance(55) { "cancel_orders" } else { "close_positions" };
        out.line(format!("ev {cmd} {f}"));
        if rng.chance(60) {
            // the same command again while the first is still in flight
            out.line(format!("ev {cmd} {f}"));
            if dom == Some(5) {
                out.line(format!("ev {cmd} {f}"));
            }
        }
        // sometimes the world moves on between commands
        if rng.chance(35) {
            let i = rng.below(nins as u64) as usize;
            let cid = 1 + rng.below(5);
            let line = match rng.below(7) {
                0 => format!("ev resp {i} {cid} ok"),
                1 => format!("ev resp {i} {cid} err"),
                2 => format!("ev snap {i} {cid} 10 100 X 0 0 0"),
                3 => format!("ev snap {i} {cid} 10 100 O {} {} {}", 1 + rng.below(3), rng.below(5), rng.pick(&[0, 5])),
                4 => format!("ev price {i} {}", 100 + rng.below(4)),
                5 => {
                    if has_pos[i] && rng.chance(50) {
                        format!("ev reduce {i}")
                    } else if has_pos[i] {
                        has_pos[i] = false;
                        format!("ev flat {i}")
                    } else {
                        has_pos[i] = true;
                        format!("ev fill {i} {} {}", if rng.chance(50) { "B" } else { "S" }, 1 + rng.below(3))
                    }
                }
                _ => format!("ev cmd_open o:{}:{i}:{cid}:S:101:2", defs[i].0),
            };
            out.line(line);
        }
    }
    // ---- observe every position / price and every order through unfiltered commands
    if rng.chance(70) {
        out.line("ev close_positions none");
    }
    if rng.chance(50) {
        out.line("ev cancel_orders none");
    }
}

/// thorough tier: every filter over every small state.
/// instruments i0 = (ex0, a0/a3), i1 = (ex1, a1/a3) or (ex1, a0/a3) or (ex0, a1/a4);
/// per instrument an order class and a position class; every filter (none, all subsets of
/// exchanges / instruments / underlyings incl. ones naming nothing); both commands, each twice.
fn exhaustive(out: &mut Out) {
    let layouts: [[Def; 2]; 3] = [[(0, 0, 3), (1, 1, 3)], [(0, 0, 3), (1, 0, 3)], [(0, 0, 3), (0, 1, 4)]];
    // order classes: list of (class, cid)
    let order_classes: [&[(char, u64)]; 5] = [
        &[],
        &[('F', 1)],
        &[('P', 2)],
        &[('C', 1)],
        &[('F', 1), ('O', 2), ('D', 3), ('E', 4)],
    ];
    // position classes: (fill side, price known)
    let pos_classes: [(Option<&str>, bool); 4] = [(None, true), (Some("B"), true), (Some("S"), true), (Some("B"), false)];
    let filters: Vec<String> = [
        "none", "ex:0", "ex:1", "ex:0,1", "ex:5", "ins:0", "ins:1", "ins:1,0", "ins:7", "und:0-3", "und:1-3",
        "und:0-3,1-3", "und:1-4", "und:2-4,3-0",
    ]
    .iter()
    .map(|s| s.to_string())
    .collect();
    let mut id = 0usize;
    for (li, layout) in layouts.iter().enumerate() {
        // the full product for the first layout, a diagonal slice for the others
        for (oa, ca) in order_classes.iter().enumerate() {
            for (ob, cb) in order_classes.iter().enumerate() {
                for (pa, posa) in pos_classes.iter().enumerate() {
                    for (pb, posb) in pos_classes.iter().enumerate() {
                        if li > 0 && (oa + ob + pa + pb) % 4 != li {
                            continue;
                        }
                        for f in filters.iter() {
                            id += 1;
                            out.case(format!("x{id}"));
                            let links = if layout.iter().any(|d| d.0 == 1) { "HH" } else { "H" };
                            out.line(init_line("off", links, layout));
                            for (i, (classes, pos)) in [(ca, posa), (cb, posb)].iter().enumerate() {
                                for (class, cid) in classes.iter() {
                                    for l in order_ops(*class, layout[i].0, i, *cid, 10 + *cid, 1) {
                                        out.line(l);
                                    }
                                }
                                if let Some(side) = pos.0 {
                                    out.line(format!("ev fill {i} {side} {}", 2 + i));
                                }
                                if pos.1 {
                                    out.line(format!("ev price {i} {}", 100 + i));
                                }
                            }
                            out.line(format!("ev cancel_orders {f}"));
                            out.line(format!("ev cancel_orders {f}"));
                            out.line(format!("ev close_positions {f}"));
                            out.line(format!("ev close_positions {f}"));
                            out.line("ev close_positions none");
                            out.line("ev cancel_orders none");
                        }
                    }
                }
            }
        }
    }
}

fn generate(seed: u64, n_cases: usize, tier: &str) {
    let mut out = Out::new();
    let mut rng = Rng::new(seed);
    if tier == "thorough" {
        exhaustive(&mut out);
    }
    for id in 0..n_cases {
        out.case(format!("r{id}"));
        gen_case(&mut rng, &mut out, tier, None);
    }
    // input-domain classes, separately seeded so that the cases above stay as they were
    let mut drng = Rng::new(seed ^ 0xD0A1_19D0_A119);
    let extra = (n_cases / 8).max(if n_cases > 0 { 12 } else { 0 });
    for k in 0..extra {
        out.case(format!("d{k}"));
        gen_case(&mut drng, &mut out, tier, Some(k as u64 % 6));
    }
    out.flush();
}

fn main() {
    let a = args();
    match a.cmd.as_str() {
        "gen" => generate(a.seed, a.n, &a.tier),
        "run" => run_cases(run_case),
        _ => {
            eprintln!("usage: c19 gen <seed> <n> <tier> | run < cases");
            std::process::exit(2)
        }
    }
}
