//! C06 — Binance L2 depth-update sequencing. Ops (see lean/BarterModel/Driver/C06.lean):
//!   `init spot|fut n` | `venue k id:b|a:price:amount …` | `snap k s | p:a … | p:a …` | `snapu k s | … | …`
//!   | `start` | `msg sym U u pu | p:a … | p:a …` | `end` | `depth k n` (the REST snapshot of instrument `k` is
//!   cut to the best `n` levels per side, as the code's fetchers request with `limit=100`; from then on the blocks
//!   that print `book<k>` also print `lv<k>:<b|a>:<price> <amount>` for every price of `venue k`)
//!   | `reconnect` (a new connection for the same consumer; `msg` / `end` are `bad-op` while no connection is up:
//!   before the first successful `start`, after a failed `start` of a new connection, after `reconnect`)
//!
//! `snap` builds the REST snapshot JSON and parses it with the real `BinanceOrderBookL2Snapshot`;
//! `start` calls the real `ExchangeTransformer::init` of `BinanceSpotOrderBooksL2Transformer` /
//! `BinanceFuturesUsdOrderBooksL2Transformer`; `msg` builds the websocket JSON, parses it with the real
//! `BinanceSpotOrderBookL2Update` / `BinanceFuturesOrderBookL2Update` and calls the real
//! `Transformer::transform`; delivered events go to the real `OrderBook::update`. A stand-alone real
//! `*Sequencer` is fed the same messages so that its (public) fields can be printed. `end` pushes the
//! whole output list through the real `with_termination_on_error(|e| e.is_terminal(), _)`.
use barter_data::{
    Identifier,
    books::{Level, OrderBook},
    error::DataError,
    event::MarketEvent,
    exchange::{
        binance::{
            book::l2::BinanceOrderBookL2Snapshot,
            channel::BinanceChannel,
            futures::l2::{
                BinanceFuturesOrderBookL2Update, BinanceFuturesUsdOrderBookL2Sequencer,
                BinanceFuturesUsdOrderBooksL2Transformer,
            },
            spot::l2::{
                BinanceSpotOrderBookL2Sequencer, BinanceSpotOrderBookL2Update,
                BinanceSpotOrderBooksL2Transformer,
            },
        },
        subscription::ExchangeSub,
    },
    streams::{consumer::StreamKey, reconnect::stream::ReconnectingStream},
    subscription::{Map, book::OrderBookEvent},
    transformer::ExchangeTransformer,
};
use barter_instrument::exchange::ExchangeId;
use barter_integration::{Transformer, subscription::SubscriptionId};
use chrono::{DateTime, Utc};
use futures::StreamExt;
use rust_decimal::Decimal;
use std::collections::BTreeMap;
use vh::*;

type Ev = MarketEvent<usize, OrderBookEvent>;
type Res = Result<Ev, DataError>;

fn symbol(k: usize) -> String {
    format!("SYM{k}")
}

/// the subscription id the real deserialiser derives from `"s": "SYMk"`
fn sub_id(k: usize) -> SubscriptionId {
    ExchangeSub::from((BinanceChannel::ORDER_BOOK_L2, symbol(k))).id()
}

fn fmt_levels(ls: &[Level]) -> String {
    ls.iter()
        .map(|l| format!("{}:{}", fmt_dec(l.price), fmt_dec(l.amount)))
        .collect::<Vec<_>>()
        .join(" ")
}

fn fmt_book(b: &OrderBook) -> String {
    format!(
        "{} {} | {}",
        b.sequence,
        fmt_levels(b.bids().levels()),
        fmt_levels(b.asks().levels())
    )
}

/// `| bids | asks` → (bids, asks) as (price, amount) strings
fn parse_sides(toks: &[String]) -> (Vec<(String, String)>, Vec<(String, String)>) {
    assert_eq!(toks[0], "|", "bad op");
    let rest = &toks[1..];
    let bar = rest.iter().position(|t| t == "|").expect("second |");
    let lv = |ts: &[String]| {
        ts.iter()
            .map(|t| {
                let (p, a) = t.split_once(':').unwrap_or_else(|| panic!("bad level {t:?}"));
                (p.to_string(), a.to_string())
            })
            .collect::<Vec<_>>()
    };
    (lv(&rest[..bar]), lv(&rest[bar + 1..]))
}

fn json_levels(ls: &[(String, String)]) -> String {
    let inner = ls
        .iter()
        .map(|(p, a)| format!("[\"{p}\",\"{a}\"]"))
        .collect::<Vec<_>>()
        .join(",");
    format!("[{inner}]")
}

enum Tr {
    Spot(BinanceSpotOrderBooksL2Transformer<usize>),
    Fut(BinanceFuturesUsdOrderBooksL2Transformer<usize>),
}

enum Sq {
    Spot(BinanceSpotOrderBookL2Sequencer),
    Fut(BinanceFuturesUsdOrderBookL2Sequencer),
}

fn fmt_out(r: &Res) -> String {
    match r {
        Ok(ev) => match &ev.kind {
            OrderBookEvent::Update(b) => format!("out upd {} {}", ev.instrument, fmt_book(b)),
            OrderBookEvent::Snapshot(b) => format!("out snap {} {}", ev.instrument, fmt_book(b)),
        },
        Err(DataError::InvalidSequence {
            prev_last_update_id,
            first_update_id,
        }) => format!("out err invalid-sequence {prev_last_update_id} {first_update_id}"),
        Err(DataError::Socket(text)) if text.contains("unidentifiable") => {
            // "... unidentifiable message: @depth@100ms|SYMk"
            let sym = text.rsplit("SYM").next().unwrap_or("?");
            format!("out err unidentifiable {sym}")
        }
        Err(other) => format!("out err other {}", format!("{other:?}").replace(' ', "_")),
    }
}

/// the prices of `venue k` per side (bids, asks), ascending, each once
type Universe = (std::collections::BTreeSet<Decimal>, std::collections::BTreeSet<Decimal>);

/// per-level observation: the local book's amount at every price of the venue's universe (0 = no level)
fn lv_lines(lines: &mut Vec<String>, pfx: &str, depths: &[usize], uni: &BTreeMap<usize, Universe>, books: &[OrderBook]) {
    for (k, b) in books.iter().enumerate() {
        if !depths.contains(&k) {
            continue;
        }
        let Some((ub, ua)) = uni.get(&k) else { continue };
        for (tag, prices, levels) in [("b", ub, b.bids().levels()), ("a", ua, b.asks().levels())] {
            for p in prices {
                let amount = levels.iter().find(|l| l.price == *p).map(|l| l.amount).unwrap_or(Decimal::ZERO);
                lines.push(format!("{pfx}{k}:{tag}:{} {}", fmt_dec(*p), fmt_dec(amount)));
            }
        }
    }
}

fn apply(books: &mut [OrderBook], ev: &Ev) {
    if let Some(b) = books.get_mut(ev.instrument) {
        b.update(ev.kind.clone());
    }
}

fn run() {
    let rt = tokio::runtime::Builder::new_current_thread().build().unwrap();
    run_cases(|case, lines| {
        let mut spot = true;
        let mut n = 0usize;
        let mut initial: Vec<Ev> = vec![];
        let mut tr: Option<Tr> = None;
        let mut seqs: Vec<Sq> = vec![];
        let mut books: Vec<OrderBook> = vec![];
        let mut books0: Vec<OrderBook> = vec![];
        let mut alive = true;
        let mut reconnected = false;
        let mut all_outs: Vec<Res> = vec![];
        let mut uni: BTreeMap<usize, Universe> = BTreeMap::new();
        let mut depths: Vec<usize> = vec![];
        let exchange = |spot: bool| if spot { ExchangeId::BinanceSpot } else { ExchangeId::BinanceFuturesUsd };
        for op in case.ops.iter() {
            lines.push("@".into());
            match op[0].as_str() {
                "init" => {
                    spot = match op[1].as_str() {
                        "spot" => true,
                        "fut" => false,
                        other => panic!("bad rules {other}"),
                    };
                    n = op[2].parse().expect("n");
                    initial.clear();
                    tr = None;
                    reconnected = false;
                    books.clear();
                    uni.clear();
                    depths.clear();
                }
                "venue" => {
                    let k: usize = op[1].parse().expect("k");
                    let mut u: Universe = Default::default();
                    for c in &op[2..] {
                        let f: Vec<&str> = c.split(':').collect();
                        assert!(f.len() == 4, "bad change {c:?}");
                        match f[1] {
                            "b" => u.0.insert(parse_dec(f[2])),
                            "a" => u.1.insert(parse_dec(f[2])),
                            other => panic!("bad side {other}"),
                        };
                    }
                    uni.insert(k, u);
                }
                "depth" => {
                    let k: usize = op[1].parse().expect("k");
                    let _n: u64 = op[2].parse().expect("n");
                    depths.push(k);
                }
                // a new connection for the same consumer: the local books persist, the transformer
                // and the initial snapshots are those of the new connection
                "reconnect" => {
                    initial.clear();
                    tr = None;
                    reconnected = true;
                }
                "snap" | "snapu" => {
                    let k: usize = op[1].parse().expect("k");
                    let s: u64 = op[2].parse().expect("s");
                    let (bids, asks) = parse_sides(&op[3..]);
                    let json = format!(
                        "{{\"lastUpdateId\":{s},\"bids\":{},\"asks\":{}}}",
                        json_levels(&bids),
                        json_levels(&asks)
                    );
                    let snapshot: BinanceOrderBookL2Snapshot = serde_json::from_str(&json).expect("snapshot json");
                    let mut ev: Ev = MarketEvent::from((exchange(spot), k, snapshot));
                    if op[0] == "snapu" {
                        let OrderBookEvent::Snapshot(b) = ev.kind.clone() else { unreachable!() };
                        ev.kind = OrderBookEvent::Update(b);
                    }
                    initial.push(ev);
                }
                "start" => {
                    let map: Map<usize> = (0..n).map(|k| (sub_id(k), k)).collect();
                    let (tx, _rx) = tokio::sync::mpsc::unbounded_channel();
                    let res = if spot {
                        rt.block_on(BinanceSpotOrderBooksL2Transformer::<usize>::init(map, &initial, tx)).map(Tr::Spot)
                    } else {
                        rt.block_on(BinanceFuturesUsdOrderBooksL2Transformer::<usize>::init(map, &initial, tx)).map(Tr::Fut)
                    };
                    match res {
                        Err(DataError::InitialSnapshotMissing(_)) => lines.push("start missing".into()),
                        Err(DataError::InitialSnapshotInvalid(_)) => lines.push("start invalid".into()),
                        Err(other) => lines.push(format!("start other {other:?}")),
                        Ok(t) => {
                            tr = Some(t);
                            // the initial snapshots are the first items of the stream
                            if !reconnected || books.len() != n {
                                books = (0..n).map(|_| OrderBook::default()).collect();
                            }
                            for ev in &initial {
                                apply(&mut books, ev);
                            }
                            books0 = books.clone();
                            // stand-alone sequencers, constructed like `init` does
                            seqs = (0..n)
                                .map(|k| {
                                    let s = initial
                                        .iter()
                                        .find(|e| e.instrument == k)
                                        .map(|e| match &e.kind {
                                            OrderBookEvent::Snapshot(b) | OrderBookEvent::Update(b) => b.sequence,
                                        })
                                        .expect("init succeeded");
                                    if spot {
                                        Sq::Spot(BinanceSpotOrderBookL2Sequencer::new(s))
                                    } else {
                                        Sq::Fut(BinanceFuturesUsdOrderBookL2Sequencer::new(s))
                                    }
                                })
                                .collect();
                            alive = true;
                            all_outs.clear();
                            lines.push("start ok".into());
                            for (k, b) in books.iter().enumerate() {
                                lines.push(format!("book{k} {}", fmt_book(b)));
                            }
                            lv_lines(lines, "lv", &depths, &uni, &books);
                        }
                    }
                }
                "msg" => {
                    let sym: usize = op[1].parse().expect("sym");
                    let first: u64 = op[2].parse().expect("U");
                    let last: u64 = op[3].parse().expect("u");
                    let pu: u64 = op[4].parse().expect("pu");
                    let (bids, asks) = parse_sides(&op[5..]);
                    // no connection is up (no `start` yet, a failed `start`, or a `reconnect` since): rejected
                    let Some(t) = tr.as_mut() else {
                        lines.push("bad-op".into());
                        continue;
                    };
                    let outs: Vec<Res> = match t {
                        Tr::Spot(t) => {
                            let json = format!(
                                "{{\"e\":\"depthUpdate\",\"E\":1671656397761,\"s\":\"{}\",\"U\":{first},\"u\":{last},\"b\":{},\"a\":{}}}",
                                symbol(sym),
                                json_levels(&bids),
                                json_levels(&asks)
                            );
                            let m: BinanceSpotOrderBookL2Update = serde_json::from_str(&json).expect("spot update json");
                            if let Some(Sq::Spot(sq)) = seqs.get_mut(sym) {
                                let _ = sq.validate_sequence(m.clone());
                            }
                            t.transform(m)
                        }
                        Tr::Fut(t) => {
                            let json = format!(
                                "{{\"e\":\"depthUpdate\",\"E\":1571889248277,\"T\":1571889248276,\"s\":\"{}\",\"U\":{first},\"u\":{last},\"pu\":{pu},\"b\":{},\"a\":{}}}",
                                symbol(sym),
                                json_levels(&bids),
                                json_levels(&asks)
                            );
                            let m: BinanceFuturesOrderBookL2Update = serde_json::from_str(&json).expect("futures update json");
                            if let Some(Sq::Fut(sq)) = seqs.get_mut(sym) {
                                let _ = sq.validate_sequence(m.clone());
                            }
                            t.transform(m)
                        }
                    };
                    if outs.is_empty() {
                        lines.push("out none".into());
                    }
                    for o in &outs {
                        lines.push(fmt_out(o));
                    }
                    match seqs.get(sym) {
                        Some(Sq::Spot(sq)) => lines.push(format!(
                            "sq {sym} {} {} {}",
                            sq.updates_processed, sq.last_update_id, sq.prev_last_update_id
                        )),
                        Some(Sq::Fut(sq)) => lines.push(format!("sq {sym} {} {}", sq.updates_processed, sq.last_update_id)),
                        None => {}
                    }
                    // the consumer's view: the connection ends at the first terminal error
                    if alive {
                        for o in &outs {
                            match o {
                                Ok(ev) => apply(&mut books, ev),
                                Err(e) if e.is_terminal() => {
                                    alive = false;
                                    break;
                                }
                                Err(_) => {}
                            }
                        }
                    }
                    all_outs.extend(outs);
                    lines.push(format!("alive {}", if alive { 1 } else { 0 }));
                    for (k, b) in books.iter().enumerate() {
                        lines.push(format!("book{k} {}", fmt_book(b)));
                    }
                    lv_lines(lines, "lv", &depths, &uni, &books);
                }
                "end" => {
                    if tr.is_none() {
                        lines.push("bad-op".into());
                        continue;
                    }
                    let key = StreamKey::new("market_stream", exchange(spot), Some("l2"));
                    let outer = futures::stream::iter(vec![futures::stream::iter(all_outs.clone())]);
                    let delivered: Vec<Res> = rt.block_on(
                        outer
                            .with_termination_on_error(|e: &DataError| e.is_terminal(), key)
                            .flatten()
                            .collect::<Vec<_>>(),
                    );
                    let mut fbooks = books0.clone();
                    let mut n_ev = 0;
                    let mut n_err = 0;
                    for o in &delivered {
                        match o {
                            Ok(ev) => {
                                n_ev += 1;
                                apply(&mut fbooks, ev)
                            }
                            Err(_) => n_err += 1,
                        }
                    }
                    let ended = delivered.len() != all_outs.len();
                    lines.push(format!("delivered {n_ev} {n_err} {}", if ended { 1 } else { 0 }));
                    for (k, b) in fbooks.iter().enumerate() {
                        lines.push(format!("fbook{k} {}", fmt_book(b)));
                    }
                    lv_lines(lines, "flv", &depths, &uni, &fbooks);
                }
                other => panic!("bad op {other}"),
            }
        }
    });
}

// ------------------------------------------------------------------------------------ generators

#[derive(Clone)]
struct Chg {
    id: u64,
    bid: bool,
    price: String,
    amount: String,
}

#[derive(Clone)]
struct Msg {
    sym: usize,
    first: u64,
    last: u64,
    pu: u64,
    bids: Vec<String>,
    asks: Vec<String>,
}

impl Msg {
    fn line(&self) -> String {
        format!(
            "msg {} {} {} {} | {} | {}",
            self.sym,
            self.first,
            self.last,
            self.pu,
            self.bids.join(" "),
            self.asks.join(" ")
        )
    }
}

/// the simulated exchange: book of one side as of id `x`
fn side_at(v: &[Chg], x: u64, bid: bool) -> BTreeMap<Decimal, (String, String)> {
    let mut m = BTreeMap::new();
    for c in v.iter().filter(|c| c.id <= x && c.bid == bid) {
        let p = parse_dec(&c.price);
        if parse_dec(&c.amount).is_zero() {
            m.remove(&p);
        } else {
            m.insert(p, (c.price.clone(), c.amount.clone()));
        }
    }
    m
}

fn shuffle<T>(rng: &mut Rng, xs: &mut [T]) {
    for i in (1..xs.len()).rev() {
        let j = rng.below(i as u64 + 1) as usize;
        xs.swap(i, j);
    }
}

/// one side of the genuine depth message for `(lo, hi]`
fn msg_side(rng: &mut Rng, v: &[Chg], grid: &[String], lo: u64, hi: u64, bid: bool, extras: bool) -> Vec<String> {
    let at_hi = side_at(v, hi, bid);
    let amount_at = |price: &String| {
        at_hi
            .get(&parse_dec(price))
            .map(|(_, a)| a.clone())
            .unwrap_or_else(|| "0".to_string())
    };
    let mut prices: Vec<String> = vec![];
    for c in v.iter().filter(|c| lo < c.id && c.id <= hi && c.bid == bid) {
        if !prices.contains(&c.price) {
            prices.push(c.price.clone());
        }
    }
    if extras {
        // a venue may also restate untouched prices (with the amount they have at `hi`), or repeat a level
        if rng.chance(50) {
            let p = rng.pick(grid).clone();
            prices.push(p);
        }
        if rng.chance(30) && !prices.is_empty() {
            let p = rng.pick(&prices).clone();
            prices.push(p);
        }
    }
    shuffle(rng, &mut prices);
    prices.iter().map(|p| format!("{p}:{}", amount_at(p))).collect()
}

fn genuine_msg(rng: &mut Rng, spot: bool, sym: usize, v: &[Chg], grid: &[String], lo: u64, hi: u64, extras: bool) -> Msg {
    let first_in_range = v.iter().filter(|c| lo < c.id && c.id <= hi).map(|c| c.id).min();
    let first = if spot { lo + 1 } else { first_in_range.unwrap_or(lo + 1) };
    Msg {
        sym,
        first,
        last: hi,
        pu: lo,
        bids: msg_side(rng, v, grid, lo, hi, true, extras),
        asks: msg_side(rng, v, grid, lo, hi, false, extras),
    }
}

/// input classes of the `d…` family (input-domain audit); `Dom::default()` = the classic families, which draw
/// exactly the random numbers they always drew
#[derive(Clone, Copy, Default)]
struct Dom {
    /// added to every id of the venue (real ids are ~2e10 spot / ~1e12 futures; boundaries 2^32, 2^53, 2^63, 2^64)
    offset: u64,
    /// prices / amounts of extreme but exact magnitude (1e-8 … 1e12, 17+ significant digits)
    wide: bool,
    /// the same price written with different scales (`100`, `100.0`, `100.00`) in snapshots and messages
    restyle: bool,
    /// non-genuine messages whose ids continue a DELIVERED message (pu = its u, U arbitrary incl. U > u and 0,
    /// u = its u … u+2) with levels that repeat a price with different amounts
    cont_garbage: bool,
    /// `reconnect` after every op kind: before the first connection, after a failed `start`, right after `start`,
    /// after a `msg` (no `end`), twice in a row
    reconn: bool,
    /// configuration-shape family (`cfg…`): 4-12 instruments on the connection (symbols that are prefixes of one
    /// another: SYM1 / SYM10 / SYM11), half of them subscribed but silent, messages for never-subscribed symbols
    /// that extend a subscribed one (SYM3 subscribed, SYM30 not)
    cfg_many: bool,
}

const OFFSETS: [u64; 8] = [
    0,
    (1 << 32) - 20,
    22_611_425_143,
    1_000_000_000_000,
    (1 << 53) - 20,
    (1 << 63) - 20,
    u64::MAX - 400,
    u64::MAX - 1_000_000,
];

fn amount(rng: &mut Rng, zero_pct: u64) -> String {
    if rng.chance(zero_pct) {
        return (*rng.pick(&["0", "0.0", "0.00000000"])).to_string();
    }
    (*rng.pick(&["1", "0.5", "2.5", "1.25000000", "10"])).to_string()
}

fn amount_dom(rng: &mut Rng, zero_pct: u64, dom: &Dom) -> String {
    if !dom.wide {
        return amount(rng, zero_pct);
    }
    if rng.chance(zero_pct) {
        return (*rng.pick(&["0", "0.0", "0.00000000"])).to_string();
    }
    (*rng.pick(&["0.00000001", "123456789.12345678", "1000000000000", "1000000000000.00000001", "0.1", "0.30000000", "2.5"])).to_string()
}

/// another spelling of the same decimal
fn respell(rng: &mut Rng, d: &str) -> String {
    let zeros = if rng.chance(50) { "0" } else { "00" };
    if d.contains('.') { format!("{d}{zeros}") } else { format!("{d}.{zeros}") }
}

fn restyle_levels(rng: &mut Rng, ls: &mut [String]) {
    for l in ls.iter_mut() {
        if rng.chance(25) {
            let (p, a) = l.split_once(':').expect("level");
            *l = format!("{}:{a}", respell(rng, p));
        }
    }
}

fn gen_venue(rng: &mut Rng, max_changes: i64, dom: &Dom) -> (Vec<Chg>, Vec<String>) {
    let (base, step, scale) = if dom.wide {
        // 1e-8 ticks, 1e12 prices, 12 significant digits, a grid across 1
        *rng.pick(&[(1i64, 1i64, 8u32), (1_000_000_000_000, 1, 0), (123_456_789_012, 1, 8), (99_999_998, 1, 8)])
    } else {
        *rng.pick(&[(100i64, 1i64, 0u32), (1000, 5, 1), (99990, 5, 2), (1, 1, 4)])
    };
    let count = rng.range(1, 6);
    let grid: Vec<String> = (0..count).map(|i| dec_str(base + i * step, scale)).collect();
    let len = rng.range(1, max_changes);
    let contiguous = rng.chance(50);
    let mut id = rng.range(0, 3) as u64 + dom.offset;
    let zero_pct = *rng.pick(&[15u64, 30, 50]);
    let mut v = vec![];
    for _ in 0..len {
        id += if contiguous { 1 } else { rng.range(1, 3) as u64 };
        v.push(Chg {
            id,
            bid: rng.chance(50),
            price: rng.pick(&grid).clone(),
            amount: amount_dom(rng, zero_pct, dom),
        });
    }
    (v, grid)
}

fn venue_line(k: usize, v: &[Chg]) -> String {
    let body = v
        .iter()
        .map(|c| format!("{}:{}:{}:{}", c.id, if c.bid { "b" } else { "a" }, c.price, c.amount))
        .collect::<Vec<_>>()
        .join(" ");
    format!("venue {k} {body}")
}

/// the REST snapshot at `s`; `depth = Some(d)`: cut to the best `d` levels per side (highest bids, lowest asks),
/// what the venue answers to `…&limit=d`
fn snap_line(op: &str, k: usize, v: &[Chg], s: u64, rng: &mut Rng, depth: Option<usize>, dom: &Dom) -> String {
    let d = depth.unwrap_or(usize::MAX);
    let mut b: Vec<String> = side_at(v, s, true).values().map(|(p, a)| format!("{p}:{a}")).collect();
    b.drain(..b.len().saturating_sub(d));
    let mut a: Vec<String> = side_at(v, s, false).values().take(d).map(|(p, a)| format!("{p}:{a}")).collect();
    shuffle(rng, &mut b);
    shuffle(rng, &mut a);
    if dom.restyle {
        restyle_levels(rng, &mut b);
        restyle_levels(rng, &mut a);
    }
    format!("{op} {k} {s} | {} | {}", b.join(" "), a.join(" "))
}

/// delivery perturbations of one instrument's in-order message list
fn perturb(rng: &mut Rng, base: &[Msg], cover: usize) -> Vec<Msg> {
    if base.is_empty() {
        return vec![];
    }
    // start early (from the very first message), at the covering message, or late
    let start = match rng.below(10) {
        0..=4 => 0,
        5..=7 => cover.min(base.len() - 1),
        8 => (cover + 1).min(base.len() - 1),
        _ => rng.below(base.len() as u64) as usize,
    };
    let mut d: Vec<Msg> = base[start..].to_vec();
    if rng.chance(45) {
        return d; // in-order, gap-free
    }
    for _ in 0..rng.range(1, 2) {
        if d.is_empty() {
            break;
        }
        let i = rng.below(d.len() as u64) as usize;
        match rng.below(5) {
            0 => {
                d.remove(i);
            }
            1 => {
                let m = d[i].clone();
                d.insert(i + 1, m);
            }
            2 => {
                // duplicate later
                let m = d[i].clone();
                let j = rng.range(i as i64 + 1, d.len() as i64) as usize;
                d.insert(j, m);
            }
            3 => {
                if i + 1 < d.len() {
                    d.swap(i, i + 1);
                }
            }
            _ => {
                // replay an old prefix of the venue's stream at position i
                let j = rng.below(base.len() as u64 + 1) as usize;
                let pre: Vec<Msg> = base[..j].to_vec();
                let tail = d.split_off(i);
                d.extend(pre);
                d.extend(tail);
            }
        }
    }
    d
}

fn garbage_side(rng: &mut Rng, grid: &[String]) -> Vec<String> {
    let mut ls = vec![];
    for p in grid {
        if rng.chance(40) {
            ls.push(format!("{p}:{}", amount(rng, 30)));
        }
    }
    ls
}

/// levels of a non-genuine message that may state a price several times with different amounts
fn garbage_side_dup(rng: &mut Rng, grid: &[String], dom: &Dom) -> Vec<String> {
    let mut ls = vec![];
    for _ in 0..rng.range(0, 4) {
        let p = rng.pick(grid).clone();
        ls.push(format!("{p}:{}", amount_dom(rng, 30, dom)));
    }
    ls
}

fn gen_random_case(out: &mut Out, rng: &mut Rng, thorough: bool, partial: bool, dom: &Dom) {
    let spot = rng.chance(50);
    let n = if dom.cfg_many { *rng.pick(&[4usize, 5, 7, 11, 11, 12]) } else { *rng.pick(&[1usize, 1, 2, 3]) };
    out.line(format!("init {} {n}", if spot { "spot" } else { "fut" }));
    let garbage = rng.chance(if dom.cont_garbage { 40 } else { 12 });
    let extras = rng.chance(40);
    // the venues' true histories: the same for every connection of the case
    let venues: Vec<(Vec<Chg>, Vec<String>)> = (0..n).map(|_| gen_venue(rng, if dom.cfg_many { 12 } else if thorough { 60 } else { 40 }, dom)).collect();
    for (k, (v, _)) in venues.iter().enumerate() {
        out.line(venue_line(k, v));
    }
    // depth-limited REST snapshots (the code's fetchers ask for `limit=100`): per instrument the best 1-4 levels
    // per side (the venues have at most 6 prices), 15 % of the instruments of such a case keep the full depth
    let depths: Vec<Option<usize>> = (0..n)
        .map(|_| if partial && !rng.chance(15) { Some(rng.range(1, 4) as usize) } else { None })
        .collect();
    for (k, d) in depths.iter().enumerate() {
        if let Some(d) = d {
            out.line(format!("depth {k} {d}"));
        }
    }
    // one to three connections: after the first the consumer's local books persist and each new
    // connection starts with a fresh snapshot (re-initialisation after a break / a reconnect)
    if dom.reconn {
        // `reconnect` at every position a consumer can re-initialise: before the first connection came up, after a
        // failed `start`, right after `start`, after a `msg` (the `end` observation left out), twice in a row
        let connections = rng.range(2, 4);
        if rng.chance(15) {
            out.line("reconnect");
        }
        for c in 0..connections {
            if c > 0 {
                out.line("reconnect");
                if rng.chance(15) {
                    out.line("reconnect");
                }
            }
            let fail_init = rng.chance(25);
            gen_connection(out, rng, spot, n, &venues, &depths, garbage, extras, fail_init, dom);
        }
        return;
    }
    let connections = *rng.pick(&[1usize, 1, 1, 2, 2, 3]);
    for c in 0..connections {
        if c > 0 {
            out.line("reconnect");
        }
        let fail_init = rng.chance(4);
        if !gen_connection(out, rng, spot, n, &venues, &depths, garbage, extras, fail_init, dom) {
            return;
        }
    }
}

/// one connection: snapshots, `start`, interleaved deliveries, `end`; false when `init` was made to fail
#[allow(clippy::too_many_arguments)]
fn gen_connection(
    out: &mut Out,
    rng: &mut Rng,
    spot: bool,
    n: usize,
    venues: &[(Vec<Chg>, Vec<String>)],
    depths: &[Option<usize>],
    garbage: bool,
    extras: bool,
    fail_init: bool,
    dom: &Dom,
) -> bool {
    let mut deliveries: Vec<Vec<Msg>> = vec![];
    let mut snaps: Vec<String> = vec![];
    let fail_k = rng.below(n as u64) as usize;
    for k in 0..n {
        let (v, grid) = (&venues[k].0, &venues[k].1);
        let (v, grid) = (v.clone(), grid.clone());
        // cut points
        let mut cuts: Vec<u64> = vec![if rng.chance(60) { 0 } else { v[0].id.saturating_sub(1) }];
        for c in &v {
            let pct = *rng.pick(&[25u64, 50, 90]);
            if rng.chance(pct) && c.id > *cuts.last().unwrap() {
                let cut = if spot && rng.chance(10) { c.id + 1 } else { c.id };
                cuts.push(cut);
            }
        }
        let base: Vec<Msg> = cuts.windows(2).map(|w| genuine_msg(rng, spot, k, &v, &grid, w[0], w[1], extras)).collect();
        // snapshot point: boundaries and their neighbours, any event id, before the first / after the last
        let s = match rng.below(8) {
            0 => *rng.pick(&cuts),
            1 => rng.pick(&cuts).saturating_sub(1),
            2 => *rng.pick(&cuts) + 1,
            3 => 0,
            4 => v.last().unwrap().id + rng.below(2),
            _ => rng.pick(&v).id,
        };
        // index of the message covering the snapshot point
        let cover = base
            .iter()
            .position(|m| if spot { m.last > s } else { m.last >= s })
            .unwrap_or(base.len());
        if fail_init && k == fail_k {
            if rng.chance(50) {
                snaps.push(snap_line("snapu", k, &v, s, rng, depths[k], dom));
            }
        } else {
            snaps.push(snap_line("snap", k, &v, s, rng, depths[k], dom));
        }
        let mut d = perturb(rng, &base, cover);
        if garbage {
            // arbitrary ids / levels around the snapshot point
            for _ in 0..rng.range(1, 6) {
                let last = (s + rng.below(6)).saturating_sub(2);
                let first = (last + 1).saturating_sub(rng.below(4));
                let m = Msg {
                    sym: k,
                    first,
                    last,
                    pu: if rng.chance(50) { first.saturating_sub(1) } else { s },
                    bids: garbage_side(rng, &grid),
                    asks: garbage_side(rng, &grid),
                };
                let i = rng.below(d.len() as u64 + 1) as usize;
                d.insert(i, m);
            }
        }
        if dom.cont_garbage && !d.is_empty() {
            // non-genuine messages that continue a delivered one: futures admits any U once pu = previous u
            // (also U > u, U = 0, u = previous u); spot needs U = previous u + 1
            for _ in 0..rng.range(1, 4) {
                let i = rng.below(d.len() as u64) as usize;
                let prev = d[i].clone();
                let last = prev.last + rng.below(3);
                let first = *rng.pick(&[0, prev.last + 1, prev.last + 1, last + 1, last + 3, prev.first, prev.last]);
                let pu = *rng.pick(&[prev.last, prev.last, prev.last, prev.pu, last]);
                let m = Msg {
                    sym: k,
                    first,
                    last,
                    pu,
                    bids: garbage_side_dup(rng, &grid, dom),
                    asks: garbage_side_dup(rng, &grid, dom),
                };
                d.insert(i + 1, m);
            }
        }
        if dom.restyle {
            for m in d.iter_mut() {
                restyle_levels(rng, &mut m.bids);
                restyle_levels(rng, &mut m.asks);
            }
        }
        if dom.reconn && rng.chance(10) {
            d.clear(); // `start` directly followed by `end` / `reconnect`
        }
        if dom.cfg_many && rng.chance(50) {
            d.clear(); // subscribed, snapshot fetched, never an update on this connection
        }
        deliveries.push(d);
    }
    shuffle(rng, &mut snaps);
    for s in &snaps {
        out.line(s);
    }
    out.line("start");
    if fail_init {
        return false;
    }
    // interleave the instruments' deliveries, keeping each instrument's order
    let mut idx = vec![0usize; n];
    loop {
        let open: Vec<usize> = (0..n).filter(|&k| idx[k] < deliveries[k].len()).collect();
        if open.is_empty() {
            break;
        }
        let k = *rng.pick(&open);
        if rng.chance(if dom.cfg_many { 12 } else { 3 }) {
            // a message for a symbol that was never subscribed
            let mut m = deliveries[k][idx[k]].clone();
            m.sym = if dom.cfg_many && rng.chance(70) {
                // a never-subscribed symbol whose name extends the subscribed SYM<k>
                let c = 10 * k + rng.below(10) as usize;
                let c = if c < n { 100 * k + rng.below(10) as usize } else { c };
                if c < n { n + rng.below(2) as usize } else { c }
            } else {
                n + rng.below(2) as usize
            };
            out.line(m.line());
        }
        out.line(deliveries[k][idx[k]].line());
        idx[k] += 1;
    }
    if !(dom.reconn && rng.chance(30)) {
        out.line("end");
    }
    true
}

/// small-scope exhaustive: one instrument, snapshot at id 5, every sequence of at most `depth`
/// messages over a grid of id triples around the snapshot point (levels empty: ids only)
fn gen_exhaustive(out: &mut Out, id: &mut usize, depth: usize, b: u64, tag: &str) {
    for rules in ["spot", "fut"] {
        let mut alphabet: Vec<(u64, u64, u64)> = vec![];
        for first in b + 4..=b + 7 {
            for last in [first, first + 1, b + 7].into_iter().filter(|l| *l >= first && *l <= b + 8) {
                for pu in [first - 1, b + 5] {
                    if !alphabet.contains(&(first, last, pu)) {
                        alphabet.push((first, last, pu));
                    }
                }
            }
        }
        let mut seqs: Vec<Vec<(u64, u64, u64)>> = vec![vec![]];
        let mut frontier = seqs.clone();
        for _ in 0..depth {
            let mut next = vec![];
            for s in &frontier {
                for a in &alphabet {
                    let mut t = s.clone();
                    t.push(*a);
                    next.push(t);
                }
            }
            seqs.extend(next.iter().cloned());
            frontier = next;
        }
        for s in seqs.iter().skip(1) {
            *id += 1;
            out.case(format!("{tag}{id}"));
            out.line(format!("init {rules} 1"));
            out.line(format!("venue 0 {}:b:100:1", b + 5));
            out.line(format!("snap 0 {} | 100:1 | ", b + 5));
            out.line("start");
            for (first, last, pu) in s {
                out.line(format!("msg 0 {first} {last} {pu} | | "));
            }
            out.line("end");
        }
    }
}

fn generate(seed: u64, n_cases: usize, tier: &str) {
    let mut out = Out::new();
    let mut rng = Rng::new(seed);
    let mut id = 0usize;
    let thorough = tier == "thorough";
    if thorough {
        gen_exhaustive(&mut out, &mut id, 3, 0, "x");
    }
    let classic = Dom::default();
    for _ in 0..n_cases {
        id += 1;
        out.case(format!("r{id}"));
        gen_random_case(&mut out, &mut rng, thorough, false, &classic);
    }
    // depth-limited snapshots: extra cases from an independent stream (the cases above are unchanged)
    let mut prng = Rng::new(seed ^ 0x9e37_79b9_7f4a_7c15);
    for _ in 0..(n_cases / 4).max(if n_cases > 0 { 10 } else { 0 }) {
        id += 1;
        out.case(format!("p{id}"));
        gen_random_case(&mut out, &mut prng, thorough, true, &classic);
    }
    // input-domain family (a third independent stream; the cases above are unchanged): ids beyond 2^32 / 2^53 /
    // 2^63 and next to 2^64, extreme exact magnitudes, respelt prices, continuing non-genuine messages,
    // `reconnect` at every position
    let mut drng = Rng::new(seed ^ 0x51ed_270b_c0de_d06a);
    for j in 0..(n_cases / 8).max(if n_cases > 0 { 10 } else { 0 }) {
        id += 1;
        out.case(format!("d{id}"));
        let dom = Dom {
            // every offset class in turn, so that a short run has them all
            offset: OFFSETS[j % OFFSETS.len()],
            wide: drng.chance(50),
            restyle: drng.chance(50),
            cont_garbage: drng.chance(40),
            reconn: drng.chance(40),
            cfg_many: false,
        };
        let partial = drng.chance(25);
        gen_random_case(&mut out, &mut drng, thorough, partial, &dom);
    }
    if thorough {
        // the id triples of the small-scope enumeration once more across the 2^32 boundary (snapshot at 2^32 - 1)
        gen_exhaustive(&mut out, &mut id, 2, (1 << 32) - 6, "y");
    }
    // configuration-shape family (a fourth independent stream, ids cfg…; every case above is unchanged): 4-12
    // instruments on one connection, half of them silent, prefix-sharing symbols, unsubscribed extensions
    let mut crng = Rng::new(seed ^ 0xc0f1_6c06_0a11_5e7d);
    for j in 0..(n_cases / 10).max(if n_cases > 0 { 12 } else { 0 }) {
        id += 1;
        out.case(format!("cfg{id}"));
        let dom = Dom {
            offset: OFFSETS[j % 3],
            reconn: crng.chance(30),
            cfg_many: true,
            ..Dom::default()
        };
        let partial = crng.chance(25);
        gen_random_case(&mut out, &mut crng, thorough, partial, &dom);
    }
    out.flush();
}

fn main() {
    let a = args();
    match a.cmd.as_str() {
        "gen" => generate(a.seed, a.n, &a.tier),
        "run" => run(),
        _ => {
            eprintln!("usage: c06 gen <seed> <n> <tier> | run < cases");
            std::process::exit(2)
        }
    }
}

#[allow(dead_code)]
fn _unused(_: DateTime<Utc>) {}
