//! C13S — subscription validation of the market-data connectors.
//!
//! Drives the REAL `SubscriptionValidator::validate` of each connector (`WebSocketSubValidator` for
//! Binance, Bybit, Bitmex, Coinbase, Gateio, Kraken, Okx; `BitfinexWebSocketSubValidator` for Bitfinex)
//! through `<Exchange::SubValidator as SubscriptionValidator>::validate::<Exchange, usize, PublicTrades>`.
//!
//! `WebSocket` is the concrete `WebSocketStream<MaybeTlsStream<TcpStream>>`, so the harness opens a
//! loop-back socket per `run`: a std thread accepts on `127.0.0.1:0`, answers the HTTP upgrade by hand
//! (own SHA-1 / base64; the client side is the repo's `barter_integration::protocol::websocket::connect`)
//! and then writes raw, unmasked server frames on command. Time is tokio's paused clock: the validator
//! future and the "venue" future run joined inside one `block_on`, the venue sleeps virtual milliseconds
//! (`wait` ops) and hands byte segments to the server thread, which acknowledges once the kernel reports
//! the bytes as delivered to the peer (`TIOCOUTQ == 0`); only then does the venue go back to sleep, so
//! which of "frame arrived" / "timeout elapsed" happens first is decided by the op list alone.
//!
//! Ops: `init <exchange> <c:m:ins>*`, `r|rb <response tokens>`, `o|ob <id>`, `ping`, `pong`, `close`,
//! `wserr`, `wait <ms>`, `docok`, `docfail`, `run` (see `lean/BarterModel/Driver/C13S.lean`).
use barter_data::{
    exchange::{
        Connector, binance::spot::BinanceSpot, bitfinex::Bitfinex, bitmex::Bitmex, bybit::spot::BybitSpot,
        coinbase::Coinbase, gateio::spot::GateioSpot, kraken::Kraken, okx::Okx,
    },
    subscriber::validator::SubscriptionValidator,
    subscription::{Map, trade::PublicTrades},
};
use barter_integration::{
    error::SocketError,
    protocol::websocket::{WebSocket, WsMessage, connect},
    subscription::SubscriptionId,
};
use futures::StreamExt;
use smol_str::ToSmolStr;
use std::{
    cell::Cell,
    io::{Read, Write},
    net::{TcpListener, TcpStream},
    os::fd::AsRawFd,
    sync::mpsc,
    time::Duration,
};
use vh::*;

const CHANNELS: [&str; 2] = ["trades", "book"];
const MARKETS: [&str; 3] = ["tBTCUSD", "tETHUSD", "tXRPUSD"];
const EXCHANGES: [&str; 8] = ["binance", "bybit", "bitmex", "coinbase", "gateio", "kraken", "okx", "bitfinex"];

// ------------------------------------------------------------------------------------ sha1 / base64

fn sha1(data: &[u8]) -> [u8; 20] {
    let mut h: [u32; 5] = [0x67452301, 0xEFCDAB89, 0x98BADCFE, 0x10325476, 0xC3D2E1F0];
    let mut msg = data.to_vec();
    let bit_len = (data.len() as u64) * 8;
    msg.push(0x80);
    while msg.len() % 64 != 56 {
        msg.push(0);
    }
    msg.extend_from_slice(&bit_len.to_be_bytes());
    for chunk in msg.chunks(64) {
        let mut w = [0u32; 80];
        for i in 0..16 {
            w[i] = u32::from_be_bytes([chunk[4 * i], chunk[4 * i + 1], chunk[4 * i + 2], chunk[4 * i + 3]]);
        }
        for i in 16..80 {
            w[i] = (w[i - 3] ^ w[i - 8] ^ w[i - 14] ^ w[i - 16]).rotate_left(1);
        }
        let (mut a, mut b, mut c, mut d, mut e) = (h[0], h[1], h[2], h[3], h[4]);
        for (i, wi) in w.iter().enumerate() {
            let (f, k) = match i {
                0..=19 => ((b & c) | (!b & d), 0x5A827999u32),
                20..=39 => (b ^ c ^ d, 0x6ED9EBA1),
                40..=59 => ((b & c) | (b & d) | (c & d), 0x8F1BBCDC),
                _ => (b ^ c ^ d, 0xCA62C1D6),
            };
            let t = a.rotate_left(5).wrapping_add(f).wrapping_add(e).wrapping_add(k).wrapping_add(*wi);
            e = d;
            d = c;
            c = b.rotate_left(30);
            b = a;
            a = t;
        }
        h[0] = h[0].wrapping_add(a);
        h[1] = h[1].wrapping_add(b);
        h[2] = h[2].wrapping_add(c);
        h[3] = h[3].wrapping_add(d);
        h[4] = h[4].wrapping_add(e);
    }
    let mut out = [0u8; 20];
    for i in 0..5 {
        out[4 * i..4 * i + 4].copy_from_slice(&h[i].to_be_bytes());
    }
    out
}

fn base64(data: &[u8]) -> String {
    const T: &[u8; 64] = b"ABCDEFGHIJKLMNOPQRSTUVWXYZabcdefghijklmnopqrstuvwxyz0123456789+/";
    let mut s = String::new();
    for c in data.chunks(3) {
        let b = [c[0], *c.get(1).unwrap_or(&0), *c.get(2).unwrap_or(&0)];
        let n = ((b[0] as u32) << 16) | ((b[1] as u32) << 8) | b[2] as u32;
        s.push(T[(n >> 18) as usize & 63] as char);
        s.push(T[(n >> 12) as usize & 63] as char);
        s.push(if c.len() > 1 { T[(n >> 6) as usize & 63] as char } else { '=' });
        s.push(if c.len() > 2 { T[n as usize & 63] as char } else { '=' });
    }
    s
}

// ------------------------------------------------------------------------------------ loop-back venue

unsafe extern "C" {
    fn ioctl(fd: i32, request: u64, ...) -> i32;
    fn setsockopt(fd: i32, level: i32, name: i32, value: *const Linger, len: u32) -> i32;
}
const TIOCOUTQ: u64 = 0x5411;
const SOL_SOCKET: i32 = 1;
const SO_LINGER: i32 = 13;

#[repr(C)]
struct Linger {
    l_onoff: i32,
    l_linger: i32,
}

/// Close with a reset instead of the FIN handshake: tens of thousands of loop-back connections per minute
/// would otherwise exhaust the ephemeral ports with TIME_WAIT sockets.
fn abort(s: TcpStream) {
    let l = Linger { l_onoff: 1, l_linger: 0 };
    let rc = unsafe { setsockopt(s.as_raw_fd(), SOL_SOCKET, SO_LINGER, &l, std::mem::size_of::<Linger>() as u32) };
    assert!(rc == 0, "setsockopt SO_LINGER failed");
    drop(s);
}

/// bytes written to `s` that the peer's TCP has not acknowledged yet
fn unacked(s: &TcpStream) -> i32 {
    let mut v: i32 = 0;
    let rc = unsafe { ioctl(s.as_raw_fd(), TIOCOUTQ, &mut v as *mut i32) };
    assert!(rc == 0, "ioctl TIOCOUTQ failed");
    v
}

enum Cmd {
    Write(Vec<u8>),
    /// end of stream (FIN); the socket stays until `Abort`
    Finish,
    /// the run is over: reset the connection
    Abort,
}

fn server(listener: TcpListener, rx: mpsc::Receiver<Cmd>, ack: mpsc::Sender<()>) {
    let (mut s, _) = listener.accept().expect("accept");
    s.set_nodelay(true).ok();
    // HTTP upgrade
    let mut req = Vec::new();
    let mut b = [0u8; 1];
    while !req.ends_with(b"\r\n\r\n") {
        if s.read(&mut b).expect("read handshake") == 0 {
            return;
        }
        req.push(b[0]);
    }
    let req = String::from_utf8_lossy(&req).to_string();
    let key = req
        .lines()
        .find_map(|l| {
            let (k, v) = l.split_once(':')?;
            k.trim().eq_ignore_ascii_case("sec-websocket-key").then(|| v.trim().to_string())
        })
        .expect("sec-websocket-key");
    let accept = base64(&sha1(format!("{key}258EAFA5-E914-47DA-95CA-C5AB0DC85B11").as_bytes()));
    write!(
        s,
        "HTTP/1.1 101 Switching Protocols\r\nConnection: Upgrade\r\nUpgrade: websocket\r\nSec-WebSocket-Accept: {accept}\r\n\r\n"
    )
    .expect("write handshake");
    while let Ok(cmd) = rx.recv() {
        match cmd {
            Cmd::Write(bytes) => {
                s.write_all(&bytes).expect("write frames");
                s.flush().ok();
                while unacked(&s) != 0 {
                    std::thread::yield_now();
                }
                ack.send(()).ok();
            }
            Cmd::Finish => {
                s.shutdown(std::net::Shutdown::Write).ok();
                ack.send(()).ok();
            }
            Cmd::Abort => {
                abort(s);
                ack.send(()).ok();
                return;
            }
        }
    }
}

fn ws_frame(opcode: u8, payload: &[u8]) -> Vec<u8> {
    let mut f = vec![0x80 | opcode];
    match payload.len() {
        n if n < 126 => f.push(n as u8),
        n if n < 65536 => {
            f.push(126);
            f.extend_from_slice(&(n as u16).to_be_bytes());
        }
        n => {
            f.push(127);
            f.extend_from_slice(&(n as u64).to_be_bytes());
        }
    }
    f.extend_from_slice(payload);
    f
}

// ------------------------------------------------------------------------------------ payloads

/// JSON of an abstract subscription response (`r` / `rb` op tokens) in the venue's documented shape.
fn response_json(ex: &str, t: &[String]) -> Option<String> {
    let t: Vec<&str> = t.iter().map(|s| s.as_str()).collect();
    Some(match (ex, t.as_slice()) {
        ("binance", ["none"]) => r#"{"id":1,"result":null}"#.to_string(),
        ("binance", ["some", k]) => {
            let k: usize = k.parse().ok()?;
            let items: Vec<String> = (0..k).map(|i| format!("\"s{i}\"")).collect();
            format!(r#"{{"result":[{}],"id":1}}"#, items.join(","))
        }
        ("bybit", [succ, msg]) => {
            let succ = match *succ {
                "1" => "true",
                "0" => "false",
                _ => return None,
            };
            let ret = match *msg {
                "none" => r#""ret_msg":"","#,
                "pong" => r#""ret_msg":"pong","#,
                "subscribe" => r#""ret_msg":"subscribe","#,
                "absent" => "",
                _ => return None,
            };
            format!(r#"{{"success":{succ},{ret}"conn_id":"2324d924-aa4d-45b0-a858-7b8be29ab52b","req_id":"10001","op":"subscribe"}}"#)
        }
        ("bitmex", [succ]) => {
            let succ = match *succ {
                "1" => "true",
                "0" => "false",
                _ => return None,
            };
            format!(r#"{{"success":{succ},"subscribe":"trade:XBTUSD","request":{{"op":"subscribe","args":["trade:XBTUSD"]}}}}"#)
        }
        ("coinbase", ["subscribed", n]) => {
            let n: usize = n.parse().ok()?;
            let chans: Vec<String> = (0..n)
                .map(|i| format!(r#"{{"name":"matches","product_ids":["BTC-USD","P{i}-USD"]}}"#))
                .collect();
            format!(r#"{{"type":"subscriptions","channels":[{}]}}"#, chans.join(","))
        }
        ("coinbase", ["error"]) => {
            r#"{"type":"error","message":"Failed to subscribe","reason":"GIBBERISH-USD is not a valid product"}"#.to_string()
        }
        ("gateio", ["ok"]) => {
            r#"{"time":1606292218,"time_ms":1606292218231,"channel":"spot.trades","event":"subscribe","result":{"status":"success"}}"#.to_string()
        }
        ("gateio", ["oknull"]) => {
            r#"{"time":1606292218,"channel":"spot.trades","event":"subscribe","error":null,"result":{"status":"success"}}"#.to_string()
        }
        ("gateio", ["err", code]) => {
            let code: u8 = code.parse().ok()?;
            format!(r#"{{"time":1606292218,"channel":"spot.trades","event":"subscribe","error":{{"code":{code},"message":"unknown currency pair GIBBERISH_USD"}},"result":{{"status":"fail"}}}}"#)
        }
        ("kraken", ["subscribed", id]) => {
            let id: u64 = id.parse().ok()?;
            format!(r#"{{"channelID":{id},"channelName":"trade","event":"subscriptionStatus","pair":"XBT/EUR","status":"subscribed","subscription":{{"name":"trade"}}}}"#)
        }
        ("kraken", ["error"]) => {
            r#"{"errorMessage":"Subscription name invalid","event":"subscriptionStatus","pair":"XBT/USD","status":"error","subscription":{"name":"trades"}}"#.to_string()
        }
        ("okx", ["subscribed"]) => r#"{"event":"subscribe","args":{"channel":"trades","instId":"BTC-USD-191227"}}"#.to_string(),
        ("okx", ["error", code]) => {
            let code: u32 = code.parse().ok()?;
            format!(r#"{{"event":"error","code":"{code}","msg":"Invalid request"}}"#)
        }
        ("bitfinex", ["info", st]) => {
            let st: u8 = match *st {
                "1" => 1,
                "0" => 0,
                _ => return None,
            };
            format!(r#"{{"event":"info","version":2,"serverId":"srv","platform":{{"status":{st}}}}}"#)
        }
        ("bitfinex", ["subscribed", c, m, id]) => {
            let c: usize = c.parse().ok()?;
            let m: usize = m.parse().ok()?;
            let id: u32 = id.parse().ok()?;
            format!(
                r#"{{"event":"subscribed","channel":"{}","chanId":{id},"symbol":"{}","pair":"BTCUSD"}}"#,
                CHANNELS.get(c)?,
                MARKETS.get(m)?
            )
        }
        ("bitfinex", ["error", code]) => {
            let code: u32 = code.parse().ok()?;
            format!(r#"{{"event":"error","msg":"subscribe: invalid","code":{code}}}"#)
        }
        _ => return None,
    })
}

/// The payloads the connectors' own doc comments give as "subscription success" / "subscription failure".
fn documented_json(ex: &str, ok: bool) -> &'static str {
    match (ex, ok) {
        ("binance", true) => r#"{"id":1,"result":null}"#,
        ("binance", false) => r#"{"id":1,"result":[]}"#,
        ("bybit", true) => r#"{"success":true,"ret_msg":"subscribe","conn_id":"2324d924-aa4d-45b0-a858-7b8be29ab52b","req_id":"10001","op":"subscribe"}"#,
        ("bybit", false) => r#"{"success":false,"ret_msg":"","conn_id":"2324d924-aa4d-45b0-a858-7b8be29ab52b","req_id":"10001","op":"subscribe"}"#,
        ("bitmex", true) => r#"{"success":true,"subscribe":"trade:XBTUSD","request":{"op":"subscribe","args":["trade:XBTUSD"]}}"#,
        // bitmex documents no failure payload: the success payload with `success:false`
        ("bitmex", false) => r#"{"success":false,"subscribe":"trade:XBTUSD","request":{"op":"subscribe","args":["trade:XBTUSD"]}}"#,
        ("coinbase", true) => r#"{"type":"subscriptions","channels":[{"name":"matches","product_ids":["BTC-USD","ETH-USD"]}]}"#,
        ("coinbase", false) => r#"{"type":"error","message":"Failed to subscribe","reason":"GIBBERISH-USD is not a valid product"}"#,
        ("gateio", true) => r#"{"time":1606292218,"time_ms":1606292218231,"channel":"spot.trades","event":"subscribe","result":{"status":"success"}}"#,
        ("gateio", false) => r#"{"time":1606292218,"time_ms":1606292218231,"channel":"spot.trades","event":"subscribe","error":{"code":2,"message":"unknown currency pair GIBBERISH_USD"},"result":null}"#,
        ("kraken", true) => r#"{"channelID":10001,"channelName":"ticker","event":"subscriptionStatus","pair":"XBT/EUR","status":"subscribed","subscription":{"name":"ticker"}}"#,
        ("kraken", false) => r#"{"errorMessage":"Subscription name invalid","event":"subscriptionStatus","pair":"XBT/USD","status":"error","subscription":{"name":"trades"}}"#,
        ("okx", true) => r#"{"event":"subscribe","args":{"channel":"trades","instId":"BTC-USD-191227"}}"#,
        ("okx", false) => r#"{"event":"error","code":"60012","msg":"Invalid request: {\"op\": \"subscribe\", \"args\":[{ \"channel\" : \"trades\", \"instId\" : \"BTC-USD-191227\"}]}"}"#,
        // documented with unquoted keys; the same object as JSON, for the first configured subscription key
        ("bitfinex", true) => r#"{"event":"subscribed","channel":"trades","chanId":999,"symbol":"tBTCUSD","pair":"BTCUSD"}"#,
        ("bitfinex", false) => r#"{"event":"error","msg":"subscribe: invalid","code":10300}"#,
        _ => unreachable!(),
    }
}

#[derive(Clone, Debug)]
enum Item {
    /// a websocket frame: (opcode, payload)
    Frame(u8, Vec<u8>),
    /// a frame the protocol layer rejects (reserved opcode)
    Invalid,
    Wait(u64),
}

// ------------------------------------------------------------------------------------ one run

fn err_kind(e: &SocketError) -> String {
    match e {
        SocketError::Subscribe(m) => {
            if m.starts_with("subscription validation timeout reached") {
                "timeout".into()
            } else if m.starts_with("WebSocket stream terminated unexpectedly") {
                "ended".into()
            } else if m.starts_with("received WebSocket CloseFrame") {
                "closed".into()
            } else if m.contains("out of sequence") {
                "sequence".into()
            } else if m.contains("maintenance mode") {
                "maintenance".into()
            } else if m.starts_with("received failure subscription response") {
                "failure".into()
            } else {
                "other-subscribe".into()
            }
        }
        other => format!("other-{}", format!("{other:?}").split(['(', ' ', '{']).next().unwrap_or("x")),
    }
}

fn key_token(id: &SubscriptionId) -> String {
    let s = id.0.as_str();
    match s.split_once('|') {
        Some((c, m)) => {
            let ci = CHANNELS.iter().position(|x| *x == c);
            let mi = MARKETS.iter().position(|x| *x == m);
            match (ci, mi) {
                (Some(ci), Some(mi)) => format!("{ci}:{mi}"),
                _ => format!("?{s}"),
            }
        }
        None => format!("#{s}"),
    }
}

/// identifies which sent frame a drained message is (its position in the sent list)
fn seq_of(msg: &WsMessage) -> Option<usize> {
    match msg {
        WsMessage::Text(t) => seq_in_json(t.as_str()),
        WsMessage::Binary(b) => seq_in_json(std::str::from_utf8(b).ok()?),
        WsMessage::Ping(p) | WsMessage::Pong(p) => std::str::from_utf8(p).ok()?.parse().ok(),
        WsMessage::Close(Some(cf)) => cf.reason.as_str().parse().ok(),
        _ => None,
    }
}

fn seq_in_json(s: &str) -> Option<usize> {
    let v: serde_json::Value = serde_json::from_str(s).ok()?;
    v.get("seq")?.as_u64().map(|x| x as usize)
}

fn with_seq(json: &str, seq: usize) -> String {
    // every payload used here is a JSON object: add a member the deserialisers ignore
    let body = json.trim_end();
    let body = body.strip_suffix('}').expect("object payload");
    format!("{body},\"seq\":{seq}}}")
}

fn payload_id(msg: &WsMessage) -> String {
    let text = match msg {
        WsMessage::Text(t) => t.as_str().to_string(),
        other => return format!("?{other:?}"),
    };
    match serde_json::from_str::<serde_json::Value>(&text) {
        Ok(v) => match v.get("x").and_then(|x| x.as_u64()) {
            Some(x) => x.to_string(),
            None => "doc".into(),
        },
        Err(_) => "?".into(),
    }
}

fn run_one<E>(entries: &[(usize, usize, usize)], items: &[Item], lines: &mut Vec<String>)
where
    E: Connector + Send,
{
    let map: Map<usize> = entries
        .iter()
        .map(|(c, m, ins)| (SubscriptionId(format!("{}|{}", CHANNELS[*c], MARKETS[*m]).to_smolstr()), *ins))
        .collect();

    let listener = TcpListener::bind("127.0.0.1:0").expect("bind");
    let port = listener.local_addr().unwrap().port();
    let (tx, rx) = mpsc::channel::<Cmd>();
    let (ack_tx, ack_rx) = mpsc::channel::<()>();
    let th = std::thread::spawn(move || server(listener, rx, ack_tx));

    // segments of bytes between waits; frame index -> seq is the position among non-wait items
    let n_frames = items.iter().filter(|i| !matches!(i, Item::Wait(_))).count();
    let invalid_at: Vec<usize> = items
        .iter()
        .filter(|i| !matches!(i, Item::Wait(_)))
        .enumerate()
        .filter_map(|(k, i)| matches!(i, Item::Invalid).then_some(k))
        .collect();

    let rt = tokio::runtime::Builder::new_current_thread().enable_all().build().unwrap();
    let (result, sent, first_left) = rt.block_on(async {
        let url = format!("ws://127.0.0.1:{port}/");
        let mut ws: WebSocket = connect(url).await.expect("connect");
        tokio::time::pause();
        let done = Cell::new(false);
        let sent = Cell::new(0usize);
        let validator = async {
            let r = <E::SubValidator as SubscriptionValidator>::validate::<E, usize, PublicTrades>(map, &mut ws).await;
            done.set(true);
            r
        };
        let venue = async {
            let mut seg: Vec<u8> = Vec::new();
            let mut seg_frames = 0usize;
            let flush = |seg: &mut Vec<u8>, seg_frames: &mut usize| {
                if !seg.is_empty() {
                    tx.send(Cmd::Write(std::mem::take(seg))).unwrap();
                    ack_rx.recv().unwrap();
                    sent.set(sent.get() + *seg_frames);
                    *seg_frames = 0;
                }
            };
            // A run of consecutive `wait`s is ONE silence: the venue sleeps until absolute deadlines measured
            // from the start of the silence (`silence_start + sum of the waits so far`). A relative
            // `sleep(ms)` per `wait` would make n waits last n ms longer than their sum: tokio's timer wheel
            // rounds every deadline UP to its next millisecond tick, and under the paused clock `now` keeps
            // the sub-millisecond offset it had when the clock was paused, so every relative sleep lasts
            // `ms + 1` ticks (as does the validator's own 10 000 ms sleep, armed at the same instant as the
            // silence starts). With absolute deadlines the whole silence is rounded once, like the
            // validator's sleep: `wait 5000; wait 4999` ends one tick before the timeout, as `wait 9999` does.
            let mut silence: Option<(tokio::time::Instant, u64)> = None;
            const FAR_MS: u64 = 86_400_000 * 365 * 30;
            for it in items {
                match it {
                    Item::Frame(op, p) => {
                        silence = None;
                        seg.extend(ws_frame(*op, p));
                        seg_frames += 1;
                    }
                    Item::Invalid => {
                        silence = None;
                        seg.extend([0x83u8, 0x00]);
                        seg_frames += 1;
                    }
                    Item::Wait(ms) => {
                        flush(&mut seg, &mut seg_frames);
                        // let the validator take what has arrived before virtual time moves on
                        for _ in 0..4 {
                            tokio::task::yield_now().await;
                        }
                        if done.get() {
                            break;
                        }
                        let (start, so_far) = silence.unwrap_or((tokio::time::Instant::now(), 0));
                        let total = so_far.saturating_add(*ms);
                        silence = Some((start, total));
                        tokio::time::sleep_until(start + Duration::from_millis(total.min(FAR_MS))).await;
                        if done.get() {
                            break;
                        }
                    }
                }
            }
            if !done.get() {
                flush(&mut seg, &mut seg_frames);
            }
            // the venue has nothing more to say: end of stream, in real time
            tx.send(Cmd::Finish).unwrap();
            ack_rx.recv().unwrap();
            tokio::time::resume();
        };
        let (r, ()) = futures::join!(validator, venue);
        // what the validator left in the socket
        let first_left = match ws.next().await {
            Some(Ok(m)) => format!("seq {}", seq_of(&m).map(|s| s.to_string()).unwrap_or("?".into())),
            Some(Err(e)) => {
                let d = format!("{e:?}");
                if d.contains("ResetWithoutClosingHandshake") { "eof".into() } else { "invalid".to_string() }
            }
            None => "eof".into(),
        };
        // the harness has read all it wants: reset the connection from the venue's side, then let go
        tx.send(Cmd::Abort).unwrap();
        ack_rx.recv().unwrap();
        drop(ws);
        (r, sent.get(), first_left)
    });
    th.join().ok();
    let _ = n_frames;

    match result {
        Ok((map, buffered)) => {
            lines.push("res ok".into());
            lines.push(format!(
                "buf {}",
                buffered.iter().map(payload_id).collect::<Vec<_>>().join(" ")
            ));
            let consumed = if let Some(s) = first_left.strip_prefix("seq ") {
                s.to_string()
            } else if first_left == "eof" {
                sent.to_string()
            } else {
                // the first unread frame is an invalid one: the first, since the validator would have
                // failed on an earlier one
                match invalid_at.iter().find(|k| **k < sent) {
                    Some(k) => k.to_string(),
                    None => "?".into(),
                }
            };
            lines.push(format!("consumed {consumed}"));
            let mut ents: Vec<String> = map.0.iter().map(|(k, v)| format!("{}={}", key_token(k), v)).collect();
            ents.sort();
            lines.push(format!("map {}", ents.join(" ")));
        }
        Err(e) => lines.push(format!("res err:{}", err_kind(&e))),
    }
}

fn dispatch(ex: &str, entries: &[(usize, usize, usize)], items: &[Item], lines: &mut Vec<String>) {
    match ex {
        "binance" => run_one::<BinanceSpot>(entries, items, lines),
        "bybit" => run_one::<BybitSpot>(entries, items, lines),
        "bitmex" => run_one::<Bitmex>(entries, items, lines),
        "coinbase" => run_one::<Coinbase>(entries, items, lines),
        "gateio" => run_one::<GateioSpot>(entries, items, lines),
        "kraken" => run_one::<Kraken>(entries, items, lines),
        "okx" => run_one::<Okx>(entries, items, lines),
        "bitfinex" => run_one::<Bitfinex>(entries, items, lines),
        other => panic!("unknown exchange {other}"),
    }
}

fn init_obs<E: Connector>(entries: &[(usize, usize, usize)], lines: &mut Vec<String>) {
    let map: Map<usize> = entries
        .iter()
        .map(|(c, m, ins)| (SubscriptionId(format!("{}|{}", CHANNELS[*c], MARKETS[*m]).to_smolstr()), *ins))
        .collect();
    lines.push(format!("expected {}", E::expected_responses(&map)));
    lines.push(format!("timeout {}", E::subscription_timeout().as_millis()));
}

fn parse_entry(t: &str) -> Option<(usize, usize, usize)> {
    let p: Vec<&str> = t.split(':').collect();
    if p.len() != 3 {
        return None;
    }
    let c: usize = p[0].parse().ok()?;
    let m: usize = p[1].parse().ok()?;
    let i: usize = p[2].parse().ok()?;
    (c < CHANNELS.len() && m < MARKETS.len()).then_some((c, m, i))
}

fn run() {
    run_cases(|case, lines| {
        let mut ex: Option<String> = None;
        let mut entries: Vec<(usize, usize, usize)> = vec![];
        let mut items: Vec<Item> = vec![];
        for op in &case.ops {
            lines.push("@".into());
            let seq = items.iter().filter(|i| !matches!(i, Item::Wait(_))).count();
            match op[0].as_str() {
                "init" => {
                    let name = op.get(1).map(|s| s.as_str()).unwrap_or("");
                    let es: Option<Vec<_>> = op[2.min(op.len())..].iter().map(|t| parse_entry(t)).collect();
                    match (EXCHANGES.contains(&name), es) {
                        (true, Some(es)) => {
                            ex = Some(name.to_string());
                            entries = es;
                            items.clear();
                            match name {
                                "binance" => init_obs::<BinanceSpot>(&entries, lines),
                                "bybit" => init_obs::<BybitSpot>(&entries, lines),
                                "bitmex" => init_obs::<Bitmex>(&entries, lines),
                                "coinbase" => init_obs::<Coinbase>(&entries, lines),
                                "gateio" => init_obs::<GateioSpot>(&entries, lines),
                                "kraken" => init_obs::<Kraken>(&entries, lines),
                                "okx" => init_obs::<Okx>(&entries, lines),
                                _ => init_obs::<Bitfinex>(&entries, lines),
                            }
                        }
                        _ => lines.push("bad-op".into()),
                    }
                }
                _ if ex.is_none() => lines.push("bad-op".into()),
                "r" | "rb" => match response_json(ex.as_ref().unwrap(), &op[1..]) {
                    Some(j) => {
                        let opcode = if op[0] == "r" { 1 } else { 2 };
                        items.push(Item::Frame(opcode, with_seq(&j, seq).into_bytes()));
                    }
                    None => lines.push("bad-op".into()),
                },
                "docok" | "docfail" if op.len() == 1 => {
                    let j = documented_json(ex.as_ref().unwrap(), op[0] == "docok");
                    items.push(Item::Frame(1, with_seq(j, seq).into_bytes()));
                }
                "o" | "ob" => match op.get(1).and_then(|s| s.parse::<u64>().ok()) {
                    Some(id) if op.len() == 2 => {
                        let opcode = if op[0] == "o" { 1 } else { 2 };
                        items.push(Item::Frame(opcode, format!("{{\"x\":{id},\"seq\":{seq}}}").into_bytes()));
                    }
                    _ => lines.push("bad-op".into()),
                },
                "ping" if op.len() == 1 => items.push(Item::Frame(9, seq.to_string().into_bytes())),
                "pong" if op.len() == 1 => items.push(Item::Frame(10, seq.to_string().into_bytes())),
                "close" if op.len() == 1 => {
                    let mut p = vec![0x03u8, 0xE8];
                    p.extend(seq.to_string().into_bytes());
                    items.push(Item::Frame(8, p));
                }
                "wserr" if op.len() == 1 => items.push(Item::Invalid),
                "wait" => match op.get(1).and_then(|s| s.parse::<u64>().ok()) {
                    Some(ms) if op.len() == 2 => items.push(Item::Wait(ms)),
                    _ => lines.push("bad-op".into()),
                },
                "run" if op.len() == 1 => dispatch(ex.as_ref().unwrap(), &entries, &items, lines),
                _ => lines.push("bad-op".into()),
            }
        }
    });
}

// ------------------------------------------------------------------------------------ generator

fn gen_response(rng: &mut Rng, ex: &str, entries: &[(usize, usize, usize)], fail_pct: u64) -> String {
    let fail = rng.chance(fail_pct);
    match ex {
        "binance" => {
            if fail { format!("some {}", rng.below(3)) } else { "none".into() }
        }
        "bybit" => {
            if fail {
                (*rng.pick(&["0 none", "0 subscribe", "0 absent", "1 pong", "0 pong"])).into()
            } else {
                (*rng.pick(&["1 none", "1 subscribe", "1 absent"])).into()
            }
        }
        "bitmex" => if fail { "0".into() } else { "1".into() },
        "coinbase" => if fail { "error".into() } else { format!("subscribed {}", rng.below(3)) },
        "gateio" => {
            if fail { format!("err {}", rng.below(4)) } else { (*rng.pick(&["ok", "oknull"])).into() }
        }
        "kraken" => if fail { "error".into() } else { format!("subscribed {}", rng.below(5)) },
        "okx" => if fail { format!("error {}", 60012 + rng.below(2)) } else { "subscribed".into() },
        _ => {
            // bitfinex
            if fail {
                if rng.chance(50) { "info 0".into() } else { format!("error {}", 10300 + rng.below(3)) }
            } else if rng.chance(15) {
                "info 1".into()
            } else {
                // mostly a configured key, sometimes a foreign one; channel ids from a small pool
                let (c, m) = if !entries.is_empty() && rng.chance(85) {
                    let e = rng.pick(entries);
                    (e.0, e.1)
                } else {
                    (rng.below(2) as usize, rng.below(3) as usize)
                };
                format!("subscribed {c} {m} {}", 10 + rng.below(5))
            }
        }
    }
}

fn random_op(rng: &mut Rng, ex: &str, entries: &[(usize, usize, usize)], fail_pct: u64, other_pct: u64) -> String {
    let roll = rng.below(100);
    if roll < other_pct {
        format!("{} {}", rng.pick(&["o", "o", "ob"]), rng.below(6))
    } else if roll < other_pct + 8 {
        (*rng.pick(&["ping", "pong"])).to_string()
    } else if roll < other_pct + 11 {
        "close".into()
    } else if roll < other_pct + 13 {
        "wserr".into()
    } else if roll < other_pct + 22 {
        // never sums to exactly the 10 s timeout: multiples of 3 s, or more than 10 s at once
        format!("wait {}", rng.pick(&[3000u64, 3000, 6000, 9000, 12000]))
    } else if roll < other_pct + 25 && ex != "gateio" {
        // (gateio: the documented failure payload does not deserialise; `docfail` is left to the corpus-free
        // demonstration in the report, the spec would call it a failure response)
        (*rng.pick(&["docok", "docfail"])).to_string()
    } else if roll < other_pct + 26 && ex == "gateio" {
        "docok".into()
    } else {
        let kind = *rng.pick(&["r", "r", "r", "rb"]);
        format!("{kind} {}", gen_response(rng, ex, entries, fail_pct))
    }
}

/// a script that validates successfully: the expected confirmations, market events in between
fn valid_script(rng: &mut Rng, ex: &str, entries: &[(usize, usize, usize)]) -> Vec<String> {
    let mut ops: Vec<String> = vec![];
    if ex == "bitfinex" {
        // distinct keys of the map, confirmed in a random order, each followed by its snapshot
        let mut keys: Vec<(usize, usize)> = vec![];
        for e in entries {
            if !keys.contains(&(e.0, e.1)) {
                keys.push((e.0, e.1));
            }
        }
        for i in (1..keys.len()).rev() {
            let j = rng.below(i as u64 + 1) as usize;
            keys.swap(i, j);
        }
        if rng.chance(60) {
            ops.push("r info 1".into());
        }
        let mut snaps_owed = 0;
        for (n, (c, m)) in keys.iter().enumerate() {
            ops.push(format!("r subscribed {c} {m} {}", 10 + n));
            snaps_owed += 1;
            while snaps_owed > 0 && rng.chance(70) {
                ops.push(format!("o {}", rng.below(6)));
                snaps_owed -= 1;
            }
        }
        for _ in 0..snaps_owed {
            ops.push(format!("o {}", rng.below(6)));
        }
    } else {
        let k = match ex {
            "binance" | "bybit" | "bitmex" => 1,
            _ => {
                let mut keys: Vec<(usize, usize)> = vec![];
                for e in entries {
                    if !keys.contains(&(e.0, e.1)) {
                        keys.push((e.0, e.1));
                    }
                }
                keys.len()
            }
        };
        for _ in 0..k {
            while rng.chance(35) {
                ops.push(random_op(rng, ex, entries, 0, 70));
            }
            ops.push(format!("{} {}", rng.pick(&["r", "r", "rb"]), gen_response(rng, ex, entries, 0)));
        }
    }
    ops
}

fn gen_case(rng: &mut Rng, out: &mut Out, ex: &str, thorough: bool) {
    let n = *rng.pick(&[0usize, 1, 1, 2, 2, 3, 3]);
    let mut entries: Vec<(usize, usize, usize)> = vec![];
    for i in 0..n {
        entries.push((rng.below(2) as usize, rng.below(3) as usize, 5 + i));
    }
    out.line(format!(
        "init {ex} {}",
        entries.iter().map(|(c, m, i)| format!("{c}:{m}:{i}")).collect::<Vec<_>>().join(" ")
    ));
    let fail_pct = *rng.pick(&[0u64, 0, 10, 30]);
    let other_pct = *rng.pick(&[10u64, 30, 50]);
    let mut ops: Vec<String> = vec![];
    if rng.chance(55) {
        // mostly valid: a successful script, 0-2 mutations, something queued behind it
        ops = valid_script(rng, ex, &entries);
        for _ in 0..*rng.pick(&[0usize, 0, 1, 1, 2]) {
            let pos = rng.below(ops.len() as u64 + 1) as usize;
            match rng.below(3) {
                0 => ops.insert(pos, random_op(rng, ex, &entries, fail_pct.max(10), other_pct)),
                1 if pos < ops.len() => {
                    ops.remove(pos);
                }
                _ if pos < ops.len() => ops[pos] = random_op(rng, ex, &entries, fail_pct.max(10), other_pct),
                _ => {}
            }
        }
        for _ in 0..rng.below(3) {
            ops.push(random_op(rng, ex, &entries, fail_pct, other_pct));
        }
    } else {
        let len = rng.range(0, if thorough { 14 } else { 10 });
        for _ in 0..len {
            ops.push(random_op(rng, ex, &entries, fail_pct, other_pct));
        }
    }
    // a silence that ends just before / just after the 10 s timeout, given as 1-4 consecutive waits of
    // arbitrary (non-round, possibly zero) lengths
    if rng.chance(20) {
        let total = if rng.chance(50) { 9_990 + rng.below(10) } else { 10_001 + rng.below(10) };
        let parts = 1 + rng.below(4);
        let mut cuts: Vec<u64> = (1..parts).map(|_| rng.below(total + 1)).collect();
        cuts.push(0);
        cuts.push(total);
        cuts.sort();
        let pos = rng.below(ops.len() as u64 + 1) as usize;
        for (k, w) in cuts.windows(2).enumerate() {
            ops.insert(pos + k, format!("wait {}", w[1] - w[0]));
        }
    }
    let mut lines: Vec<String> = vec![];
    let mut runs = 0;
    let len = ops.len();
    for (k, op) in ops.into_iter().enumerate() {
        lines.push(op);
        if k + 1 < len && rng.chance(10) && runs < 2 {
            runs += 1;
            lines.push("run".into());
        }
    }
    // how the stream goes on after the last frame: silence (timeout) or end of stream
    if rng.chance(50) {
        lines.push("wait 12000".into());
    }
    lines.push("run".into());
    for l in no_exact_deadline(lines) {
        out.line(l);
    }
}

/// No silence may reach the 10 s timeout exactly at the end of one of its waits (the validator's sleep and
/// the venue's next frame would become ready in the same timer tick): such a wait is lengthened by 1 ms.
/// `run` lines do not interrupt a silence (every run replays everything so far).
fn no_exact_deadline(lines: Vec<String>) -> Vec<String> {
    let mut silence = 0u64;
    lines
        .into_iter()
        .map(|l| {
            if l == "run" {
                return l;
            }
            match l.strip_prefix("wait ").and_then(|m| m.parse::<u64>().ok()) {
                Some(ms) => {
                    let ms = if silence + ms == 10_000 { ms + 1 } else { ms };
                    silence += ms;
                    format!("wait {ms}")
                }
                None => {
                    silence = 0;
                    l
                }
            }
        })
        .collect()
}

/// every sequence of at most `max_len` symbols, each followed by end of stream
fn exhaustive(out: &mut Out, tag: &str, init: &str, syms: &[&str], max_len: usize) {
    let mut id = 0usize;
    for len in 0..=max_len {
        let total = syms.len().pow(len as u32);
        for mut code in 0..total {
            id += 1;
            out.case(format!("{tag}{id}"));
            out.line(init);
            for _ in 0..len {
                out.line(syms[code % syms.len()]);
                code /= syms.len();
            }
            out.line("run");
        }
    }
}

fn generate(seed: u64, n_cases: usize, tier: &str) {
    let mut out = Out::new();
    let mut rng = Rng::new(seed);
    let thorough = tier == "thorough";
    if thorough {
        // generic validator, two subscriptions (expected = 2): 7 symbols, length <= 4
        exhaustive(
            &mut out,
            "xk",
            "init kraken 0:0:5 0:1:6",
            &["r subscribed 1", "r error", "o 1", "ping", "close", "wserr", "wait 6000"],
            4,
        );
        // single-response venue (expected = 1 whatever the map): bybit incl. its pong, length <= 3
        exhaustive(
            &mut out,
            "xb",
            "init bybit 0:0:5 0:1:6",
            &["r 1 subscribe", "r 0 none", "r 1 pong", "o 1", "pong", "close", "wait 6000"],
            3,
        );
        // bitfinex, two subscriptions: 9 symbols, length <= 4 (+ a fifth position fixed to a payload)
        exhaustive(
            &mut out,
            "xf",
            "init bitfinex 0:0:5 0:1:6",
            &[
                "r subscribed 0 0 10",
                "r subscribed 0 1 11",
                "r subscribed 0 1 10",
                "r subscribed 1 2 12",
                "r info 1",
                "r error 10300",
                "o 1",
                "wait 6000",
                "close",
            ],
            4,
        );
    }
    for id in 0..n_cases {
        out.case(format!("r{id}"));
        let ex = EXCHANGES[id % EXCHANGES.len()];
        gen_case(&mut rng, &mut out, ex, thorough);
    }
    out.flush();
}

/// `c13s probe`: what the real deserialisers make of a few payloads (facts quoted in the report; not part
/// of the check)
fn probe() {
    use barter_data::exchange::{binance::subscription::BinanceSubResponse, gateio::subscription::GateioSubResponse};
    use barter_integration::Validator;
    let gate_fail = documented_json("gateio", false);
    println!(
        "gateio documented failure payload -> {:?}",
        serde_json::from_str::<GateioSubResponse>(gate_fail).map(|r| r.validate().is_ok()).map_err(|e| e.to_string())
    );
    for j in [r#"{"id":5}"#, r#"{"e":"trade","id":7,"s":"BTCUSDT"}"#] {
        println!(
            "binance {j} -> {:?}",
            serde_json::from_str::<BinanceSubResponse>(j).map(|r| r.validate().is_ok()).map_err(|e| e.to_string())
        );
    }
}

fn main() {
    let a = args();
    match a.cmd.as_str() {
        "gen" => generate(a.seed, a.n, &a.tier),
        "run" => run(),
        "probe" => probe(),
        // exit 3 when the sandbox offers no loop-back TCP (the check then runs the proof obligations only)
        "probe-env" => {
            let ok = TcpListener::bind("127.0.0.1:0").and_then(|l| {
                let addr = l.local_addr()?;
                let c = TcpStream::connect(addr)?;
                let _ = l.accept()?;
                drop(c);
                Ok(())
            });
            if let Err(e) = ok {
                println!("no loop-back TCP socket: {e}");
                std::process::exit(3)
            }
        }
        _ => {
            eprintln!("usage: c13s gen <seed> <n> <tier> | run < cases");
            std::process::exit(2)
        }
    }
}
