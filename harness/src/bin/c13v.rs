//! C13V — which subscriptions are accepted: the exchange / instrument kind / subscription kind support
//! tables, validation of batches, and the grouping of `DynamicStreams::init`.
//!
//! Driven REAL code (in-process, nothing here touches the network):
//!   * `exchange_supports_instrument_kind`, `exchange_supports_instrument_kind_sub_kind` over the whole
//!     `ExchangeId` x kind x `SubKind` table, both `Validator for Subscription` impls, `Connector::ID`,
//!     the `impl StreamSelector` table (detected per concrete type pair at compile time),
//!     `SubKind` / `SubscriptionKind::as_str` / the `Display`s, `display_subscriptions_without_exchange`;
//!   * `validate_subscriptions`, `validate_batches` (pub fns of dynamic/mod.rs);
//!   * `DynamicStreams::init` itself ONLY on inputs that return before any connection is attempted (a
//!     validation error; or no subscription at all), `select_*` / `select_all_*` / `select_all` on a
//!     hand-built `DynamicStreams` (pub fields) whose streams carry a marker item;
//!   * `generate_indexed_market_data_subscription_batches`, `index_market_data_subscription_batches` on a
//!     real `IndexedInstruments`;
//!   * `StreamBuilder::{subscribe, init}`, `MultiStreamBuilder::{add, init}`, `init_market_stream` on an
//!     empty list: `init` is really AWAITED on every `sbinit` / `minit`. What is compared is what its FIRST
//!     poll returns while every name lookup is held back (the gate of c13d.rs `drive`: the runtime has one
//!     blocking thread, occupied until the first poll has returned): `Ready(Ok)` = `res ok`, `Ready(Err)` =
//!     `res err <Display>` (a future failed before the network — `try_join_all` polls EVERY future of a
//!     small list in one pass and returns the first `Err` of the pass, also behind a future that is pending
//!     on its connection attempt), `Pending` = `res network` (independent of whether a network exists).
//!     The future is then awaited to its end (offline: the lookup fails at once, `Err(Socket("WebSocket
//!     error: ..")`), reported in a `#` comment line only;
//!   * `Map::{from_iter, find, find_mut}`.
//!
//! REPLICATED (the code is inlined in the async `init` behind the network): the per-batch grouping
//! `batch.sort_unstable_by_key(|sub| (sub.exchange, sub.kind)); batch.into_iter().chunk_by(..)` is
//! replicated as the same `sort_unstable_by_key` call followed by `slice::chunk_by` on equal keys
//! (itertools is not a dependency of the harness; both produce the maximal runs of equal keys), on the
//! real `Subscription` values returned by the real `validate_batches`; the loop of the private
//! `Channels::try_from` is replicated on `Vec`s; the `(ExchangeId, SubKind)` arms of the `match`, the
//! `txs.<family>` each arm forwards to and the fall-through arm are READ FROM THE SOURCE TEXT of
//! dynamic/mod.rs (op `arms`).
use barter_data::{
    error::DataError,
    event::DataKind,
    exchange::{
        Connector, StreamSelector,
        binance::{futures::BinanceFuturesUsd, spot::BinanceSpot},
        bitfinex::Bitfinex,
        bitmex::Bitmex,
        bybit::{futures::BybitPerpetualsUsd, spot::BybitSpot},
        coinbase::Coinbase,
        gateio::{
            future::{GateioFuturesBtc, GateioFuturesUsd},
            option::GateioOptions,
            perpetual::{GateioPerpetualsBtc, GateioPerpetualsUsd},
            spot::GateioSpot,
        },
        kraken::Kraken,
        okx::Okx,
    },
    instrument::MarketInstrumentData,
    streams::{
        builder::{
            StreamBuilder,
            dynamic::{
                DynamicStreams,
                indexed::{
                    generate_indexed_market_data_subscription_batches,
                    index_market_data_subscription_batches,
                },
                validate_batches, validate_subscriptions,
            },
            multi::MultiStreamBuilder,
        },
        consumer::{MarketStreamResult, STREAM_RECONNECTION_POLICY, init_market_stream},
        reconnect::Event,
    },
    subscription::{
        Map, SubKind, Subscription, SubscriptionKind,
        book::{OrderBooksL1, OrderBooksL2, OrderBooksL3},
        candle::Candles,
        display_subscriptions_without_exchange, exchange_supports_instrument_kind,
        exchange_supports_instrument_kind_sub_kind,
        liquidation::Liquidations,
        trade::PublicTrades,
    },
};
use barter_instrument::{
    Keyed, Underlying,
    asset::Asset,
    exchange::ExchangeId,
    index::{IndexedInstruments, error::IndexError},
    instrument::{
        Instrument, InstrumentIndex,
        kind::{
            InstrumentKind,
            future::FutureContract,
            option::{OptionContract, OptionExercise, OptionKind},
            perpetual::PerpetualContract,
        },
        market_data::{
            MarketDataInstrument,
            kind::{MarketDataFutureContract, MarketDataInstrumentKind, MarketDataOptionContract},
        },
        quote::InstrumentQuoteAsset,
    },
};
use barter_integration::{Validator, subscription::SubscriptionId};
use chrono::{DateTime, TimeZone, Utc};
use futures::StreamExt;
use rust_decimal::Decimal;
use std::{marker::PhantomData, sync::atomic::{AtomicBool, Ordering}, time::Duration};
use tokio_stream::wrappers::UnboundedReceiverStream;
use vh::*;

// ------------------------------------------------------------------------------------------------ enums

/// Every `ExchangeId`, in declaration order; `main` checks `ALL[i] as usize == i` and that the list is
/// strictly ascending in the derived `Ord`.
const ALL: [ExchangeId; 42] = [
    ExchangeId::Other,
    ExchangeId::Simulated,
    ExchangeId::Mock,
    ExchangeId::BinanceFuturesCoin,
    ExchangeId::BinanceFuturesUsd,
    ExchangeId::BinanceOptions,
    ExchangeId::BinancePortfolioMargin,
    ExchangeId::BinanceSpot,
    ExchangeId::BinanceUs,
    ExchangeId::Bitazza,
    ExchangeId::Bitfinex,
    ExchangeId::Bitflyer,
    ExchangeId::Bitget,
    ExchangeId::Bitmart,
    ExchangeId::BitmartFuturesUsd,
    ExchangeId::Bitmex,
    ExchangeId::Bitso,
    ExchangeId::Bitstamp,
    ExchangeId::Bitvavo,
    ExchangeId::Bithumb,
    ExchangeId::BybitPerpetualsUsd,
    ExchangeId::BybitSpot,
    ExchangeId::Cexio,
    ExchangeId::Coinbase,
    ExchangeId::CoinbaseInternational,
    ExchangeId::Cryptocom,
    ExchangeId::Deribit,
    ExchangeId::GateioFuturesBtc,
    ExchangeId::GateioFuturesUsd,
    ExchangeId::GateioOptions,
    ExchangeId::GateioPerpetualsBtc,
    ExchangeId::GateioPerpetualsUsd,
    ExchangeId::GateioSpot,
    ExchangeId::Gemini,
    ExchangeId::Hitbtc,
    ExchangeId::Htx,
    ExchangeId::Kraken,
    ExchangeId::Kucoin,
    ExchangeId::Liquid,
    ExchangeId::Mexc,
    ExchangeId::Okx,
    ExchangeId::Poloniex,
];

const KINDS: [SubKind; 6] = [
    SubKind::PublicTrades,
    SubKind::OrderBooksL1,
    SubKind::OrderBooksL2,
    SubKind::OrderBooksL3,
    SubKind::Liquidations,
    SubKind::Candles,
];

fn exch(n: usize) -> ExchangeId {
    ALL[n]
}
fn exch_no(e: ExchangeId) -> usize {
    e as usize
}
fn kind_no(k: SubKind) -> usize {
    k as usize
}

const FAMILIES: [&str; 4] = ["trades", "l1s", "l2s", "liquidations"];

// ------------------------------------------------------------------------------------------------ tokens

type Inst = MarketDataInstrument;
type DSub = Subscription<ExchangeId, Inst, SubKind>;

fn time(ms: i64) -> DateTime<Utc> {
    Utc.timestamp_millis_opt(ms).unwrap()
}

fn parse_ik(t: &str) -> MarketDataInstrumentKind {
    match t.as_bytes()[0] {
        b's' if t.len() == 1 => MarketDataInstrumentKind::Spot,
        b'p' if t.len() == 1 => MarketDataInstrumentKind::Perpetual,
        b'f' => MarketDataInstrumentKind::Future(MarketDataFutureContract {
            expiry: time(t[1..].parse().expect("expiry")),
        }),
        b'o' => {
            let f: Vec<i64> = t[1..].split('.').map(|x| x.parse().expect("option field")).collect();
            assert_eq!(f.len(), 4, "option token");
            MarketDataInstrumentKind::Option(MarketDataOptionContract {
                kind: [OptionKind::Call, OptionKind::Put][f[0] as usize],
                exercise: [
                    OptionExercise::American,
                    OptionExercise::Bermudan,
                    OptionExercise::European,
                ][f[1] as usize],
                expiry: time(f[2]),
                strike: Decimal::from(f[3]),
            })
        }
        _ => panic!("bad-op kind token {t}"),
    }
}

fn ik_tok(k: &MarketDataInstrumentKind) -> String {
    match k {
        MarketDataInstrumentKind::Spot => "s".into(),
        MarketDataInstrumentKind::Perpetual => "p".into(),
        MarketDataInstrumentKind::Future(c) => format!("f{}", c.expiry.timestamp_millis()),
        MarketDataInstrumentKind::Option(c) => format!(
            "o{}.{}.{}.{}",
            match c.kind {
                OptionKind::Call => 0,
                OptionKind::Put => 1,
            },
            match c.exercise {
                OptionExercise::American => 0,
                OptionExercise::Bermudan => 1,
                OptionExercise::European => 2,
            },
            c.expiry.timestamp_millis(),
            c.strike
        ),
    }
}

fn asset_name(n: usize) -> String {
    format!("a{n:03}")
}
fn un(s: &str) -> usize {
    s[1..].parse().expect("name")
}

fn parse_inst(t: &str) -> Inst {
    let p: Vec<&str> = t.split('/').collect();
    assert_eq!(p.len(), 3, "instrument token {t}");
    MarketDataInstrument::new(
        asset_name(p[0].parse().expect("base")),
        asset_name(p[1].parse().expect("quote")),
        parse_ik(p[2]),
    )
}

fn inst_tok(i: &Inst) -> String {
    format!("{}/{}/{}", un(i.base.as_ref()), un(i.quote.as_ref()), ik_tok(&i.kind))
}

fn parse_sub(t: &str) -> DSub {
    let p: Vec<&str> = t.split(',').collect();
    assert_eq!(p.len(), 3, "subscription token {t}");
    Subscription::new(
        exch(p[0].parse().expect("exchange")),
        parse_inst(p[1]),
        KINDS[p[2].parse::<usize>().expect("kind")],
    )
}

fn sub_tok(s: &DSub) -> String {
    format!("{},{},{}", exch_no(s.exchange), inst_tok(&s.instrument), kind_no(s.kind))
}

/// `B | B | ...` -> batches
fn parse_batches(toks: &[String]) -> Vec<Vec<DSub>> {
    let mut out = vec![];
    if toks.is_empty() {
        return out;
    }
    for part in toks.split(|t| t == "|") {
        out.push(part.iter().map(|t| parse_sub(t)).collect());
    }
    out
}

// ------------------------------------------------------------------------------------------------ static types

/// `Probe::<E, K>::SEL` is `true` iff `E: StreamSelector<MarketDataInstrument, K>` (inherent associated
/// constants shadow trait constants; resolved per concrete type pair, so the table below cannot lie).
struct Probe<E, K>(PhantomData<(E, K)>);
trait NoSel {
    const SEL: bool = false;
}
impl<T> NoSel for T {}
impl<E, K> Probe<E, K>
where
    K: SubscriptionKind,
    E: StreamSelector<MarketDataInstrument, K>,
{
    const SEL: bool = true;
}

macro_rules! sel_row {
    ($e:ty) => {
        [
            Probe::<$e, PublicTrades>::SEL,
            Probe::<$e, OrderBooksL1>::SEL,
            Probe::<$e, OrderBooksL2>::SEL,
            Probe::<$e, OrderBooksL3>::SEL,
            Probe::<$e, Liquidations>::SEL,
            Probe::<$e, Candles>::SEL,
        ]
    };
}

/// connector types in the order of `Connectors.Exch`
const SEL: [[bool; 6]; 15] = [
    sel_row!(BinanceSpot),
    sel_row!(BinanceFuturesUsd),
    sel_row!(Bitfinex),
    sel_row!(Bitmex),
    sel_row!(BybitSpot),
    sel_row!(BybitPerpetualsUsd),
    sel_row!(Coinbase),
    sel_row!(GateioSpot),
    sel_row!(GateioFuturesUsd),
    sel_row!(GateioFuturesBtc),
    sel_row!(GateioPerpetualsUsd),
    sel_row!(GateioPerpetualsBtc),
    sel_row!(GateioOptions),
    sel_row!(Kraken),
    sel_row!(Okx),
];

const IDS: [ExchangeId; 15] = [
    <BinanceSpot as Connector>::ID,
    <BinanceFuturesUsd as Connector>::ID,
    <Bitfinex as Connector>::ID,
    <Bitmex as Connector>::ID,
    <BybitSpot as Connector>::ID,
    <BybitPerpetualsUsd as Connector>::ID,
    <Coinbase as Connector>::ID,
    <GateioSpot as Connector>::ID,
    <GateioFuturesUsd as Connector>::ID,
    <GateioFuturesBtc as Connector>::ID,
    <GateioPerpetualsUsd as Connector>::ID,
    <GateioPerpetualsBtc as Connector>::ID,
    <GateioOptions as Connector>::ID,
    <Kraken as Connector>::ID,
    <Okx as Connector>::ID,
];

/// the static `validate` (needs no `StreamSelector`): `Ok` or the `SocketError` text
fn stat_validate<E: Connector, K>(k: K, inst: Inst) -> Result<(), String> {
    Subscription::<E, Inst, K>::new(E::default(), inst, k)
        .validate()
        .map(|_| ())
        .map_err(|e| e.to_string())
}

macro_rules! with_conn {
    ($c:expr, $f:ident, $k:ty, $($args:expr),*) => {
        match $c {
            0 => $f::<BinanceSpot, $k>($($args),*),
            1 => $f::<BinanceFuturesUsd, $k>($($args),*),
            2 => $f::<Bitfinex, $k>($($args),*),
            3 => $f::<Bitmex, $k>($($args),*),
            4 => $f::<BybitSpot, $k>($($args),*),
            5 => $f::<BybitPerpetualsUsd, $k>($($args),*),
            6 => $f::<Coinbase, $k>($($args),*),
            7 => $f::<GateioSpot, $k>($($args),*),
            8 => $f::<GateioFuturesUsd, $k>($($args),*),
            9 => $f::<GateioFuturesBtc, $k>($($args),*),
            10 => $f::<GateioPerpetualsUsd, $k>($($args),*),
            11 => $f::<GateioPerpetualsBtc, $k>($($args),*),
            12 => $f::<GateioOptions, $k>($($args),*),
            13 => $f::<Kraken, $k>($($args),*),
            14 => $f::<Okx, $k>($($args),*),
            _ => panic!("bad-op connector"),
        }
    };
}

fn stat_validate_dyn(c: usize, k: usize, inst: Inst) -> Result<(), String> {
    match k {
        0 => with_conn!(c, stat_validate, PublicTrades, PublicTrades, inst),
        1 => with_conn!(c, stat_validate, OrderBooksL1, OrderBooksL1, inst),
        2 => with_conn!(c, stat_validate, OrderBooksL2, OrderBooksL2, inst),
        3 => with_conn!(c, stat_validate, OrderBooksL3, OrderBooksL3, inst),
        4 => with_conn!(c, stat_validate, Liquidations, Liquidations, inst),
        5 => with_conn!(c, stat_validate, Candles, Candles, inst),
        _ => panic!("bad-op kind"),
    }
}

// ------------------------------------------------------------------------------------------------ builders

type Out4<K> = StreamBuilder<Inst, K>;
type MultiOut = MarketStreamResult<Inst, DataKind>;

enum SB {
    T(Out4<PublicTrades>),
    L1(Out4<OrderBooksL1>),
    L2(Out4<OrderBooksL2>),
    Lq(Out4<Liquidations>),
}

macro_rules! subscribe_arm {
    ($b:expr, $e:ty, $k:expr, $insts:expr) => {
        $b.subscribe(
            $insts
                .iter()
                .map(|i| Subscription::<$e, Inst, _>::new(<$e>::default(), i.clone(), $k))
                .collect::<Vec<_>>(),
        )
    };
}

/// `StreamBuilder::subscribe::<_, _, E, MarketDataInstrument>` for the 21 `(E, Kind)` pairs that have a
/// `StreamSelector` (any other pair does not compile); `Err(builder)` = no such pair
fn sb_subscribe(sb: SB, c: usize, insts: &[Inst]) -> Result<SB, SB> {
    Ok(match (sb, c) {
        (SB::T(b), 0) => SB::T(subscribe_arm!(b, BinanceSpot, PublicTrades, insts)),
        (SB::T(b), 1) => SB::T(subscribe_arm!(b, BinanceFuturesUsd, PublicTrades, insts)),
        (SB::T(b), 2) => SB::T(subscribe_arm!(b, Bitfinex, PublicTrades, insts)),
        (SB::T(b), 3) => SB::T(subscribe_arm!(b, Bitmex, PublicTrades, insts)),
        (SB::T(b), 4) => SB::T(subscribe_arm!(b, BybitSpot, PublicTrades, insts)),
        (SB::T(b), 5) => SB::T(subscribe_arm!(b, BybitPerpetualsUsd, PublicTrades, insts)),
        (SB::T(b), 6) => SB::T(subscribe_arm!(b, Coinbase, PublicTrades, insts)),
        (SB::T(b), 7) => SB::T(subscribe_arm!(b, GateioSpot, PublicTrades, insts)),
        (SB::T(b), 8) => SB::T(subscribe_arm!(b, GateioFuturesUsd, PublicTrades, insts)),
        (SB::T(b), 9) => SB::T(subscribe_arm!(b, GateioFuturesBtc, PublicTrades, insts)),
        (SB::T(b), 10) => SB::T(subscribe_arm!(b, GateioPerpetualsUsd, PublicTrades, insts)),
        (SB::T(b), 11) => SB::T(subscribe_arm!(b, GateioPerpetualsBtc, PublicTrades, insts)),
        (SB::T(b), 12) => SB::T(subscribe_arm!(b, GateioOptions, PublicTrades, insts)),
        (SB::T(b), 13) => SB::T(subscribe_arm!(b, Kraken, PublicTrades, insts)),
        (SB::T(b), 14) => SB::T(subscribe_arm!(b, Okx, PublicTrades, insts)),
        (SB::L1(b), 0) => SB::L1(subscribe_arm!(b, BinanceSpot, OrderBooksL1, insts)),
        (SB::L1(b), 1) => SB::L1(subscribe_arm!(b, BinanceFuturesUsd, OrderBooksL1, insts)),
        (SB::L1(b), 13) => SB::L1(subscribe_arm!(b, Kraken, OrderBooksL1, insts)),
        (SB::L2(b), 0) => SB::L2(subscribe_arm!(b, BinanceSpot, OrderBooksL2, insts)),
        (SB::L2(b), 1) => SB::L2(subscribe_arm!(b, BinanceFuturesUsd, OrderBooksL2, insts)),
        (SB::Lq(b), 1) => SB::Lq(subscribe_arm!(b, BinanceFuturesUsd, Liquidations, insts)),
        (sb, _) => return Err(sb),
    })
}

fn sb_kind(sb: &SB) -> usize {
    match sb {
        SB::T(_) => 0,
        SB::L1(_) => 1,
        SB::L2(_) => 2,
        SB::Lq(_) => 4,
    }
}

fn sb_obs(sb: &SB, lines: &mut Vec<String>) {
    let (mut ks, n): (Vec<usize>, usize) = match sb {
        SB::T(b) => (b.channels.keys().map(|e| exch_no(*e)).collect(), b.futures.len()),
        SB::L1(b) => (b.channels.keys().map(|e| exch_no(*e)).collect(), b.futures.len()),
        SB::L2(b) => (b.channels.keys().map(|e| exch_no(*e)).collect(), b.futures.len()),
        SB::Lq(b) => (b.channels.keys().map(|e| exch_no(*e)).collect(), b.futures.len()),
    };
    ks.sort();
    lines.push(format!("chans {}", join(&ks)));
    lines.push(format!("futs {n}"));
}

fn join<T: std::fmt::Display>(xs: &[T]) -> String {
    xs.iter().map(|x| x.to_string()).collect::<Vec<_>>().join(" ")
}

fn rt() -> tokio::runtime::Runtime {
    tokio::runtime::Builder::new_current_thread().enable_time().build().unwrap()
}

/// set once an `init` that was pending on the network did not return within the guard: later ops then
/// stop after the first poll (a resolver that hangs must not cost 5 s per op)
static NETWORK_HANGS: AtomicBool = AtomicBool::new(false);

/// Awaits a builder's REAL `init`. Returns what the FIRST poll returned (`None` = `Pending`) and a note
/// on how the future ended afterwards.
///
/// Scheduling of the environment (as in c13d.rs `drive`): a connection attempt starts with a name lookup on
/// tokio's blocking pool. The runtime has ONE blocking thread and a gate task occupies it until the first
/// poll of `init` has returned, so no lookup can complete during that poll: what the first poll returns is
/// decided by the code under test alone, with or without a network.
fn drive<T>(fut: impl std::future::Future<Output = Result<T, DataError>>) -> (Option<Result<T, DataError>>, String) {
    let rt = tokio::runtime::Builder::new_current_thread()
        .enable_all()
        .max_blocking_threads(1)
        .build()
        .unwrap();
    rt.block_on(async {
        let (open_gate, gate) = std::sync::mpsc::channel::<()>();
        let gate_task = tokio::task::spawn_blocking(move || {
            let _ = gate.recv();
        });
        tokio::pin!(fut);
        let first = futures::poll!(fut.as_mut());
        drop(open_gate);
        let _ = gate_task.await;
        match first {
            std::task::Poll::Ready(out) => (Some(out), String::new()),
            std::task::Poll::Pending => {
                if NETWORK_HANGS.load(Ordering::Relaxed) {
                    return (None, "not awaited further (an earlier init hung)".into());
                }
                let note = match tokio::time::timeout(Duration::from_secs(5), fut).await {
                    Err(_) => {
                        NETWORK_HANGS.store(true, Ordering::Relaxed);
                        "did not return within 5 s (resolver hangs?)".to_string()
                    }
                    Ok(Ok(_)) => "then returned Ok (a network is present)".to_string(),
                    Ok(Err(e)) => format!("then returned Err: {e}"),
                };
                (None, note)
            }
        }
    })
}

fn init_obs(first: Option<Result<Vec<usize>, DataError>>, note: String, lines: &mut Vec<String>) {
    match first {
        Some(Ok(mut ks)) => {
            ks.sort();
            lines.push(format!("res ok {}", join(&ks)));
        }
        Some(Err(e)) => lines.push(format!("res err {}", data_err(&e))),
        None => {
            lines.push("res network".into());
            lines.push(format!("# init pending on the network after its first poll; {note}"));
        }
    }
}

// ------------------------------------------------------------------------------------------------ source text

struct Arms {
    /// (exchange, kind, family) in source order
    arms: Vec<(usize, usize, String)>,
    fallback: String,
}

fn repo() -> String {
    std::env::var("VERIF_REPO").unwrap_or_else(|_| "/repo".into())
}

/// the arms of the `match (exchange, sub_kind)` of `DynamicStreams::init`, read from the source text
fn read_arms() -> Arms {
    let path = format!("{}/barter-data/src/streams/builder/dynamic/mod.rs", repo());
    let src = std::fs::read_to_string(&path).expect("dynamic/mod.rs");
    let start = src.find("match (exchange, sub_kind) {").expect("the match of init");
    let end = src[start..].find("try_join_all(batch_futures)").expect("end of the match") + start;
    let body = &src[start..end];
    let mut arms: Vec<(usize, usize, String)> = vec![];
    let mut fallback = String::from("none");
    let mut rest = body;
    while let Some(p) = rest.find("(ExchangeId::") {
        let after = &rest[p + "(ExchangeId::".len()..];
        let e_end = after.find(',').expect("comma");
        let e_name = after[..e_end].trim();
        let after_k = after[e_end + 1..].trim_start();
        let after_k = after_k.strip_prefix("SubKind::").expect("SubKind:: in arm");
        let k_end = after_k.find(')').expect("paren");
        let k_name = after_k[..k_end].trim();
        let tail = &after_k[k_end..];
        // up to the next arm: which txs family is used
        let next = tail.find("(ExchangeId::").unwrap_or(tail.len());
        let arm_body = &tail[..next];
        let fam = match arm_body.find("txs.") {
            Some(q) => {
                let s = &arm_body[q + 4..];
                s[..s.find('.').expect("dot")].to_string()
            }
            None => "none".to_string(),
        };
        let e = ALL.iter().position(|x| format!("{x:?}") == e_name).expect("exchange name");
        let k = KINDS.iter().position(|x| format!("{x:?}") == k_name).expect("kind name");
        arms.push((e, k, fam));
        rest = tail;
    }
    if let Some(p) = body.find("(exchange, sub_kind) => {") {
        let s = &body[p..];
        if s.contains("Err(DataError::Unsupported { exchange, sub_kind })") {
            fallback = "unsupported".into();
        }
    }
    Arms { arms, fallback }
}

// ------------------------------------------------------------------------------------------------ index

#[derive(Clone, Debug)]
struct Def {
    e: usize,
    n: usize,
    base: usize,
    quote: usize,
    kind: MarketDataInstrumentKind,
}

fn parse_def(t: &str) -> Def {
    let p: Vec<&str> = t.split('/').collect();
    assert_eq!(p.len(), 5, "definition token {t}");
    Def {
        e: p[0].parse().expect("exchange"),
        n: p[1].parse().expect("name"),
        base: p[2].parse().expect("base"),
        quote: p[3].parse().expect("quote"),
        kind: parse_ik(p[4]),
    }
}

fn asset(n: usize) -> Asset {
    Asset::new(asset_name(n), asset_name(n))
}

fn to_instrument(d: &Def) -> Instrument<ExchangeId, Asset> {
    let one = Decimal::ONE;
    let kind = match &d.kind {
        MarketDataInstrumentKind::Spot => InstrumentKind::Spot,
        MarketDataInstrumentKind::Perpetual => InstrumentKind::Perpetual(PerpetualContract {
            contract_size: one,
            settlement_asset: asset(d.quote),
        }),
        MarketDataInstrumentKind::Future(c) => InstrumentKind::Future(FutureContract {
            contract_size: one,
            settlement_asset: asset(d.quote),
            expiry: c.expiry,
        }),
        MarketDataInstrumentKind::Option(c) => InstrumentKind::Option(OptionContract {
            contract_size: one,
            settlement_asset: asset(d.quote),
            kind: c.kind,
            exercise: c.exercise,
            expiry: c.expiry,
            strike: c.strike,
        }),
    };
    Instrument {
        exchange: exch(d.e),
        name_internal: format!("i{:03}", d.n).into(),
        name_exchange: format!("i{:03}", d.n).into(),
        underlying: Underlying::new(asset(d.base), asset(d.quote)),
        quote: InstrumentQuoteAsset::UnderlyingQuote,
        kind,
        spec: None,
    }
}

fn minst_tok(i: &MarketInstrumentData<InstrumentIndex>) -> String {
    format!("{}:{}:{}", i.key.index(), un(i.name_exchange.as_ref()), ik_tok(&i.kind))
}

// ------------------------------------------------------------------------------------------------ dynamic streams

type DS = DynamicStreams<Inst>;

fn ds_empty() -> DS {
    DynamicStreams {
        trades: Default::default(),
        l1s: Default::default(),
        l2s: Default::default(),
        liquidations: Default::default(),
    }
}

/// a stream that yields the marker `Reconnecting(e)` and then ends
fn marked<T>(e: ExchangeId) -> UnboundedReceiverStream<Event<ExchangeId, T>> {
    let (tx, rx) = tokio::sync::mpsc::unbounded_channel();
    tx.send(Event::Reconnecting(e)).ok().unwrap();
    UnboundedReceiverStream::new(rx)
}

fn marker<T>(ev: Event<ExchangeId, T>) -> usize {
    match ev {
        Event::Reconnecting(e) => exch_no(e),
        Event::Item(_) => panic!("unexpected item"),
    }
}

fn ds_obs(ds: &DS, lines: &mut Vec<String>) {
    let mut ks: [Vec<usize>; 4] = [
        ds.trades.keys().map(|e| exch_no(*e)).collect(),
        ds.l1s.keys().map(|e| exch_no(*e)).collect(),
        ds.l2s.keys().map(|e| exch_no(*e)).collect(),
        ds.liquidations.keys().map(|e| exch_no(*e)).collect(),
    ];
    for (f, k) in FAMILIES.iter().zip(ks.iter_mut()) {
        k.sort();
        lines.push(format!("fam {f} {}", join(k)));
    }
}

fn drain<S, T>(s: S) -> Vec<usize>
where
    S: futures::Stream<Item = Event<ExchangeId, T>>,
{
    let mut v: Vec<usize> = futures::executor::block_on(s.map(marker).collect::<Vec<_>>());
    v.sort();
    v
}

fn list(t: &str) -> Vec<usize> {
    if t == "-" {
        vec![]
    } else {
        t.split(',').map(|x| x.parse().expect("exchange")).collect()
    }
}

// ------------------------------------------------------------------------------------------------ run

fn data_err(e: &DataError) -> String {
    e.to_string()
}

fn bits(xs: impl IntoIterator<Item = bool>) -> String {
    xs.into_iter().map(|b| if b { '1' } else { '0' }).collect()
}

fn class_reps() -> [MarketDataInstrumentKind; 4] {
    [
        parse_ik("s"),
        parse_ik("p"),
        parse_ik("f1735689600000"),
        parse_ik("o1.2.1735689600000.50000"),
    ]
}

fn op_init(toks: &[String], arms: &Arms, lines: &mut Vec<String>) {
    let input = parse_batches(toks);
    match validate_batches::<_, _, DSub, Inst>(input.clone()) {
        Err(e) => {
            lines.push("res err".into());
            lines.push(format!("msg {}", data_err(&e)));
            // the real init returns the same error before anything else happens
            let real = rt().block_on(DS::init::<_, _, DSub, Inst>(input));
            match real {
                Err(e2) => lines.push(format!("real err {}", data_err(&e2))),
                Ok(_) => lines.push("real ok".into()),
            }
        }
        Ok(batches) => {
            lines.push("res ok".into());
            lines.push(format!("nb {}", batches.len()));
            // replicated: Channels::try_from
            let mut chans: [Vec<ExchangeId>; 4] = Default::default();
            let mut chan_err: Option<SubKind> = None;
            'outer: for sub in batches.iter().flatten() {
                let f = match sub.kind {
                    SubKind::PublicTrades => 0,
                    SubKind::OrderBooksL1 => 1,
                    SubKind::OrderBooksL2 => 2,
                    SubKind::Liquidations => 3,
                    unsupported => {
                        chan_err = Some(unsupported);
                        break 'outer;
                    }
                };
                if !chans[f].contains(&sub.exchange) {
                    chans[f].push(sub.exchange);
                }
            }
            if let Some(k) = chan_err {
                lines.push(format!("chanerr {}", kind_no(k)));
                return;
            }
            // replicated: sort_unstable_by_key + chunk_by, then the arm
            let mut conns = 0usize;
            for (i, batch) in batches.iter().enumerate() {
                let mut batch = batch.clone();
                let exact = batch.len() <= 20;
                batch.sort_unstable_by_key(|sub| (sub.exchange, sub.kind));
                let mut reordered = false;
                for chunk in batch.chunk_by(|a, b| (a.exchange, a.kind) == (b.exchange, b.kind)) {
                    let (e, k) = (chunk[0].exchange, chunk[0].kind);
                    let arm = arms
                        .arms
                        .iter()
                        .find(|(ae, ak, _)| *ae == exch_no(e) && *ak == kind_no(k));
                    let mut insts: Vec<Inst> = chunk.iter().map(|s| s.instrument.clone()).collect();
                    let mut sorted = insts.clone();
                    sorted.sort();
                    if sorted != insts {
                        reordered = true;
                    }
                    if !exact {
                        insts = sorted;
                    }
                    match arm {
                        Some((_, _, fam)) => {
                            let fi = FAMILIES.iter().position(|f| f == fam).expect("family");
                            if !chans[fi].contains(&e) {
                                lines.push(format!("grp {i} {} {} panic", exch_no(e), kind_no(k)));
                            } else {
                                conns += 1;
                                lines.push(format!(
                                    "grp {i} {} {} {fam} {}",
                                    exch_no(e),
                                    kind_no(k),
                                    join(&insts.iter().map(inst_tok).collect::<Vec<_>>())
                                ));
                            }
                        }
                        None => lines.push(format!("grp {i} {} {} unsupported", exch_no(e), kind_no(k))),
                    }
                }
                if reordered {
                    lines.push(format!(
                        "# batch {i}: sort_unstable_by_key left a group out of instrument order (n = {})",
                        batch.len()
                    ));
                }
            }
            for (f, c) in FAMILIES.iter().zip(chans.iter()) {
                let mut ks: Vec<usize> = c.iter().map(|e| exch_no(*e)).collect();
                ks.sort();
                lines.push(format!("chan {f} {}", join(&ks)));
            }
            if conns == 0 {
                // nothing to connect to: the real init runs to completion without the network
                match rt().block_on(DS::init::<_, _, DSub, Inst>(input)) {
                    Ok(ds) => lines.push(format!(
                        "real ok {} {} {} {}",
                        ds.trades.len(),
                        ds.l1s.len(),
                        ds.l2s.len(),
                        ds.liquidations.len()
                    )),
                    Err(e) => lines.push(format!("real err {}", data_err(&e))),
                }
            } else {
                lines.push(format!("real network {conns}"));
            }
        }
    }
}

fn run() {
    let arms = read_arms();
    run_cases(|case, lines| {
        let mut ii: Option<IndexedInstruments> = None;
        let mut ds: DS = ds_empty();
        let mut sb: Option<SB> = None;
        let mut multi: Option<MultiStreamBuilder<MultiOut>> = None;
        let mut map: Map<usize> = Map::from_iter(std::iter::empty());
        for op in case.ops.iter() {
            lines.push("@".into());
            let a = &op[1..];
            match op[0].as_str() {
                "tables" => {
                    let reps = class_reps();
                    for (n, e) in ALL.iter().enumerate() {
                        lines.push(format!(
                            "ik{n} {}",
                            bits(reps.iter().map(|ik| exchange_supports_instrument_kind(*e, ik)))
                        ));
                    }
                    for (n, e) in ALL.iter().enumerate() {
                        let row: Vec<String> = reps
                            .iter()
                            .map(|ik| {
                                bits(KINDS.iter().map(|k| exchange_supports_instrument_kind_sub_kind(e, ik, *k)))
                            })
                            .collect();
                        lines.push(format!("iksk{n} {}", row.join(" ")));
                    }
                }
                "sik" => {
                    let r = exchange_supports_instrument_kind(exch(a[0].parse().unwrap()), &parse_ik(&a[1]));
                    lines.push(format!("r {}", r as u8));
                }
                "sikk" => {
                    let r = exchange_supports_instrument_kind_sub_kind(
                        &exch(a[0].parse().unwrap()),
                        &parse_ik(&a[1]),
                        KINDS[a[2].parse::<usize>().unwrap()],
                    );
                    lines.push(format!("r {}", r as u8));
                }
                "vdyn" => match parse_sub(&a[0]).validate() {
                    Ok(s) => {
                        assert_eq!(s, parse_sub(&a[0]));
                        lines.push("res ok".into())
                    }
                    Err(e) => {
                        lines.push("res err".into());
                        lines.push(format!("msg {e}"));
                    }
                },
                "vstat" => {
                    let (c, k): (usize, usize) = (a[0].parse().unwrap(), a[1].parse().unwrap());
                    lines.push(format!("sel {}", SEL[c][k] as u8));
                    match stat_validate_dyn(c, k, parse_inst(&a[2])) {
                        Ok(()) => lines.push("res ok".into()),
                        Err(m) => {
                            lines.push("res err".into());
                            lines.push(format!("msg {m}"));
                        }
                    }
                }
                "static" => {
                    lines.push(format!("ids {}", join(&IDS.iter().map(|e| exch_no(*e)).collect::<Vec<_>>())));
                    for (c, row) in SEL.iter().enumerate() {
                        lines.push(format!("sel{c} {}", bits(row.iter().copied())));
                    }
                }
                "arms" => {
                    for (e, k, f) in &arms.arms {
                        lines.push(format!("arm {e} {k} {f}"));
                    }
                    lines.push(format!("fallback {}", arms.fallback));
                }
                "kinds" => {
                    let strs = [
                        PublicTrades.as_str(),
                        OrderBooksL1.as_str(),
                        OrderBooksL2.as_str(),
                        OrderBooksL3.as_str(),
                        Liquidations.as_str(),
                        Candles.as_str(),
                    ];
                    let disp = [
                        PublicTrades.to_string(),
                        OrderBooksL1.to_string(),
                        OrderBooksL2.to_string(),
                        OrderBooksL3.to_string(),
                        Liquidations.to_string(),
                        Candles.to_string(),
                    ];
                    for (n, k) in KINDS.iter().enumerate() {
                        assert_eq!(strs[n], disp[n]);
                        lines.push(format!("kind{n} {k} {}", strs[n]));
                    }
                    lines.push(format!("ord {}", KINDS.windows(2).all(|w| w[0] < w[1]) as u8));
                }
                "disp" => {
                    let subs: Vec<DSub> = a.iter().map(|t| parse_sub(t)).collect();
                    lines.push(format!("out {}", display_subscriptions_without_exchange(&subs)));
                }
                "dsub" => lines.push(format!("out {}", parse_sub(&a[0]))),
                "vsubs" => {
                    let subs: Vec<DSub> = a.iter().map(|t| parse_sub(t)).collect();
                    match validate_subscriptions::<_, DSub, Inst>(subs) {
                        Ok(v) => {
                            lines.push("res ok".into());
                            lines.push(format!("subs {}", join(&v.iter().map(sub_tok).collect::<Vec<_>>())));
                        }
                        Err(e) => {
                            lines.push("res err".into());
                            lines.push(format!("msg {}", data_err(&e)));
                        }
                    }
                }
                "init" => op_init(a, &arms, lines),
                "idx" => {
                    let defs: Vec<Def> = a.iter().map(|t| parse_def(t)).collect();
                    let built = IndexedInstruments::new(defs.iter().map(to_instrument));
                    lines.push(format!("n {}", built.instruments().len()));
                    for k in built.instruments() {
                        lines.push(format!(
                            "ins {} {} {} {}/{} {}",
                            k.key.index(),
                            exch_no(k.value.exchange.value),
                            un(k.value.name_exchange.as_ref()),
                            k.value.underlying.base.index(),
                            k.value.underlying.quote.index(),
                            ik_tok(&MarketDataInstrumentKind::from(&k.value.kind))
                        ));
                    }
                    ii = Some(built);
                }
                "gen" => {
                    let kinds: Vec<SubKind> = a.iter().map(|t| KINDS[t.parse::<usize>().unwrap()]).collect();
                    let bs = generate_indexed_market_data_subscription_batches(ii.as_ref().expect("idx first"), &kinds);
                    lines.push(format!("nb {}", bs.len()));
                    for (i, b) in bs.iter().enumerate() {
                        lines.push(format!(
                            "b {i} {}",
                            join(
                                &b.iter()
                                    .map(|s| format!(
                                        "{},{},{}",
                                        exch_no(s.exchange),
                                        minst_tok(&s.instrument),
                                        kind_no(s.kind)
                                    ))
                                    .collect::<Vec<_>>()
                            )
                        ));
                    }
                }
                "index" => {
                    let input = parse_batches(a);
                    match index_market_data_subscription_batches(ii.as_ref().expect("idx first"), input) {
                        Ok(bs) => {
                            lines.push("res ok".into());
                            lines.push(format!("nb {}", bs.len()));
                            for (i, b) in bs.iter().enumerate() {
                                lines.push(format!(
                                    "b {i} {}",
                                    join(
                                        &b.iter()
                                            .map(|s: &Subscription<ExchangeId, Keyed<InstrumentIndex, Inst>>| format!(
                                                "{},{}:{},{}",
                                                exch_no(s.exchange),
                                                s.instrument.key.index(),
                                                inst_tok(&s.instrument.value),
                                                kind_no(s.kind)
                                            ))
                                            .collect::<Vec<_>>()
                                    )
                                ));
                            }
                        }
                        Err(DataError::Index(IndexError::AssetIndex(_))) => { lines.push("res err".into()); lines.push("why asset".into()) },
                        Err(DataError::Index(IndexError::InstrumentIndex(_))) => {
                            { lines.push("res err".into()); lines.push("why instrument".into()) }
                        }
                        Err(e) => { lines.push("res err".into()); lines.push(format!("why other {e}")) },
                    }
                }
                "ds" => {
                    ds = ds_empty();
                    for e in list(&a[0]) {
                        ds.trades.insert(exch(e), marked(exch(e)));
                    }
                    for e in list(&a[1]) {
                        ds.l1s.insert(exch(e), marked(exch(e)));
                    }
                    for e in list(&a[2]) {
                        ds.l2s.insert(exch(e), marked(exch(e)));
                    }
                    for e in list(&a[3]) {
                        ds.liquidations.insert(exch(e), marked(exch(e)));
                    }
                    ds_obs(&ds, lines);
                }
                "sel" => {
                    let e = exch(a[1].parse().unwrap());
                    let got: Option<usize> = match a[0].as_str() {
                        "trades" => ds.select_trades(e).map(|s| drain(s)[0]),
                        "l1s" => ds.select_l1s(e).map(|s| drain(s)[0]),
                        "l2s" => ds.select_l2s(e).map(|s| drain(s)[0]),
                        "liquidations" => ds.select_liquidations(e).map(|s| drain(s)[0]),
                        _ => panic!("bad-op family"),
                    };
                    match got {
                        Some(m) => lines.push(format!("r some {m}")),
                        None => lines.push("r none".into()),
                    }
                    ds_obs(&ds, lines);
                }
                "selall" => {
                    let got: Vec<usize> = match a[0].as_str() {
                        "trades" => drain(ds.select_all_trades()),
                        "l1s" => drain(ds.select_all_l1s()),
                        "l2s" => drain(ds.select_all_l2s()),
                        "liquidations" => drain(ds.select_all_liquidations()),
                        _ => panic!("bad-op family"),
                    };
                    lines.push(format!("r {}", join(&got)));
                    ds_obs(&ds, lines);
                }
                "all" => {
                    let taken = std::mem::replace(&mut ds, ds_empty());
                    let got = drain(taken.select_all::<MarketStreamResult<Inst, DataKind>>());
                    lines.push(format!("r {}", join(&got)));
                    ds_obs(&ds, lines);
                }
                "sb" => {
                    let b = match a[0].as_str() {
                        "0" => SB::T(StreamBuilder::new()),
                        "1" => SB::L1(StreamBuilder::new()),
                        "2" => SB::L2(StreamBuilder::new()),
                        "4" => SB::Lq(StreamBuilder::new()),
                        _ => panic!("bad-op builder kind"),
                    };
                    sb_obs(&b, lines);
                    sb = Some(b);
                }
                "sub" => {
                    let c: usize = a[0].parse().unwrap();
                    let insts: Vec<Inst> = a[1..].iter().map(|t| parse_inst(t)).collect();
                    let b = sb.take().expect("sb first");
                    let k = sb_kind(&b);
                    match sb_subscribe(b, c, &insts) {
                        Ok(b) => {
                            assert!(SEL[c][k]);
                            sb_obs(&b, lines);
                            sb = Some(b);
                        }
                        Err(b) => {
                            assert!(!SEL[c][k]);
                            lines.push("nosel".into());
                            sb = Some(b);
                        }
                    }
                }
                "sbinit" => {
                    // the REAL `StreamBuilder::init`, awaited
                    let b = sb.take().expect("sb first");
                    macro_rules! keys {
                        ($b:expr) => {
                            drive(async { $b.init().await.map(|s| s.streams.keys().map(|e| exch_no(*e)).collect::<Vec<usize>>()) })
                        };
                    }
                    let (first, note) = match b {
                        SB::T(b) => keys!(b),
                        SB::L1(b) => keys!(b),
                        SB::L2(b) => keys!(b),
                        SB::Lq(b) => keys!(b),
                    };
                    init_obs(first, note, lines);
                }
                "mb" => {
                    let m = MultiStreamBuilder::<MultiOut>::new();
                    lines.push("chans".into());
                    lines.push("futs 0".into());
                    multi = Some(m);
                }
                "madd" => {
                    let m = multi.take().expect("mb first");
                    let b = sb.take().expect("sb first");
                    let m = match b {
                        SB::T(b) => m.add(b),
                        SB::L1(b) => m.add(b),
                        SB::L2(b) => m.add(b),
                        SB::Lq(b) => m.add(b),
                    };
                    let mut ks: Vec<usize> = m.channels.keys().map(|e| exch_no(*e)).collect();
                    ks.sort();
                    lines.push(format!("chans {}", join(&ks)));
                    lines.push(format!("futs {}", m.futures.len()));
                    multi = Some(m);
                }
                "minit" => {
                    // the REAL `MultiStreamBuilder::init`, awaited
                    let m = multi.take().expect("mb first");
                    let (first, note) =
                        drive(async { m.init().await.map(|s| s.streams.keys().map(|e| exch_no(*e)).collect::<Vec<usize>>()) });
                    init_obs(first, note, lines);
                }
                "empty" => {
                    // `init_market_stream` on an empty list
                    let r = rt().block_on(async {
                        init_market_stream::<Okx, Inst, PublicTrades>(STREAM_RECONNECTION_POLICY, vec![])
                            .await
                            .map(|_| ())
                    });
                    match r {
                        Ok(()) => lines.push("res ok".into()),
                        Err(e) => lines.push(format!("res err {}", data_err(&e))),
                    }
                }
                "map" => {
                    map = Map::from_iter(a.iter().map(|t| {
                        let (k, v) = t.split_once('=').expect("k=v");
                        (SubscriptionId::from(k), v.parse::<usize>().expect("value"))
                    }));
                    lines.push(format!("size {}", map.0.len()));
                }
                "find" => match map.find(&SubscriptionId::from(a[0].as_str())) {
                    Ok(v) => lines.push(format!("r some {v}")),
                    Err(e) => lines.push(format!("r err {e}")),
                },
                "findmut" => {
                    match map.find_mut(&SubscriptionId::from(a[0].as_str())) {
                        Ok(v) => {
                            *v = a[1].parse().expect("value");
                            lines.push("r ok".into())
                        }
                        Err(e) => lines.push(format!("r err {e}")),
                    }
                    lines.push(format!("size {}", map.0.len()));
                }
                other => panic!("bad-op {other}"),
            }
        }
    });
}

// ------------------------------------------------------------------------------------------------ gen

const EXPIRIES: [i64; 3] = [1735689600000, 1743120000000, 1766707200000];

/// exchanges the generators draw from: the 15 connectors plus a few without one
const POOL: [usize; 19] = [7, 4, 10, 15, 21, 20, 23, 32, 28, 27, 31, 30, 29, 36, 40, 0, 2, 39, 26];

const CLASS_TOKS: [&str; 4] = ["s", "p", "f1735689600000", "o0.0.1735689600000.50000"];

fn gen_ik(rng: &mut Rng) -> String {
    match rng.below(10) {
        0..=4 => "s".into(),
        5..=7 => "p".into(),
        8 => format!("f{}", rng.pick(&EXPIRIES)),
        _ => format!(
            "o{}.{}.{}.{}",
            rng.below(2),
            rng.below(3),
            rng.pick(&EXPIRIES),
            rng.pick(&[30000u64, 50000, 50001])
        ),
    }
}

fn gen_inst(rng: &mut Rng, nb: u64) -> String {
    format!("{}/{}/{}", rng.below(nb), rng.below(2), gen_ik(rng))
}

/// a subscription the dynamic validator accepts (drawn from the real table)
fn gen_valid_sub(rng: &mut Rng, nb: u64, exs: &[usize]) -> String {
    loop {
        let e = *rng.pick(exs);
        let k = *rng.pick(&[0usize, 0, 0, 1, 2, 4]);
        let ik = gen_ik(rng);
        if exchange_supports_instrument_kind_sub_kind(&exch(e), &parse_ik(&ik), KINDS[k]) {
            return format!("{e},{}/{}/{ik},{k}", rng.below(nb), rng.below(2));
        }
    }
}

fn gen_any_sub(rng: &mut Rng, nb: u64) -> String {
    format!("{},{},{}", rng.pick(&POOL), gen_inst(rng, nb), rng.below(6))
}

fn gen_batch(rng: &mut Rng, valid_pct: u64, max: i64, nb: u64, exs: &[usize]) -> Vec<String> {
    let n = rng.range(0, max);
    let mut v: Vec<String> = vec![];
    for _ in 0..n {
        if !v.is_empty() && rng.chance(15) {
            let d = rng.pick(&v).clone();
            v.push(d);
        } else if rng.chance(valid_pct) {
            v.push(gen_valid_sub(rng, nb, exs));
        } else {
            v.push(gen_any_sub(rng, nb));
        }
    }
    v
}

fn generate(seed: u64, n_cases: usize, tier: &str) {
    let mut out = Out::new();
    let mut rng = Rng::new(seed);
    let thorough = tier == "thorough";
    // fixed case: the whole tables
    out.case("tables");
    out.line("tables");
    out.line("static");
    out.line("arms");
    out.line("kinds");
    out.line("empty");
    // every (connector, kind type, instrument kind class) through the static validate, every
    // (exchange, class, kind) through the dynamic one
    out.case("vstat-all");
    for c in 0..15 {
        for k in 0..6 {
            for ik in CLASS_TOKS {
                out.line(format!("vstat {c} {k} 1/0/{ik}"));
            }
        }
    }
    out.case("vdyn-all");
    for e in 0..42 {
        for k in 0..6 {
            for ik in ["s", "p", "f1743120000000", "o1.2.1743120000000.30000"] {
                out.line(format!("vdyn {e},2/1/{ik},{k}"));
            }
        }
    }
    if thorough {
        // every batch of length <= 3 over a pool of 6 subscriptions (valid and invalid, two keys),
        // as one and as two batches
        let pool = ["7,0/0/s,0", "7,1/0/s,0", "7,0/0/s,1", "40,0/0/p,0", "7,0/0/p,0", "36,0/0/s,3"];
        let mut id = 0;
        for a in 0..=pool.len() {
            for b in 0..=pool.len() {
                for c in 0..=pool.len() {
                    let pick = |i: usize| if i == pool.len() { None } else { Some(pool[i]) };
                    let xs: Vec<&str> = [pick(a), pick(b), pick(c)].into_iter().flatten().collect();
                    id += 1;
                    out.case(format!("x{id}"));
                    out.line(format!("vsubs {}", xs.join(" ")));
                    out.line(format!("init {}", xs.join(" ")));
                    if xs.len() >= 2 {
                        out.line(format!("init {} | {}", xs[0], xs[1..].join(" ")));
                    }
                }
            }
        }
    }
    for id in 0..n_cases {
        out.case(format!("r{id}"));
        let nb = *rng.pick(&[2u64, 4, 12]);
        match rng.below(10) {
            0..=3 => {
                // batches through validate_subscriptions / init
                let exs: Vec<usize> = {
                    let m = rng.range(1, 4) as usize;
                    (0..m).map(|_| POOL[rng.below(15) as usize]).collect()
                };
                let valid_pct = *rng.pick(&[100u64, 100, 97, 85]);
                let big = rng.chance(if thorough { 25 } else { 12 });
                let max = if big { 60 } else { 8 };
                let nbat = rng.range(0, 3);
                let batches: Vec<Vec<String>> = (0..nbat)
                    .map(|_| gen_batch(&mut rng, valid_pct, max, if big { 40 } else { nb }, &exs))
                    .collect();
                for b in &batches {
                    out.line(format!("vsubs {}", b.join(" ")));
                    if !b.is_empty() && rng.chance(30) {
                        out.line(format!("disp {}", b.join(" ")));
                        out.line(format!("dsub {}", b[0]));
                    }
                }
                out.line(format!(
                    "init {}",
                    batches.iter().map(|b| b.join(" ")).collect::<Vec<_>>().join(" | ")
                ));
                // the same subscriptions in another order / with repeats: same outcome
                let mut shuffled = batches.clone();
                for b in shuffled.iter_mut() {
                    for i in (1..b.len()).rev() {
                        let j = rng.below(i as u64 + 1) as usize;
                        b.swap(i, j);
                    }
                    if !b.is_empty() && rng.chance(50) {
                        let d = rng.pick(b).clone();
                        b.push(d);
                    }
                }
                out.line(format!(
                    "init {}",
                    shuffled.iter().map(|b| b.join(" ")).collect::<Vec<_>>().join(" | ")
                ));
            }
            4 => {
                // single lookups
                for _ in 0..rng.range(3, 10) {
                    match rng.below(4) {
                        0 => out.line(format!("sik {} {}", rng.below(42), gen_ik(&mut rng))),
                        1 => out.line(format!("sikk {} {} {}", rng.below(42), gen_ik(&mut rng), rng.below(6))),
                        2 => out.line(format!("vdyn {}", gen_any_sub(&mut rng, nb))),
                        _ => out.line(format!("vstat {} {} {}", rng.below(15), rng.below(6), gen_inst(&mut rng, nb))),
                    }
                }
            }
            5 | 6 => {
                // indexed instruments: generate / index
                let exs: Vec<usize> = (0..rng.range(1, 4)).map(|_| POOL[rng.below(19) as usize]).collect();
                let nd = rng.range(0, if thorough { 10 } else { 6 });
                let mut defs: Vec<String> = vec![];
                for _ in 0..nd {
                    if !defs.is_empty() && rng.chance(10) {
                        let d = rng.pick(&defs).clone();
                        defs.push(d);
                    } else {
                        defs.push(format!(
                            "{}/{}/{}/{}/{}",
                            rng.pick(&exs),
                            rng.below(6),
                            rng.below(4),
                            rng.below(3),
                            gen_ik(&mut rng)
                        ));
                    }
                }
                out.line(format!("idx {}", defs.join(" ")));
                let nk = rng.range(0, 3);
                let kinds: Vec<String> = (0..nk).map(|_| rng.pick(&[0u64, 0, 1, 2, 4, 3]).to_string()).collect();
                out.line(format!("gen {}", kinds.join(" ")));
                for _ in 0..rng.range(1, 3) {
                    let nbat = rng.range(0, 3);
                    let batches: Vec<String> = (0..nbat)
                        .map(|_| {
                            (0..rng.range(0, 4))
                                .map(|_| {
                                    if !defs.is_empty() && rng.chance(80) {
                                        // a subscription for a defined instrument
                                        let d: Vec<&str> = rng.pick(&defs).split('/').collect();
                                        format!("{},{}/{}/{},{}", d[0], d[2], d[3], d[4], rng.below(6))
                                    } else {
                                        format!(
                                            "{},{}/{}/{},{}",
                                            rng.pick(&exs),
                                            rng.below(5),
                                            rng.below(4),
                                            gen_ik(&mut rng),
                                            rng.below(6)
                                        )
                                    }
                                })
                                .collect::<Vec<_>>()
                                .join(" ")
                        })
                        .collect();
                    out.line(format!("index {}", batches.join(" | ")));
                }
            }
            7 => {
                // DynamicStreams::select_*
                let fam = |rng: &mut Rng| {
                    let n = rng.range(0, 3);
                    let mut v: Vec<String> = vec![];
                    for _ in 0..n {
                        let e = POOL[rng.below(6) as usize].to_string();
                        if !v.contains(&e) {
                            v.push(e);
                        }
                    }
                    if v.is_empty() { "-".to_string() } else { v.join(",") }
                };
                out.line(format!("ds {} {} {} {}", fam(&mut rng), fam(&mut rng), fam(&mut rng), fam(&mut rng)));
                for _ in 0..rng.range(1, 8) {
                    match rng.below(10) {
                        0..=6 => out.line(format!("sel {} {}", rng.pick(&FAMILIES), POOL[rng.below(6) as usize])),
                        7 | 8 => out.line(format!("selall {}", rng.pick(&FAMILIES))),
                        _ => out.line("all"),
                    }
                }
            }
            8 => {
                // StreamBuilder / MultiStreamBuilder: `init` is awaited. Every subscribe call fails before the
                // network with probability 30 % (an instrument kind the connector rejects, or no subscription
                // at all), so the first failing future is the first, a later one, or none; 4 %: one builder
                // with 31-33 calls (`try_join_all` switches to `FuturesOrdered` above 30 futures)
                let use_multi = rng.chance(50);
                if use_multi {
                    out.line("mb");
                }
                let nbuilders = if use_multi { rng.range(1, 3) } else { 1 };
                let big = rng.chance(4);
                for bi in 0..nbuilders {
                    let k = *rng.pick(&[0usize, 0, 0, 1, 2, 4]);
                    out.line(format!("sb {k}"));
                    let nsubs = if big && bi == 0 { rng.range(31, 33) } else { rng.range(if bi == 0 { 1 } else { 0 }, 3) };
                    for si in 0..nsubs {
                        let c = if rng.chance(if big { 100 } else { 85 }) {
                            // a connector with a selector for this kind
                            loop {
                                let c = rng.below(15) as usize;
                                if SEL[c][k] {
                                    break c;
                                }
                            }
                        } else {
                            rng.below(15) as usize
                        };
                        let fails = if big { (si < 2 && rng.chance(40)) || rng.chance(3) } else { rng.chance(30) };
                        let mut insts: Vec<String> = vec![];
                        if !(fails && rng.chance(30)) {
                            for _ in 0..rng.range(1, if big { 1 } else { 4 }) {
                                insts.push(gen_inst(&mut rng, nb));
                            }
                            // an instrument kind the connector does not support (where there is one)
                            let bad = CLASS_TOKS
                                .iter()
                                .find(|ik| !exchange_supports_instrument_kind(IDS[c], &parse_ik(ik)))
                                .copied();
                            // ... and never by accident: replace what the connector rejects
                            let good = CLASS_TOKS
                                .iter()
                                .find(|ik| exchange_supports_instrument_kind(IDS[c], &parse_ik(ik)))
                                .copied()
                                .expect("every connector supports some instrument kind");
                            if !fails || bad.is_none() {
                                if !rng.chance(5) {
                                    for t in insts.iter_mut() {
                                        let ik = t.rsplit('/').next().unwrap().to_string();
                                        if !exchange_supports_instrument_kind(IDS[c], &parse_ik(&ik)) {
                                            *t = format!("{}/{good}", &t[..t.len() - ik.len() - 1]);
                                        }
                                    }
                                }
                            } else if let Some(ik) = bad {
                                let pos = rng.below(insts.len() as u64 + 1) as usize;
                                insts.insert(pos, format!("{}/0/{ik}", rng.below(nb)));
                            }
                        }
                        out.line(format!("sub {c} {}", insts.join(" ")).trim_end().to_string());
                    }
                    if use_multi {
                        out.line("madd");
                    }
                }
                out.line(if use_multi { "minit" } else { "sbinit" });
            }
            _ => {
                // Map
                let keys = ["trade|BTCUSDT", "trade|ETHUSDT", "l1|BTCUSDT", "7", "x"];
                let pairs: Vec<String> = (0..rng.range(0, 5))
                    .map(|_| format!("{}={}", rng.pick(&keys), rng.below(9)))
                    .collect();
                out.line(format!("map {}", pairs.join(" ")));
                for _ in 0..rng.range(1, 6) {
                    if rng.chance(60) {
                        out.line(format!("find {}", rng.pick(&keys)));
                    } else {
                        out.line(format!("findmut {} {}", rng.pick(&keys), rng.below(9)));
                    }
                }
            }
        }
    }
    out.flush();
}

fn main() {
    for (i, e) in ALL.iter().enumerate() {
        assert_eq!(*e as usize, i, "ExchangeId declaration order");
    }
    assert!(ALL.windows(2).all(|w| w[0] < w[1]), "ExchangeId derived Ord");
    for (i, k) in KINDS.iter().enumerate() {
        assert_eq!(*k as usize, i, "SubKind declaration order");
    }
    let a = args();
    match a.cmd.as_str() {
        "gen" => generate(a.seed, a.n, &a.tier),
        "run" => run(),
        _ => {
            eprintln!("usage: c13v gen <seed> <n> <tier> | run < cases");
            std::process::exit(2)
        }
    }
}
