//! C14 — connectivity. Ops: `init n [on]`, `mkt e [kind]`, `acc e [kind]`, `mktre e`, `accre e` driven
//! through the real `Engine::process`; observations: global health, per-exchange links, on-disconnect log.
//! `init n on` builds the engine with trading ENABLED (the scripted strategy then runs its - empty - algo
//! step after every market / account item); `n` may be up to 10 (labels 5..9 are further `ExchangeId`s).
//! `mkt e <trade|l1|book|candle|liq>` / `acc e <trade|bal|snap|ord|canc>` choose the kind of the item: every
//! `DataKind` / `AccountEventKind` variant is an item of its link. Without a kind token the item is a public
//! trade / alternates trade and balance snapshot by op position (the original protocol).
//! Configuration shapes (`init n <on|off> <kinds> <links> <via>`, six tokens, family `cfg…`):
//!   kinds  non-empty string over `s p f o` (spot / perpetual / future / option), cycled over the instruments in
//!          build order: one exchange carries instruments of several kinds (derivatives add a settlement asset)
//!   links  non-empty string over `H C M U`, cycled over the exchange LABELS: the execution link of the exchange
//!          is healthy / closed (receiver dropped) / missing (`None` slot: tracked but not traded) / refusing
//!   via    `proc` = `Engine::process`; `audit` = `barter::engine::process_with_audit`; `state` = items straight
//!          into `EngineState::update_from_market` / `update_from_account`, notices into
//!          `Engine::update_from_{market,account}_stream`
//!   with `on` (and via != state) the scripted strategy EMITS one open request for the item's exchange after every
//!   item (sent / failing according to the link); connectivity depends on none of this.
use barter::{
    EngineEvent,
    engine::{
        Processor,
        state::{connectivity::Health, trading::TradingState},
    },
    execution::AccountStreamEvent,
};
use barter_data::{
    books::{Level, OrderBook},
    event::{DataKind, MarketEvent},
    streams::consumer::MarketStreamEvent,
    subscription::{
        book::{OrderBookEvent, OrderBookL1},
        candle::Candle,
        liquidation::Liquidation,
        trade::PublicTrade,
    },
};
use barter_execution::{
    AccountEvent, AccountEventKind, AccountSnapshot,
    balance::{AssetBalance, Balance},
    order::{
        Order, OrderEvent, OrderKey, OrderKind, TimeInForce,
        id::{ClientOrderId, OrderId, StrategyId},
        request::{OrderResponseCancel, RequestOpen},
        state::{Cancelled, Open, OrderState},
    },
};
use barter_instrument::{
    Side, Underlying,
    asset::{Asset, AssetIndex},
    exchange::{ExchangeId, ExchangeIndex},
    index::IndexedInstruments,
    instrument::{
        Instrument, InstrumentIndex,
        kind::{
            InstrumentKind,
            future::FutureContract,
            option::{OptionContract, OptionExercise, OptionKind},
            perpetual::PerpetualContract,
        },
        quote::InstrumentQuoteAsset,
    },
};
use barter_integration::snapshot::Snapshot;
use rust_decimal::Decimal;
use vh::{engine_util::*, *};

/// Exchange labels 0..9: the first five are the shared `EXCHANGES`; the rest are chosen so that the index
/// order (sorted `ExchangeId`) interleaves with the label order.
const EXCH: [ExchangeId; 10] = [
    ExchangeId::BinanceSpot,
    ExchangeId::Coinbase,
    ExchangeId::Kraken,
    ExchangeId::Okx,
    ExchangeId::Bitfinex,
    ExchangeId::Gemini,
    ExchangeId::BinanceFuturesUsd,
    ExchangeId::Poloniex,
    ExchangeId::Bitmex,
    ExchangeId::GateioSpot,
];

/// Same shape as `engine_util::build_instruments`, over `EXCH`.
fn build_instruments_wide(defs: &[(usize, &str, &str)]) -> IndexedInstruments {
    let mut builder = IndexedInstruments::builder();
    for (ex, base, quote) in defs {
        builder = builder.add_instrument(Instrument::spot(
            EXCH[*ex],
            format!("{base}_{quote}_x{ex}"),
            format!("{}{}", base.to_uppercase(), quote.to_uppercase()),
            Underlying::new(*base, *quote),
            None,
        ));
    }
    builder.build()
}

/// As `build_instruments_wide`, instrument `k` (build order) of kind `kinds[k % len]`.
fn build_instruments_kinds(defs: &[(usize, &str, &str)], kinds: &[char]) -> IndexedInstruments {
    let mut builder = IndexedInstruments::builder();
    for (k, (ex, base, quote)) in defs.iter().enumerate() {
        let kind = match kinds[k % kinds.len()] {
            's' => InstrumentKind::Spot,
            'p' => InstrumentKind::Perpetual(PerpetualContract {
                contract_size: Decimal::TEN,
                settlement_asset: Asset::new_from_exchange(*quote),
            }),
            'f' => InstrumentKind::Future(FutureContract {
                contract_size: Decimal::new(1, 2),
                settlement_asset: Asset::new_from_exchange(*base),
                expiry: time_ms(1_000_000),
            }),
            _ => InstrumentKind::Option(OptionContract {
                contract_size: Decimal::ONE_HUNDRED,
                settlement_asset: Asset::new_from_exchange("usdc"),
                kind: OptionKind::Call,
                exercise: OptionExercise::European,
                expiry: time_ms(1_000_000),
                strike: Decimal::ONE_HUNDRED,
            }),
        };
        builder = builder.add_instrument(Instrument::new(
            EXCH[*ex],
            format!("{base}_{quote}_x{ex}"),
            format!("{}{}", base.to_uppercase(), quote.to_uppercase()),
            Underlying::new(Asset::new_from_exchange(*base), Asset::new_from_exchange(*quote)),
            InstrumentQuoteAsset::UnderlyingQuote,
            kind,
            None,
        ));
    }
    builder.build()
}

#[derive(Clone, Copy, PartialEq)]
enum Via {
    Proc,
    Audit,
    State,
}

/// `<on|off> <kinds> <links> <via>` of the six-token `init`
fn parse_cfg(t: &[String]) -> Option<(TradingState, Vec<char>, Vec<Link>, Via)> {
    let trading = match t[0].as_str() {
        "on" => TradingState::Enabled,
        "off" => TradingState::Disabled,
        _ => return None,
    };
    let kinds: Vec<char> = t[1].chars().collect();
    if kinds.is_empty() || !kinds.iter().all(|c| "spfo".contains(*c)) {
        return None;
    }
    let links: Option<Vec<Link>> = t[2]
        .chars()
        .map(|c| match c {
            'H' => Some(Link::Healthy),
            'C' => Some(Link::Closed),
            'M' => Some(Link::Missing),
            'U' => Some(Link::Unhealthy),
            _ => None,
        })
        .collect();
    let links = links.filter(|l| !l.is_empty())?;
    let via = match t[3].as_str() {
        "proc" => Via::Proc,
        "audit" => Via::Audit,
        "state" => Via::State,
        _ => return None,
    };
    Some((trading, kinds, links, via))
}

fn h(x: Health) -> &'static str {
    match x {
        Health::Healthy => "H",
        Health::Reconnecting => "R",
    }
}

fn observe(engine: &TestEngine, lines: &mut Vec<String>) {
    let c = &engine.state.connectivity;
    lines.push(format!("global {}", h(c.global)));
    lines.push(format!(
        "links {}",
        c.exchanges
            .values()
            .map(|s| format!("{}{}", h(s.market_data), h(s.account)))
            .collect::<Vec<_>>()
            .join(" ")
    ));
    lines.push(format!(
        "disc {}",
        engine
            .strategy
            .disconnects
            .iter()
            .map(|id| EXCH.iter().position(|e| e == id).unwrap().to_string())
            .collect::<Vec<_>>()
            .join(" ")
    ));
}

fn run() {
    run_cases(|case, lines| {
        let mut built: Option<Built> = None;
        // instrument index / asset index of each exchange label, for routing items
        let mut n = 0usize;
        let mut via = Via::Proc;
        let mut emit = false;
        for (k, op) in case.ops.iter().enumerate() {
            lines.push("@".into());
            let arg: usize = op[1].parse().unwrap();
            if op[0] == "init" {
                let cfg = if op.len() == 6 {
                    match parse_cfg(&op[2..]) {
                        Some(c) => Some(c),
                        None => {
                            lines.push("bad-op".into());
                            continue;
                        }
                    }
                } else {
                    None
                };
                let trading = match (&cfg, op.get(2).map(|s| s.as_str())) {
                    (Some(c), _) => c.0,
                    (None, None) => TradingState::Disabled,
                    (None, Some("on")) if op.len() == 3 => TradingState::Enabled,
                    _ => {
                        lines.push("bad-op".into());
                        continue;
                    }
                };
                if arg > EXCH.len() {
                    lines.push("bad-op".into());
                    continue;
                }
                n = arg;
                // exchange label e carries (e % 3) + 1 instruments with different bases, so that instrument
                // indices, asset indices, exchange indices and labels never coincide by accident (with 5
                // exchanges the index order - ExchangeId order - also differs from the label order)
                const BASES: [&str; 3] = ["btc", "eth", "sol"];
                let defs: Vec<(usize, &str, &str)> = (0..n)
                    .flat_map(|e| (0..=(e % 3)).map(move |j| (e, BASES[j], "usdt")))
                    .collect();
                via = Via::Proc;
                emit = false;
                let (instruments, links) = match &cfg {
                    None => (build_instruments_wide(&defs), vec![]),
                    Some((_, kinds, links, v)) => {
                        via = *v;
                        emit = trading == TradingState::Enabled && via != Via::State;
                        let ii = build_instruments_kinds(&defs, kinds);
                        // `build_engine` wants the links in ExchangeIndex order; the op gives them by label
                        let by_index: Vec<Link> = ii
                            .exchanges()
                            .iter()
                            .map(|e| links[EXCH.iter().position(|x| *x == e.value).unwrap() % links.len()])
                            .collect();
                        (ii, by_index)
                    }
                };
                built = Some(build_engine(&instruments, &links, trading));
                observe(&built.as_ref().unwrap().engine, lines);
                continue;
            }
            // kind token: only on items, only from the item's own alphabet
            let kind: Option<&str> = match (op[0].as_str(), op.get(2).map(|s| s.as_str()), op.len()) {
                (_, None, 2) => None,
                ("mkt", Some(k @ ("trade" | "l1" | "book" | "candle" | "liq")), 3) => Some(k),
                ("acc", Some(k @ ("trade" | "bal" | "snap" | "ord" | "canc")), 3) => Some(k),
                _ => {
                    lines.push("bad-op".into());
                    continue;
                }
            };
            let engine = &mut built.as_mut().expect("init first").engine;
            if arg >= n {
                // model and code both reject: the code panics on an unknown exchange
                lines.push("panic".into());
                continue;
            }
            let time = time_ms(k as i64);
            let order_key = |engine: &TestEngine| OrderKey {
                exchange: ExchangeIndex(exchange_index_of(engine, arg)),
                instrument: InstrumentIndex(instrument_of(engine, arg)),
                strategy: StrategyId::new("verif"),
                cid: ClientOrderId::new(format!("c{k}")),
            };
            let event: Event = match (op[0].as_str(), kind) {
                ("mkt", mk) => EngineEvent::Market(MarketStreamEvent::Item(MarketEvent {
                    time_exchange: time,
                    time_received: time,
                    exchange: EXCH[arg],
                    // exchanges are indexed in sorted order of ExchangeId: look the instrument up
                    instrument: InstrumentIndex(instrument_of(engine, arg)),
                    kind: match mk {
                        None | Some("trade") => DataKind::Trade(PublicTrade {
                            id: k.to_string(),
                            price: 100.0,
                            amount: 1.0,
                            side: Side::Buy,
                        }),
                        Some("l1") => DataKind::OrderBookL1(OrderBookL1 {
                            last_update_time: time,
                            best_bid: Some(Level::new(Decimal::from(99), Decimal::ONE)),
                            best_ask: Some(Level::new(Decimal::from(101), Decimal::ONE)),
                        }),
                        // a book event that carries NO price information at all (empty update)
                        Some("book") if k % 2 == 0 => DataKind::OrderBook(OrderBookEvent::Update(OrderBook::new(
                            k as u64,
                            None,
                            Vec::<Level>::new(),
                            Vec::<Level>::new(),
                        ))),
                        Some("book") => DataKind::OrderBook(OrderBookEvent::Snapshot(OrderBook::new(
                            k as u64,
                            Some(time),
                            vec![Level::new(Decimal::from(99), Decimal::ONE)],
                            vec![Level::new(Decimal::from(101), Decimal::ONE)],
                        ))),
                        Some("candle") => DataKind::Candle(Candle {
                            close_time: time,
                            open: 1.0,
                            high: 2.0,
                            low: 1.0,
                            close: 2.0,
                            volume: 3.0,
                            trade_count: 2,
                        }),
                        _ => DataKind::Liquidation(Liquidation {
                            side: Side::Sell,
                            price: 100.0,
                            quantity: 1.0,
                            time,
                        }),
                    },
                })),
                // every kind of account item heals the account link: alternate balance snapshots and trades
                ("acc", None) if k % 2 == 1 => account_item(engine, arg, "trade", k, time, order_key(engine)),
                ("acc", None) => account_item(engine, arg, "bal", k, time, order_key(engine)),
                ("acc", Some(ak)) => account_item(engine, arg, ak, k, time, order_key(engine)),
                ("mktre", _) => EngineEvent::Market(MarketStreamEvent::Reconnecting(EXCH[arg])),
                ("accre", _) => EngineEvent::Account(AccountStreamEvent::Reconnecting(EXCH[arg])),
                (other, _) => panic!("bad op {other}"),
            };
            if emit && matches!(op[0].as_str(), "mkt" | "acc") {
                let mut key = order_key(engine);
                key.cid = ClientOrderId::new(format!("g{k}"));
                engine.strategy.script.borrow_mut().push_back((
                    vec![],
                    vec![OrderEvent {
                        key,
                        state: RequestOpen {
                            side: Side::Buy,
                            price: Decimal::ONE_HUNDRED,
                            quantity: Decimal::ONE,
                            kind: OrderKind::Limit,
                            time_in_force: TimeInForce::GoodUntilCancelled { post_only: false },
                        },
                    }],
                ));
            }
            match (via, event) {
                (Via::Proc, event) => {
                    let _audit = engine.process(event);
                }
                (Via::Audit, event) => {
                    let _tick = barter::engine::process_with_audit(engine, event);
                }
                (Via::State, EngineEvent::Market(MarketStreamEvent::Item(ev))) => {
                    engine.state.update_from_market(&ev)
                }
                (Via::State, EngineEvent::Account(AccountStreamEvent::Item(ev))) => {
                    let _exit = engine.state.update_from_account(&ev);
                }
                (Via::State, EngineEvent::Market(m)) => {
                    let _out = engine.update_from_market_stream(&m);
                }
                (Via::State, EngineEvent::Account(a)) => {
                    let _out = engine.update_from_account_stream(&a);
                }
                (Via::State, _) => unreachable!(),
            }
            observe_labelled(engine, n, lines);
        }
    });
}

/// An account item of the given kind for exchange label `e` (every `AccountEventKind` variant).
fn account_item(
    engine: &TestEngine,
    e: usize,
    kind: &str,
    k: usize,
    time: chrono::DateTime<chrono::Utc>,
    key: OrderKey<ExchangeIndex, InstrumentIndex>,
) -> Event {
    let ex = exchange_index_of(engine, e);
    let balance = AssetBalance {
        asset: AssetIndex(asset_of(engine, ex)),
        balance: Balance::new(Decimal::ONE, Decimal::ONE),
        time_exchange: time,
    };
    let kind = match kind {
        "trade" => AccountEventKind::Trade(barter_execution::trade::Trade {
            id: barter_execution::trade::TradeId::new(format!("t{k}")),
            order_id: OrderId::new(format!("o{k}")),
            instrument: InstrumentIndex(instrument_of(engine, e)),
            strategy: StrategyId::new("verif"),
            time_exchange: time,
            side: Side::Buy,
            price: Decimal::ONE_HUNDRED,
            quantity: Decimal::ONE,
            fees: barter_execution::trade::AssetFees::quote_fees(Decimal::ZERO),
        }),
        "bal" => AccountEventKind::BalanceSnapshot(Snapshot(balance)),
        // full account snapshot: empty on even op positions (it then touches no asset / instrument state
        // at all), one balance on odd ones
        "snap" => AccountEventKind::Snapshot(AccountSnapshot {
            exchange: ExchangeIndex(ex),
            balances: if k % 2 == 0 { vec![] } else { vec![balance] },
            instruments: vec![],
        }),
        "ord" => AccountEventKind::OrderSnapshot(Snapshot(Order {
            key,
            side: Side::Buy,
            price: Decimal::ONE_HUNDRED,
            quantity: Decimal::ONE,
            kind: OrderKind::Limit,
            time_in_force: TimeInForce::GoodUntilCancelled { post_only: false },
            state: OrderState::active(Open {
                id: OrderId::new(format!("o{k}")),
                time_exchange: time,
                filled_quantity: Decimal::ZERO,
            }),
        })),
        _ => AccountEventKind::OrderCancelled(OrderResponseCancel {
            key,
            state: Ok(Cancelled { id: OrderId::new(format!("o{k}")), time_exchange: time }),
        }),
    };
    EngineEvent::Account(AccountStreamEvent::Item(AccountEvent { exchange: ExchangeIndex(ex), kind }))
}

/// position of exchange label `e` in the engine's connectivity table (= its ExchangeIndex)
fn exchange_index_of(engine: &TestEngine, e: usize) -> usize {
    engine
        .state
        .connectivity
        .exchanges
        .get_index_of(&EXCH[e])
        .unwrap()
}

fn instrument_of(engine: &TestEngine, e: usize) -> usize {
    let ex = exchange_index_of(engine, e);
    engine
        .state
        .instruments
        .0
        .values()
        .rposition(|s| s.instrument.exchange == ExchangeIndex(ex))
        .unwrap()
}

fn asset_of(engine: &TestEngine, ex: usize) -> usize {
    engine
        .state
        .assets
        .0
        .keys()
        .position(|k| k.exchange == *engine.state.connectivity.exchanges.get_index(ex).unwrap().0)
        .unwrap()
}

/// observations with links listed in label order (0..n), so they do not depend on how the index
/// builder happened to order the exchange ids
fn observe_labelled(engine: &TestEngine, n: usize, lines: &mut Vec<String>) {
    let c = &engine.state.connectivity;
    lines.push(format!("global {}", h(c.global)));
    lines.push(format!(
        "links {}",
        (0..n)
            .map(|e| {
                let s = c.connectivity(&EXCH[e]);
                format!("{}{}", h(s.market_data), h(s.account))
            })
            .collect::<Vec<_>>()
            .join(" ")
    ));
    lines.push(format!(
        "disc {}",
        engine
            .strategy
            .disconnects
            .iter()
            .map(|id| EXCH.iter().position(|e| e == id).unwrap().to_string())
            .collect::<Vec<_>>()
            .join(" ")
    ));
}

fn generate(seed: u64, n_cases: usize, tier: &str) {
    let mut out = Out::new();
    let mut rng = Rng::new(seed);
    let mut id = 0usize;
    let kinds = ["mkt", "acc", "mktre", "accre"];
    if tier == "thorough" {
        // exhaustive: every history of length <= 6 over 2 exchanges (8 symbols)
        let syms: Vec<String> = (0..2)
            .flat_map(|e| kinds.iter().map(move |k| format!("{k} {e}")))
            .collect();
        for len in 0..=5usize {
            let total = syms.len().pow(len as u32);
            for mut code in 0..total {
                id += 1;
                out.case(format!("x{id}"));
                out.line("init 2");
                for _ in 0..len {
                    out.line(&syms[code % syms.len()]);
                    code /= syms.len();
                }
            }
        }
    }
    for _ in 0..n_cases {
        id += 1;
        out.case(format!("r{id}"));
        let n = rng.range(1, 5) as usize;
        out.line(format!("init {n}"));
        let len = rng.range(0, if tier == "thorough" { 80 } else { 40 });
        // bias: mostly items so that all-healthy states are reached, then notices
        let notice_pct = *rng.pick(&[5u64, 15, 40]);
        for _ in 0..len {
            let e = rng.below(n as u64);
            let k = if rng.chance(notice_pct) {
                *rng.pick(&["mktre", "accre"])
            } else {
                *rng.pick(&["mkt", "acc"])
            };
            out.line(format!("{k} {e}"));
        }
    }
    // Separately seeded family `d…` (input-domain audit): up to 10 exchanges, trading enabled or disabled,
    // every DataKind / AccountEventKind variant as the item, and a warm-up that heals every link (so that the
    // all-healthy state - the early-return branch - is reached also with many exchanges).
    let mut rng = Rng::new(seed ^ 0xD0D0_14);
    let mkinds = ["trade", "l1", "book", "candle", "liq"];
    let akinds = ["trade", "bal", "snap", "ord", "canc"];
    for _ in 0..(n_cases / 3).max(12) {
        id += 1;
        out.case(format!("d{id}"));
        let n = if rng.chance(50) { rng.range(6, 10) } else { rng.range(1, 5) } as usize;
        out.line(format!("init {n}{}", if rng.chance(50) { " on" } else { "" }));
        let item = |rng: &mut Rng, market: bool, e: usize| -> String {
            if market {
                format!("mkt {e} {}", rng.pick(&mkinds))
            } else {
                format!("acc {e} {}", rng.pick(&akinds))
            }
        };
        // one kind for the whole case in a third of the cases: a kind that does not heal shows as a link
        // that never becomes healthy
        let mono: Option<(usize, usize)> =
            if rng.chance(33) { Some((rng.below(5) as usize, rng.below(5) as usize)) } else { None };
        if rng.chance(60) {
            // warm-up: every link once, shuffled
            let mut links: Vec<(bool, usize)> = (0..n).flat_map(|e| [(true, e), (false, e)]).collect();
            for i in (1..links.len()).rev() {
                links.swap(i, rng.below(i as u64 + 1) as usize);
            }
            for (m, e) in links {
                match mono {
                    Some((mk, ak)) => out.line(if m {
                        format!("mkt {e} {}", mkinds[mk])
                    } else {
                        format!("acc {e} {}", akinds[ak])
                    }),
                    None => out.line(item(&mut rng, m, e)),
                }
            }
        }
        let len = rng.range(0, if tier == "thorough" { 60 } else { 30 });
        let notice_pct = *rng.pick(&[5u64, 15, 40]);
        // in a fifth of the cases all traffic goes to two exchanges (a notice is usually followed directly
        // by an item of the same link or of the same exchange's other link)
        let focus = rng.chance(20);
        for _ in 0..len {
            let e = if focus { rng.below(n.min(2) as u64) } else { rng.below(n as u64) } as usize;
            if rng.chance(notice_pct) {
                out.line(format!("{} {e}", rng.pick(&["mktre", "accre"])));
            } else {
                let m = rng.chance(50);
                match mono {
                    Some((mk, ak)) if rng.chance(80) => out.line(if m {
                        format!("mkt {e} {}", mkinds[mk])
                    } else {
                        format!("acc {e} {}", akinds[ak])
                    }),
                    _ => out.line(item(&mut rng, m, e)),
                }
            }
        }
    }
    // Separately seeded family `cfg…` (configuration-shape audit): instruments of several kinds on one exchange,
    // execution links healthy / closed / missing / refusing per exchange, trading enabled with a strategy that
    // emits after every item, and the three ways the public API lets a user feed the engine.
    let mut rng = Rng::new(seed ^ 0xCF6_0014);
    for _ in 0..(n_cases / 3).max(12) {
        id += 1;
        out.case(format!("cfg{id}"));
        let n = if rng.chance(40) { rng.range(6, 10) } else { rng.range(1, 5) } as usize;
        let kinds: String = (0..rng.range(1, 4)).map(|_| *rng.pick(&['s', 'p', 'f', 'o'])).collect();
        let links: String = if rng.chance(20) {
            "H".into()
        } else {
            (0..rng.range(1, n as i64)).map(|_| *rng.pick(&['H', 'M', 'M', 'C', 'U'])).collect()
        };
        let via = *rng.pick(&["proc", "proc", "audit", "state"]);
        out.line(format!("init {n} {} {kinds} {links} {via}", if rng.chance(60) { "on" } else { "off" }));
        let item = |rng: &mut Rng, market: bool, e: usize| -> String {
            if market {
                format!("mkt {e} {}", rng.pick(&mkinds))
            } else {
                format!("acc {e} {}", rng.pick(&akinds))
            }
        };
        if rng.chance(60) {
            let mut links: Vec<(bool, usize)> = (0..n).flat_map(|e| [(true, e), (false, e)]).collect();
            for i in (1..links.len()).rev() {
                links.swap(i, rng.below(i as u64 + 1) as usize);
            }
            for (m, e) in links {
                out.line(item(&mut rng, m, e));
            }
        }
        let len = rng.range(0, if tier == "thorough" { 60 } else { 30 });
        let notice_pct = *rng.pick(&[5u64, 15, 40]);
        for _ in 0..len {
            let e = rng.below(n as u64) as usize;
            if rng.chance(notice_pct) {
                out.line(format!("{} {e}", rng.pick(&["mktre", "accre"])));
            } else {
                let m = rng.chance(50);
                out.line(item(&mut rng, m, e));
            }
        }
    }
    out.flush();
}

fn main() {
    let a = args();
    match a.cmd.as_str() {
        "gen" => generate(a.seed, a.n, &a.tier),
        "run" => run(),
        _ => {
            eprintln!("usage: c14 gen <seed> <n> <tier> | run < cases");
            std::process::exit(2)
        }
    }
}
