//! C14 — connectivity. Ops: `init n`, `mkt e`, `acc e`, `mktre e`, `accre e` driven through the real
//! `Engine::process`; observations: global health, per-exchange links, on-disconnect log.
use barter::{
    EngineEvent,
    engine::{
        Processor,
        state::{connectivity::Health, trading::TradingState},
    },
    execution::AccountStreamEvent,
};
use barter_data::{
    event::{DataKind, MarketEvent},
    streams::consumer::MarketStreamEvent,
    subscription::trade::PublicTrade,
};
use barter_execution::{
    AccountEvent, AccountEventKind,
    balance::{AssetBalance, Balance},
};
use barter_instrument::{
    Side,
    asset::AssetIndex,
    exchange::ExchangeIndex,
    instrument::InstrumentIndex,
};
use barter_integration::snapshot::Snapshot;
use rust_decimal::Decimal;
use vh::{engine_util::*, *};

fn h(x: Health) -> &'static str {
    match x {
        Health::Healthy => "H",
        Health::Reconnecting => "R",
    }
}

fn observe(engine: &TestEngine, lines: &mut Vec<String>) {
    let c = &engine.state.connectivity;
    lines.push(format!("global {}", h(c.global)));
    lines.push(format!(
        "links {}",
        c.exchanges
            .values()
            .map(|s| format!("{}{}", h(s.market_data), h(s.account)))
            .collect::<Vec<_>>()
            .join(" ")
    ));
    lines.push(format!(
        "disc {}",
        engine
            .strategy
            .disconnects
            .iter()
            .map(|id| EXCHANGES.iter().position(|e| e == id).unwrap().to_string())
            .collect::<Vec<_>>()
            .join(" ")
    ));
}

fn run() {
    run_cases(|case, lines| {
        let mut built: Option<Built> = None;
        // instrument index / asset index of each exchange label, for routing items
        let mut n = 0usize;
        for (k, op) in case.ops.iter().enumerate() {
            lines.push("@".into());
            let arg: usize = op[1].parse().unwrap();
            if op[0] == "init" {
                n = arg;
                // exchange label e carries (e % 3) + 1 instruments with different bases, so that instrument
                // indices, asset indices, exchange indices and labels never coincide by accident (with 5
                // exchanges the index order - ExchangeId order - also differs from the label order)
                const BASES: [&str; 3] = ["btc", "eth", "sol"];
                let defs: Vec<(usize, &str, &str)> = (0..n)
                    .flat_map(|e| (0..=(e % 3)).map(move |j| (e, BASES[j], "usdt")))
                    .collect();
                let instruments = build_instruments(&defs);
                built = Some(build_engine(&instruments, &[], TradingState::Disabled));
                observe(&built.as_ref().unwrap().engine, lines);
                continue;
            }
            let engine = &mut built.as_mut().expect("init first").engine;
            if arg >= n {
                // model and code both reject: the code panics on an unknown exchange
                lines.push("panic".into());
                continue;
            }
            let time = time_ms(k as i64);
            let event: Event = match op[0].as_str() {
                "mkt" => EngineEvent::Market(MarketStreamEvent::Item(MarketEvent {
                    time_exchange: time,
                    time_received: time,
                    exchange: EXCHANGES[arg],
                    // exchanges are indexed in sorted order of ExchangeId: look the instrument up
                    instrument: InstrumentIndex(instrument_of(engine, arg)),
                    kind: DataKind::Trade(PublicTrade {
                        id: k.to_string(),
                        price: 100.0,
                        amount: 1.0,
                        side: Side::Buy,
                    }),
                })),
                // every kind of account item heals the account link: alternate balance snapshots and trades
                "acc" if k % 2 == 1 => {
                    let ex = exchange_index_of(engine, arg);
                    EngineEvent::Account(AccountStreamEvent::Item(AccountEvent {
                        exchange: ExchangeIndex(ex),
                        kind: AccountEventKind::Trade(barter_execution::trade::Trade {
                            id: barter_execution::trade::TradeId::new(format!("t{k}")),
                            order_id: barter_execution::order::id::OrderId::new(format!("o{k}")),
                            instrument: InstrumentIndex(instrument_of(engine, arg)),
                            strategy: barter_execution::order::id::StrategyId::new("verif"),
                            time_exchange: time,
                            side: Side::Buy,
                            price: Decimal::ONE_HUNDRED,
                            quantity: Decimal::ONE,
                            fees: barter_execution::trade::AssetFees::quote_fees(Decimal::ZERO),
                        }),
                    }))
                }
                "acc" => {
                    let ex = exchange_index_of(engine, arg);
                    EngineEvent::Account(AccountStreamEvent::Item(AccountEvent {
                        exchange: ExchangeIndex(ex),
                        kind: AccountEventKind::BalanceSnapshot(Snapshot(AssetBalance {
                            asset: AssetIndex(asset_of(engine, ex)),
                            balance: Balance::new(Decimal::ONE, Decimal::ONE),
                            time_exchange: time,
                        })),
                    }))
                }
                "mktre" => EngineEvent::Market(MarketStreamEvent::Reconnecting(EXCHANGES[arg])),
                "accre" => EngineEvent::Account(AccountStreamEvent::Reconnecting(EXCHANGES[arg])),
                other => panic!("bad op {other}"),
            };
            let _audit = engine.process(event);
            observe_labelled(engine, n, lines);
        }
    });
}

/// position of exchange label `e` in the engine's connectivity table (= its ExchangeIndex)
fn exchange_index_of(engine: &TestEngine, e: usize) -> usize {
    engine
        .state
        .connectivity
        .exchanges
        .get_index_of(&EXCHANGES[e])
        .unwrap()
}

fn instrument_of(engine: &TestEngine, e: usize) -> usize {
    let ex = exchange_index_of(engine, e);
    engine
        .state
        .instruments
        .0
        .values()
        .rposition(|s| s.instrument.exchange == ExchangeIndex(ex))
        .unwrap()
}

fn asset_of(engine: &TestEngine, ex: usize) -> usize {
    engine
        .state
        .assets
        .0
        .keys()
        .position(|k| k.exchange == *engine.state.connectivity.exchanges.get_index(ex).unwrap().0)
        .unwrap()
}

/// observations with links listed in label order (0..n), so they do not depend on how the index
/// builder happened to order the exchange ids
fn observe_labelled(engine: &TestEngine, n: usize, lines: &mut Vec<String>) {
    let c = &engine.state.connectivity;
    lines.push(format!("global {}", h(c.global)));
    lines.push(format!(
        "links {}",
        (0..n)
            .map(|e| {
                let s = c.connectivity(&EXCHANGES[e]);
                format!("{}{}", h(s.market_data), h(s.account))
            })
            .collect::<Vec<_>>()
            .join(" ")
    ));
    lines.push(format!(
        "disc {}",
        engine
            .strategy
            .disconnects
            .iter()
            .map(|id| EXCHANGES.iter().position(|e| e == id).unwrap().to_string())
            .collect::<Vec<_>>()
            .join(" ")
    ));
}

fn generate(seed: u64, n_cases: usize, tier: &str) {
    let mut out = Out::new();
    let mut rng = Rng::new(seed);
    let mut id = 0usize;
    let kinds = ["mkt", "acc", "mktre", "accre"];
    if tier == "thorough" {
        // exhaustive: every history of length <= 6 over 2 exchanges (8 symbols)
        let syms: Vec<String> = (0..2)
            .flat_map(|e| kinds.iter().map(move |k| format!("{k} {e}")))
            .collect();
        for len in 0..=5usize {
            let total = syms.len().pow(len as u32);
            for mut code in 0..total {
                id += 1;
                out.case(format!("x{id}"));
                out.line("init 2");
                for _ in 0..len {
                    out.line(&syms[code % syms.len()]);
                    code /= syms.len();
                }
            }
        }
    }
    for _ in 0..n_cases {
        id += 1;
        out.case(format!("r{id}"));
        let n = rng.range(1, 5) as usize;
        out.line(format!("init {n}"));
        let len = rng.range(0, if tier == "thorough" { 80 } else { 40 });
        // bias: mostly items so that all-healthy states are reached, then notices
        let notice_pct = *rng.pick(&[5u64, 15, 40]);
        for _ in 0..len {
            let e = rng.below(n as u64);
            let k = if rng.chance(notice_pct) {
                *rng.pick(&["mktre", "accre"])
            } else {
                *rng.pick(&["mkt", "acc"])
            };
            out.line(format!("{k} {e}"));
        }
    }
    out.flush();
}

fn main() {
    let a = args();
    match a.cmd.as_str() {
        "gen" => generate(a.seed, a.n, &a.tier),
        "run" => run(),
        _ => {
            eprintln!("usage: c14 gen <seed> <n> <tier> | run < cases");
            std::process::exit(2)
        }
    }
}
