//! C05 — local L2 order book. Ops (see lean/BarterModel/Driver/C05.lean):
//!   `init n` | `snap k seq | p:a … | p:a …` | `upd k seq | p:a … | p:a …` | `updr …` | `depth k d` | `re` | `mgr`
//! Every `snap`/`upd` is built with the real `OrderBook::new` and applied with the real
//! `OrderBook::update`; observations come from `bids().levels()`, `asks().levels()`, `sequence`,
//! `mid_price()`, `volume_weighed_mid_price()`, `snapshot(depth)`. `mgr` replays the whole stream of
//! the case through the real `OrderBookL2Manager::run` over an `OrderBookMapMulti` of default books.
use barter_data::{
    books::{
        Level, OrderBook,
        manager::OrderBookL2Manager,
        map::{OrderBookMap, OrderBookMapMulti},
    },
    event::MarketEvent,
    streams::consumer::MarketStreamEvent,
    subscription::book::OrderBookEvent,
};
use barter_instrument::exchange::ExchangeId;
use chrono::{DateTime, Utc};
use fnv::FnvHashMap;
use rust_decimal::Decimal;
use std::sync::Arc;
use vh::*;

fn fmt_levels(ls: &[Level]) -> String {
    ls.iter()
        .map(|l| format!("{}:{}", fmt_dec(l.price), fmt_dec(l.amount)))
        .collect::<Vec<_>>()
        .join(" ")
}

fn fmt_sides(b: &OrderBook) -> String {
    format!("{} | {}", fmt_levels(b.bids().levels()), fmt_levels(b.asks().levels()))
}

fn fmt_book(b: &OrderBook) -> String {
    format!("{} {}", b.sequence, fmt_sides(b))
}

fn parse_levels(toks: &[String]) -> Vec<Level> {
    toks.iter()
        .map(|t| {
            let (p, a) = t.split_once(':').unwrap_or_else(|| panic!("bad level {t:?}"));
            Level::new(parse_dec(p), parse_dec(a))
        })
        .collect()
}

/// `k seq | bids | asks`; `None` (reported as `bad-op`, as the drivers do) when `seq` is not a `u64`
fn parse_body(toks: &[String]) -> Option<(usize, OrderBook)> {
    let k: usize = toks[0].parse().expect("key");
    let seq: u64 = toks[1].parse().ok()?;
    assert_eq!(toks[2], "|", "bad op");
    let rest = &toks[3..];
    let bar = rest.iter().position(|t| t == "|").expect("second |");
    let bids = parse_levels(&rest[..bar]);
    let asks = parse_levels(&rest[bar + 1..]);
    Some((k, OrderBook::new(seq, None, bids, asks)))
}

/// `k seq | bids | asks` for `updr`: the update's sides hold the levels in the order given. `OrderBook::new`
/// sorts, so the book is obtained the way a user gets an unsorted one: through the type's own
/// `Deserialize` (the serialised form of a book built by `new`, with the level arrays replaced).
fn parse_body_raw(toks: &[String]) -> Option<(usize, OrderBook)> {
    let (k, sorted) = parse_body(toks)?;
    let rest = &toks[3..];
    let bar = rest.iter().position(|t| t == "|").expect("second |");
    let raw = |ls: Vec<Level>| serde_json::to_value(ls).expect("levels serialise");
    let mut v = serde_json::to_value(&sorted).expect("book serialises");
    // `side` is skipped when serialising; the unit structs `Bids` / `Asks` deserialise from null
    v["bids"]["side"] = serde_json::Value::Null;
    v["asks"]["side"] = serde_json::Value::Null;
    v["bids"]["levels"] = raw(parse_levels(&rest[..bar]));
    v["asks"]["levels"] = raw(parse_levels(&rest[bar + 1..]));
    Some((k, serde_json::from_value(v).expect("book deserialises")))
}

const DEPTHS: [usize; 3] = [0, 1, 3];

fn observe(book: &OrderBook, lines: &mut Vec<String>) {
    lines.push(format!("seq {}", book.sequence));
    lines.push(format!("bids {}", fmt_levels(book.bids().levels())));
    lines.push(format!("asks {}", fmt_levels(book.asks().levels())));
    lines.push(format!("mid {}", fmt_opt_dec_approx(book.mid_price())));
    lines.push(format!("vwmid {}", fmt_opt_dec_approx(book.volume_weighed_mid_price())));
    for d in DEPTHS {
        lines.push(format!("snap{d} {}", fmt_book(&book.snapshot(d))));
    }
}

type StreamEv = MarketStreamEvent<usize, OrderBookEvent>;

fn item(k: usize, kind: OrderBookEvent) -> StreamEv {
    let t: DateTime<Utc> = DateTime::<Utc>::MIN_UTC;
    MarketStreamEvent::Item(MarketEvent {
        time_exchange: t,
        time_received: t,
        exchange: ExchangeId::Mock,
        instrument: k,
        kind,
    })
}

fn run() {
    let rt = tokio::runtime::Builder::new_current_thread().build().unwrap();
    run_cases(|case, lines| {
        let mut n = 0usize;
        let mut books: Vec<OrderBook> = vec![];
        let mut stream: Vec<StreamEv> = vec![];
        for op in case.ops.iter() {
            lines.push("@".into());
            match op[0].as_str() {
                "init" => {
                    n = op[1].parse().expect("n");
                    books = (0..n).map(|_| OrderBook::default()).collect();
                    stream.clear();
                }
                "re" => {
                    stream.push(MarketStreamEvent::Reconnecting(ExchangeId::Mock));
                    lines.push("skip".into());
                }
                "snap" | "upd" | "updr" => {
                    let parsed = if op[0] == "updr" { parse_body_raw(&op[1..]) } else { parse_body(&op[1..]) };
                    let Some((k, book)) = parsed else {
                        lines.push("bad-op".into());
                        continue;
                    };
                    let stored = fmt_sides(&book);
                    let event = if op[0] == "snap" {
                        OrderBookEvent::Snapshot(book)
                    } else {
                        OrderBookEvent::Update(book)
                    };
                    stream.push(item(k, event.clone()));
                    if k >= n {
                        lines.push("skip".into());
                        continue;
                    }
                    lines.push(format!("ev {stored}"));
                    books[k].update(event);
                    observe(&books[k], lines);
                }
                "depth" => {
                    // `snapshot(d)` of the book of key `k` for an arbitrary depth (a `usize`)
                    let k: usize = op[1].parse().expect("key");
                    match op[2].parse::<usize>() {
                        Err(_) => lines.push("bad-op".into()),
                        Ok(_) if k >= n => lines.push("skip".into()),
                        Ok(d) => lines.push(format!("snapd {}", fmt_book(&books[k].snapshot(d)))),
                    }
                }
                "mgr" => {
                    let mut map = FnvHashMap::default();
                    for k in 0..n {
                        // Arc<parking_lot::RwLock<OrderBook>> holding OrderBook::default()
                        map.insert(k, Arc::default());
                    }
                    let map = OrderBookMapMulti::new(map);
                    let manager = OrderBookL2Manager {
                        stream: futures::stream::iter(stream.clone()),
                        books: map.clone(),
                    };
                    rt.block_on(manager.run());
                    for k in 0..n {
                        let book = map.find(&k).expect("configured");
                        let book = book.read();
                        lines.push(format!("book {k} {}", fmt_book(&book)));
                    }
                }
                other => panic!("bad op {other}"),
            }
        }
    });
}

// ------------------------------------------------------------------------------------ generators

struct Grid {
    prices: Vec<String>,
}

impl Grid {
    fn new(rng: &mut Rng, max_prices: usize) -> Grid {
        let count = rng.range(2, max_prices as i64) as usize;
        let (base, step, scale) = *rng.pick(&[(100i64, 1i64, 0u32), (1000, 5, 1), (99990, 5, 2), (1, 1, 4), (25000, 125, 3)]);
        Grid {
            prices: (0..count as i64).map(|i| dec_str(base + i * step, scale)).collect(),
        }
    }
}

fn amount(rng: &mut Rng, zero_pct: u64) -> String {
    if rng.chance(zero_pct) {
        return (*rng.pick(&["0", "0.0", "0.000"])).to_string();
    }
    match rng.below(4) {
        0 => "1".into(),
        1 => "0.5".into(),
        2 => dec_str(rng.range(1, 9999), 3),
        _ => dec_str(rng.range(1, 50), 0),
    }
}

/// arbitrary unsorted levels, duplicates allowed
fn update_levels(rng: &mut Rng, grid: &Grid, max_levels: usize, zero_pct: u64) -> Vec<String> {
    let len = if rng.chance(15) { 0 } else { rng.range(1, max_levels as i64) as usize };
    (0..len)
        .map(|_| format!("{}:{}", rng.pick(&grid.prices), amount(rng, zero_pct)))
        .collect()
}

/// well-formed snapshot side: distinct prices, non-zero amounts, any order
fn snapshot_levels(rng: &mut Rng, grid: &Grid) -> Vec<String> {
    let mut ps: Vec<&String> = grid.prices.iter().filter(|_| rng.chance(55)).collect();
    // shuffle
    for i in (1..ps.len()).rev() {
        let j = rng.below(i as u64 + 1) as usize;
        ps.swap(i, j);
    }
    ps.into_iter().map(|p| format!("{p}:{}", amount(rng, 0))).collect()
}


// ---- input-domain family (`d<id>` cases; own random stream, so the `r` / `x` cases stay as they are) ----

const SEQ_EDGES: [u64; 10] = [
    0,
    1,
    4294967295,
    4294967296,
    9007199254740993,
    9223372036854775807,
    9223372036854775808,
    18446744073709551614,
    18446744073709551615,
    18446744073709551615,
];

/// the same price written with trailing zeros now and then (`100`, `100.0`, `100.00` are one price)
fn price_text(rng: &mut Rng, p: &str) -> String {
    if !rng.chance(15) {
        return p.to_string();
    }
    let z = *rng.pick(&["0", "00"]);
    if p.contains('.') { format!("{p}{z}") } else { format!("{p}.{z}") }
}

/// amounts of the signed class: zero (also written `-0`, `-0.0`), positive (at most 3 decimals, as `amount`) or
/// negative with a non-zero 4th decimal - so a negative amount never cancels a positive one and
/// `volume_weighed_mid_price` never divides by zero (that panic is modelled by the sub-check C05M)
fn signed_amount(rng: &mut Rng, zero_pct: u64, neg_pct: u64) -> String {
    if rng.chance(zero_pct) {
        return (*rng.pick(&["0", "0.0", "-0", "-0.0", "0.000"])).to_string();
    }
    if rng.chance(neg_pct) {
        return (*rng.pick(&["-0.0005", "-1.0005", "-0.2505", "-12.3455", "-49.9995", "-7.0001"])).to_string();
    }
    amount(rng, 0)
}

/// amounts of the magnitude class: 1e-8 … 1e12, at most 13 significant digits, positive
fn wide_amount(rng: &mut Rng, zero_pct: u64) -> String {
    if rng.chance(zero_pct) {
        return (*rng.pick(&["0", "0.00000000"])).to_string();
    }
    (*rng.pick(&[
        "0.00000001",
        "0.00000003",
        "0.12345678",
        "1",
        "99999.99999999",
        "1000000000000",
        "999999999999.9",
        "250000000",
    ]))
    .to_string()
}

struct DomCfg {
    bid_prices: Vec<String>,
    ask_prices: Vec<String>,
    /// 0 = `amount`, 1 = `signed_amount`, 2 = `wide_amount`
    amounts: u8,
    edge_seq: bool,
    max_levels: usize,
    events: i64,
    snapshot_keep_pct: u64,
    /// the side that never receives a level (0 = none, 1 = bids stay empty, 2 = asks stay empty)
    empty_side: u8,
}

fn dom_levels(rng: &mut Rng, cfg: &DomCfg, prices: &[String], update: bool) -> Vec<String> {
    let zero_pct = if update { *rng.pick(&[10u64, 30, 60]) } else { 0 };
    let am = |rng: &mut Rng| match cfg.amounts {
        1 => signed_amount(rng, zero_pct, 35),
        2 => wide_amount(rng, zero_pct),
        _ => amount(rng, zero_pct),
    };
    if update {
        let len = if rng.chance(10) { 0 } else { rng.range(1, cfg.max_levels as i64) as usize };
        // a long book: besides arbitrary levels, single levels at the front / back / middle of the grid
        if prices.len() > 40 && rng.chance(50) {
            let i = match rng.below(4) {
                0 => 0,
                1 => prices.len() - 1,
                2 => prices.len() / 2,
                _ => rng.below(prices.len() as u64) as usize,
            };
            return vec![format!("{}:{}", price_text(rng, &prices[i]), am(rng))];
        }
        (0..len)
            .map(|_| {
                let p = prices[rng.below(prices.len() as u64) as usize].clone();
                format!("{}:{}", price_text(rng, &p), am(rng))
            })
            .collect()
    } else {
        let mut ps: Vec<&String> = prices.iter().filter(|_| rng.chance(cfg.snapshot_keep_pct)).collect();
        for i in (1..ps.len()).rev() {
            let j = rng.below(i as u64 + 1) as usize;
            ps.swap(i, j);
        }
        ps.into_iter().map(|p| format!("{}:{}", price_text(rng, p), am(rng))).collect()
    }
}

fn grid_of(base: i64, step: i64, scale: u32, count: usize) -> Vec<String> {
    (0..count as i64).map(|i| dec_str(base + i * step, scale)).collect()
}

/// One case of the input-domain family; the class is fixed by the case index:
///  0 signed      prices below, at and above zero; negative amounts; `-0`
///  1 sequence    u64 sequence numbers 0, 1, 2^32-1, 2^32, 2^53+1, 2^63-1, 2^63, u64::MAX-1, u64::MAX in any order
///  2 magnitude   prices at 1e-8 and at 1e12, amounts 1e-8 … 1e12 (products stay within 28 digits)
///  3 shaped      an uncrossed or locked book (bids below asks), or a book with one side never populated
///  4 long        (every 4th round only) a side of 100-260 levels (grid of 140-260 prices), single upserts at front / middle / back, long updates
/// every class adds `depth k d` for d around the side lengths, 0, 1 and usize::MAX.
fn domain_case(out: &mut Out, rng: &mut Rng, idx: usize) {
    let class = match idx % 5 {
        4 if (idx / 5) % 4 != 0 => rng.below(4) as usize,
        c => c,
    };
    let small = |rng: &mut Rng| {
        let count = rng.range(2, 8) as usize;
        let (b, st, sc) = *rng.pick(&[(100i64, 1i64, 0u32), (1000, 5, 1), (99990, 5, 2), (1, 1, 4), (25000, 125, 3)]);
        grid_of(b, st, sc, count)
    };
    let mut cfg = DomCfg {
        bid_prices: vec![],
        ask_prices: vec![],
        amounts: 0,
        edge_seq: rng.chance(15),
        max_levels: 12,
        events: rng.range(1, 25),
        snapshot_keep_pct: 55,
        empty_side: 0,
    };
    match class {
        0 => {
            let count = rng.range(2, 8);
            let (st, sc) = *rng.pick(&[(1i64, 0u32), (5, 1), (1, 4), (125, 3), (1, 8)]);
            // the grid starts below zero and usually reaches or passes it
            let g = grid_of(-st * rng.range(1, count), st, sc, count as usize);
            let mut g: Vec<String> = g.into_iter().map(|p| if p == "0" && rng.chance(30) { "-0".to_string() } else { p }).collect();
            if rng.chance(30) {
                g.push("100".into());
            }
            cfg.bid_prices = g.clone();
            cfg.ask_prices = g;
            cfg.amounts = 1;
        }
        1 => {
            let g = small(rng);
            cfg.bid_prices = g.clone();
            cfg.ask_prices = g;
            cfg.edge_seq = true;
        }
        2 => {
            let lo = grid_of(1, 1, 8, rng.range(1, 4) as usize);
            let hi = grid_of(100_000_000_000_000 - 2, 1, 2, rng.range(1, 5) as usize);
            let mid = grid_of(12_345_678, 1, 4, 2);
            let all: Vec<String> = lo.iter().chain(mid.iter()).chain(hi.iter()).cloned().collect();
            match rng.below(3) {
                0 => {
                    cfg.bid_prices = lo;
                    cfg.ask_prices = hi;
                }
                1 => {
                    cfg.bid_prices = all.clone();
                    cfg.ask_prices = all;
                }
                _ => {
                    cfg.bid_prices = hi.clone();
                    cfg.ask_prices = hi;
                }
            }
            cfg.amounts = 2;
        }
        3 => {
            let g = small(rng);
            let cut = rng.range(1, g.len() as i64 - 1).max(1) as usize;
            match rng.below(4) {
                0 => {
                    // uncrossed
                    cfg.bid_prices = g[..cut].to_vec();
                    cfg.ask_prices = g[cut.min(g.len() - 1)..].to_vec();
                }
                1 => {
                    // may lock at g[cut]
                    cfg.bid_prices = g[..=cut.min(g.len() - 1)].to_vec();
                    cfg.ask_prices = g[cut.min(g.len() - 1)..].to_vec();
                }
                2 => {
                    cfg.bid_prices = g.clone();
                    cfg.ask_prices = g;
                    cfg.empty_side = 1;
                }
                _ => {
                    cfg.bid_prices = g.clone();
                    cfg.ask_prices = g;
                    cfg.empty_side = 2;
                }
            }
        }
        _ => {
            let count = rng.range(140, 260) as usize;
            let (b, st, sc) = *rng.pick(&[(100i64, 1i64, 0u32), (99990, 5, 2), (-120, 1, 0), (25000, 125, 3)]);
            let g = grid_of(b, st, sc, count);
            cfg.bid_prices = g.clone();
            cfg.ask_prices = g;
            cfg.max_levels = *rng.pick(&[12usize, 80, 300]);
            cfg.events = rng.range(2, 7);
            cfg.snapshot_keep_pct = *rng.pick(&[70u64, 90, 100]);
        }
    }
    let n = if rng.chance(80) { 1 } else { 2 };
    out.line(format!("init {n}"));
    let mut seq: u64 = if rng.chance(20) { 0 } else { rng.range(0, 1000) as u64 };
    let snap_first_pct = if class == 4 { 100 } else { *rng.pick(&[0u64, 80, 100]) };
    let mut size_hint = 0usize; // length of the last snapshot's bid side: depths are drawn around it
    for i in 0..cfg.events {
        let k = if rng.chance(4) { n } else { rng.below(n as u64) as usize };
        seq = if cfg.edge_seq && rng.chance(60) {
            *rng.pick(&SEQ_EDGES)
        } else {
            match rng.below(10) {
                0 => seq,
                1 => seq.saturating_sub(rng.below(5)),
                _ => seq.saturating_add(1 + rng.below(3)),
            }
        };
        let snap = if i == 0 { rng.chance(snap_first_pct) } else { rng.chance(8) };
        let (mut b, mut a);
        let op;
        if snap {
            b = dom_levels(rng, &cfg, &cfg.bid_prices, false);
            a = dom_levels(rng, &cfg, &cfg.ask_prices, false);
            size_hint = if cfg.empty_side == 1 { a.len() } else { b.len() };
            op = "snap";
        } else {
            b = dom_levels(rng, &cfg, &cfg.bid_prices, true);
            a = dom_levels(rng, &cfg, &cfg.ask_prices, true);
            match rng.below(6) {
                0 => a.clear(),
                1 => b.clear(),
                _ => {}
            }
            op = if rng.chance(40) { "updr" } else { "upd" };
        }
        match cfg.empty_side {
            1 => b.clear(),
            2 => a.clear(),
            _ => {}
        }
        out.line(format!("{op} {k} {seq} | {} | {}", b.join(" "), a.join(" ")));
        if rng.chance(if class == 4 { 70 } else { 25 }) {
            let d = match rng.below(8) {
                0 => "0".to_string(),
                1 => "1".to_string(),
                2 => size_hint.saturating_sub(1).to_string(),
                3 => size_hint.to_string(),
                4 => (size_hint + 1).to_string(),
                5 => rng.range(2, 9).to_string(),
                6 => "100".to_string(),
                _ => "18446744073709551615".to_string(),
            };
            out.line(format!("depth {k} {d}"));
        }
    }
    out.line("mgr");
}

fn generate(seed: u64, n_cases: usize, tier: &str) {
    let mut out = Out::new();
    let mut rng = Rng::new(seed);
    let mut id = 0usize;
    let thorough = tier == "thorough";
    if thorough {
        // small-scope exhaustive: from a book holding prices {2,4} (amount 1) every sequence of at
        // most 2 updates whose level list has at most 2 entries over prices {1,2,3,5} x amounts {0,7}
        // (front / present / middle / back x delete / set), for bids and for asks separately
        let syms: Vec<String> = ["1", "2", "3", "5"]
            .iter()
            .flat_map(|p| ["0", "7"].iter().map(move |a| format!("{p}:{a}")))
            .collect();
        let mut lists: Vec<Vec<String>> = vec![vec![]];
        for a in &syms {
            lists.push(vec![a.clone()]);
        }
        for a in &syms {
            for b in &syms {
                lists.push(vec![a.clone(), b.clone()]);
            }
        }
        for side in 0..4 {
            let fmt = |ls: &Vec<String>, seq: usize| {
                let op = if side < 2 { "upd" } else { "updr" };
                if side % 2 == 0 {
                    format!("{op} 0 {seq} | {} | ", ls.join(" "))
                } else {
                    format!("{op} 0 {seq} | | {}", ls.join(" "))
                }
            };
            let mut seqs: Vec<Vec<&Vec<String>>> = vec![vec![]];
            for a in &lists {
                seqs.push(vec![a]);
            }
            for a in &lists {
                for b in &lists {
                    seqs.push(vec![a, b]);
                }
            }
            for s in seqs {
                id += 1;
                out.case(format!("x{id}"));
                out.line("init 1");
                out.line("snap 0 1 | 4:1 2:1 | 2:1 4:1");
                for (i, ls) in s.iter().enumerate() {
                    out.line(fmt(ls, i + 2));
                }
                out.line("mgr");
            }
        }
    }
    for _ in 0..n_cases {
        id += 1;
        out.case(format!("r{id}"));
        let n = if rng.chance(70) { 1 } else { 2 };
        out.line(format!("init {n}"));
        let grid = Grid::new(&mut rng, if thorough { 12 } else { 8 });
        // level lists longer than 20 matter: above that size an UNSTABLE sort may reorder equal prices (fixed in
        // /repo 911b9f8: stable sort), so a fifth of the cases use long lists (duplicates of a price included)
        let max_levels = if rng.chance(20) { 60 } else if thorough { 16 } else { 12 };
        let zero_pct = *rng.pick(&[10u64, 30, 30, 60]);
        let len = rng.range(1, 40);
        let mut seq: u64 = rng.range(0, 1000) as u64;
        let snap_first_pct = *rng.pick(&[0u64, 80, 100]);
        for i in 0..len {
            if rng.chance(4) {
                out.line("re");
                continue;
            }
            // key: mostly configured, sometimes the non-configured key `n`
            let k = if rng.chance(6) { n } else { rng.below(n as u64) as usize };
            // sequences mostly increase, sometimes repeat or jump back (the book just copies them)
            seq = match rng.below(10) {
                0 => seq,
                1 => seq.saturating_sub(rng.below(5)),
                _ => seq + 1 + rng.below(3),
            };
            let snap = if i == 0 { rng.chance(snap_first_pct) } else { rng.chance(8) };
            if snap {
                out.line(format!(
                    "snap {k} {seq} | {} | {}",
                    snapshot_levels(&mut rng, &grid).join(" "),
                    snapshot_levels(&mut rng, &grid).join(" ")
                ));
            } else {
                // one-sided updates are common on real venues
                let (b, a) = match rng.below(4) {
                    0 => (update_levels(&mut rng, &grid, max_levels, zero_pct), vec![]),
                    1 => (vec![], update_levels(&mut rng, &grid, max_levels, zero_pct)),
                    _ => (
                        update_levels(&mut rng, &grid, max_levels, zero_pct),
                        update_levels(&mut rng, &grid, max_levels, zero_pct),
                    ),
                };
                // `updr`: the levels reach `OrderBook::update` in the order written (not re-sorted)
                let op = if rng.chance(40) { "updr" } else { "upd" };
                out.line(format!("{op} {k} {seq} | {} | {}", b.join(" "), a.join(" ")));
            }
        }
        out.line("mgr");
    }
    // input-domain family: one case per five random ones, from its own random stream
    let mut drng = Rng::new(seed ^ 0xD0_5D05);
    for j in 0..n_cases / 5 {
        id += 1;
        out.case(format!("d{id}"));
        domain_case(&mut out, &mut drng, j);
    }
    // configuration-shape family (`cfg<id>`): one case per ten random ones, from its own random stream. The `r` cases
    // configure 1 or 2 instruments; here `init n` has n in {0, 3, 5, 8, 12}: no instrument at all (every event is for a
    // non-configured key), and many instruments of which only 1-3 ever receive an event (the books of the others must
    // still be OrderBook::default() after the manager run); keys >= n are not configured.
    let mut crng = Rng::new(seed ^ 0xCF6_C05);
    for _ in 0..n_cases / 10 {
        id += 1;
        out.case(format!("cfg{id}"));
        let rng = &mut crng;
        let n = *rng.pick(&[0usize, 3, 5, 5, 8, 12]);
        out.line(format!("init {n}"));
        let grid = Grid::new(rng, 8);
        let zero_pct = *rng.pick(&[10u64, 30, 60]);
        // the active instruments: any position (first, middle, last) of 0..n, plus the non-configured n and n+7
        let mut keys: Vec<usize> = (0..rng.range(1, 3)).map(|_| rng.below(n.max(1) as u64) as usize).collect();
        if n > 0 && rng.chance(50) {
            keys.push(n - 1);
        }
        keys.push(n);
        if rng.chance(30) {
            keys.push(n + 7);
        }
        let mut seq: u64 = rng.range(0, 1000) as u64;
        for i in 0..rng.range(2, 25) {
            if rng.chance(4) {
                out.line("re");
                continue;
            }
            let k = *rng.pick(&keys);
            seq += rng.below(3);
            if i == 0 || rng.chance(12) {
                out.line(format!(
                    "snap {k} {seq} | {} | {}",
                    snapshot_levels(rng, &grid).join(" "),
                    snapshot_levels(rng, &grid).join(" ")
                ));
            } else {
                let b = update_levels(rng, &grid, 10, zero_pct);
                let a = if rng.chance(30) { vec![] } else { update_levels(rng, &grid, 10, zero_pct) };
                out.line(format!("upd {k} {seq} | {} | {}", b.join(" "), a.join(" ")));
            }
            if rng.chance(10) {
                out.line(format!("depth {} {}", rng.pick(&keys), rng.pick(&[0u64, 1, 2, 5])));
            }
        }
        out.line("mgr");
    }
    out.flush();
}

fn main() {
    let a = args();
    match a.cmd.as_str() {
        "gen" => generate(a.seed, a.n, &a.tier),
        "run" => run(),
        _ => {
            eprintln!("usage: c05 gen <seed> <n> <tier> | run < cases");
            std::process::exit(2)
        }
    }
}

#[allow(dead_code)]
fn _unused(_: Decimal) {}
