//! C05 — local L2 order book. Ops (see lean/BarterModel/Driver/C05.lean):
//!   `init n` | `snap k seq | p:a … | p:a …` | `upd k seq | p:a … | p:a …` | `re` | `mgr`
//! Every `snap`/`upd` is built with the real `OrderBook::new` and applied with the real
//! `OrderBook::update`; observations come from `bids().levels()`, `asks().levels()`, `sequence`,
//! `mid_price()`, `volume_weighed_mid_price()`, `snapshot(depth)`. `mgr` replays the whole stream of
//! the case through the real `OrderBookL2Manager::run` over an `OrderBookMapMulti` of default books.
use barter_data::{
    books::{
        Level, OrderBook,
        manager::OrderBookL2Manager,
        map::{OrderBookMap, OrderBookMapMulti},
    },
    event::MarketEvent,
    streams::consumer::MarketStreamEvent,
    subscription::book::OrderBookEvent,
};
use barter_instrument::exchange::ExchangeId;
use chrono::{DateTime, Utc};
use fnv::FnvHashMap;
use rust_decimal::Decimal;
use std::sync::Arc;
use vh::*;

fn fmt_levels(ls: &[Level]) -> String {
    ls.iter()
        .map(|l| format!("{}:{}", fmt_dec(l.price), fmt_dec(l.amount)))
        .collect::<Vec<_>>()
        .join(" ")
}

fn fmt_sides(b: &OrderBook) -> String {
    format!("{} | {}", fmt_levels(b.bids().levels()), fmt_levels(b.asks().levels()))
}

fn fmt_book(b: &OrderBook) -> String {
    format!("{} {}", b.sequence, fmt_sides(b))
}

fn parse_levels(toks: &[String]) -> Vec<Level> {
    toks.iter()
        .map(|t| {
            let (p, a) = t.split_once(':').unwrap_or_else(|| panic!("bad level {t:?}"));
            Level::new(parse_dec(p), parse_dec(a))
        })
        .collect()
}

/// `k seq | bids | asks`
fn parse_body(toks: &[String]) -> (usize, OrderBook) {
    let k: usize = toks[0].parse().expect("key");
    let seq: u64 = toks[1].parse().expect("sequence");
    assert_eq!(toks[2], "|", "bad op");
    let rest = &toks[3..];
    let bar = rest.iter().position(|t| t == "|").expect("second |");
    let bids = parse_levels(&rest[..bar]);
    let asks = parse_levels(&rest[bar + 1..]);
    (k, OrderBook::new(seq, None, bids, asks))
}

/// `k seq | bids | asks` for `updr`: the update's sides hold the levels in the order given. `OrderBook::new`
/// sorts, so the book is obtained the way a user gets an unsorted one: through the type's own
/// `Deserialize` (the serialised form of a book built by `new`, with the level arrays replaced).
fn parse_body_raw(toks: &[String]) -> (usize, OrderBook) {
    let (k, sorted) = parse_body(toks);
    let rest = &toks[3..];
    let bar = rest.iter().position(|t| t == "|").expect("second |");
    let raw = |ls: Vec<Level>| serde_json::to_value(ls).expect("levels serialise");
    let mut v = serde_json::to_value(&sorted).expect("book serialises");
    // `side` is skipped when serialising; the unit structs `Bids` / `Asks` deserialise from null
    v["bids"]["side"] = serde_json::Value::Null;
    v["asks"]["side"] = serde_json::Value::Null;
    v["bids"]["levels"] = raw(parse_levels(&rest[..bar]));
    v["asks"]["levels"] = raw(parse_levels(&rest[bar + 1..]));
    (k, serde_json::from_value(v).expect("book deserialises"))
}

const DEPTHS: [usize; 3] = [0, 1, 3];

fn observe(book: &OrderBook, lines: &mut Vec<String>) {
    lines.push(format!("seq {}", book.sequence));
    lines.push(format!("bids {}", fmt_levels(book.bids().levels())));
    lines.push(format!("asks {}", fmt_levels(book.asks().levels())));
    lines.push(format!("mid {}", fmt_opt_dec_approx(book.mid_price())));
    lines.push(format!("vwmid {}", fmt_opt_dec_approx(book.volume_weighed_mid_price())));
    for d in DEPTHS {
        lines.push(format!("snap{d} {}", fmt_book(&book.snapshot(d))));
    }
}

type StreamEv = MarketStreamEvent<usize, OrderBookEvent>;

fn item(k: usize, kind: OrderBookEvent) -> StreamEv {
    let t: DateTime<Utc> = DateTime::<Utc>::MIN_UTC;
    MarketStreamEvent::Item(MarketEvent {
        time_exchange: t,
        time_received: t,
        exchange: ExchangeId::Mock,
        instrument: k,
        kind,
    })
}

fn run() {
    let rt = tokio::runtime::Builder::new_current_thread().build().unwrap();
    run_cases(|case, lines| {
        let mut n = 0usize;
        let mut books: Vec<OrderBook> = vec![];
        let mut stream: Vec<StreamEv> = vec![];
        for op in case.ops.iter() {
            lines.push("@".into());
            match op[0].as_str() {
                "init" => {
                    n = op[1].parse().expect("n");
                    books = (0..n).map(|_| OrderBook::default()).collect();
                    stream.clear();
                }
                "re" => {
                    stream.push(MarketStreamEvent::Reconnecting(ExchangeId::Mock));
                    lines.push("skip".into());
                }
                "snap" | "upd" | "updr" => {
                    let (k, book) = if op[0] == "updr" { parse_body_raw(&op[1..]) } else { parse_body(&op[1..]) };
                    let stored = fmt_sides(&book);
                    let event = if op[0] == "snap" {
                        OrderBookEvent::Snapshot(book)
                    } else {
                        OrderBookEvent::Update(book)
                    };
                    stream.push(item(k, event.clone()));
                    if k >= n {
                        lines.push("skip".into());
                        continue;
                    }
                    lines.push(format!("ev {stored}"));
                    books[k].update(event);
                    observe(&books[k], lines);
                }
                "mgr" => {
                    let mut map = FnvHashMap::default();
                    for k in 0..n {
                        // Arc<parking_lot::RwLock<OrderBook>> holding OrderBook::default()
                        map.insert(k, Arc::default());
                    }
                    let map = OrderBookMapMulti::new(map);
                    let manager = OrderBookL2Manager {
                        stream: futures::stream::iter(stream.clone()),
                        books: map.clone(),
                    };
                    rt.block_on(manager.run());
                    for k in 0..n {
                        let book = map.find(&k).expect("configured");
                        let book = book.read();
                        lines.push(format!("book {k} {}", fmt_book(&book)));
                    }
                }
                other => panic!("bad op {other}"),
            }
        }
    });
}

// ------------------------------------------------------------------------------------ generators

struct Grid {
    prices: Vec<String>,
}

impl Grid {
    fn new(rng: &mut Rng, max_prices: usize) -> Grid {
        let count = rng.range(2, max_prices as i64) as usize;
        let (base, step, scale) = *rng.pick(&[(100i64, 1i64, 0u32), (1000, 5, 1), (99990, 5, 2), (1, 1, 4), (25000, 125, 3)]);
        Grid {
            prices: (0..count as i64).map(|i| dec_str(base + i * step, scale)).collect(),
        }
    }
}

fn amount(rng: &mut Rng, zero_pct: u64) -> String {
    if rng.chance(zero_pct) {
        return (*rng.pick(&["0", "0.0", "0.000"])).to_string();
    }
    match rng.below(4) {
        0 => "1".into(),
        1 => "0.5".into(),
        2 => dec_str(rng.range(1, 9999), 3),
        _ => dec_str(rng.range(1, 50), 0),
    }
}

/// arbitrary unsorted levels, duplicates allowed
fn update_levels(rng: &mut Rng, grid: &Grid, max_levels: usize, zero_pct: u64) -> Vec<String> {
    let len = if rng.chance(15) { 0 } else { rng.range(1, max_levels as i64) as usize };
    (0..len)
        .map(|_| format!("{}:{}", rng.pick(&grid.prices), amount(rng, zero_pct)))
        .collect()
}

/// well-formed snapshot side: distinct prices, non-zero amounts, any order
fn snapshot_levels(rng: &mut Rng, grid: &Grid) -> Vec<String> {
    let mut ps: Vec<&String> = grid.prices.iter().filter(|_| rng.chance(55)).collect();
    // shuffle
    for i in (1..ps.len()).rev() {
        let j = rng.below(i as u64 + 1) as usize;
        ps.swap(i, j);
    }
    ps.into_iter().map(|p| format!("{p}:{}", amount(rng, 0))).collect()
}

fn generate(seed: u64, n_cases: usize, tier: &str) {
    let mut out = Out::new();
    let mut rng = Rng::new(seed);
    let mut id = 0usize;
    let thorough = tier == "thorough";
    if thorough {
        // small-scope exhaustive: from a book holding prices {2,4} (amount 1) every sequence of at
        // most 2 updates whose level list has at most 2 entries over prices {1,2,3,5} x amounts {0,7}
        // (front / present / middle / back x delete / set), for bids and for asks separately
        let syms: Vec<String> = ["1", "2", "3", "5"]
            .iter()
            .flat_map(|p| ["0", "7"].iter().map(move |a| format!("{p}:{a}")))
            .collect();
        let mut lists: Vec<Vec<String>> = vec![vec![]];
        for a in &syms {
            lists.push(vec![a.clone()]);
        }
        for a in &syms {
            for b in &syms {
                lists.push(vec![a.clone(), b.clone()]);
            }
        }
        for side in 0..4 {
            let fmt = |ls: &Vec<String>, seq: usize| {
                let op = if side < 2 { "upd" } else { "updr" };
                if side % 2 == 0 {
                    format!("{op} 0 {seq} | {} | ", ls.join(" "))
                } else {
                    format!("{op} 0 {seq} | | {}", ls.join(" "))
                }
            };
            let mut seqs: Vec<Vec<&Vec<String>>> = vec![vec![]];
            for a in &lists {
                seqs.push(vec![a]);
            }
            for a in &lists {
                for b in &lists {
                    seqs.push(vec![a, b]);
                }
            }
            for s in seqs {
                id += 1;
                out.case(format!("x{id}"));
                out.line("init 1");
                out.line("snap 0 1 | 4:1 2:1 | 2:1 4:1");
                for (i, ls) in s.iter().enumerate() {
                    out.line(fmt(ls, i + 2));
                }
                out.line("mgr");
            }
        }
    }
    for _ in 0..n_cases {
        id += 1;
        out.case(format!("r{id}"));
        let n = if rng.chance(70) { 1 } else { 2 };
        out.line(format!("init {n}"));
        let grid = Grid::new(&mut rng, if thorough { 12 } else { 8 });
        // level lists longer than 20 matter: above that size an UNSTABLE sort may reorder equal prices (fixed in
        // /repo 911b9f8: stable sort), so a fifth of the cases use long lists (duplicates of a price included)
        let max_levels = if rng.chance(20) { 60 } else if thorough { 16 } else { 12 };
        let zero_pct = *rng.pick(&[10u64, 30, 30, 60]);
        let len = rng.range(1, 40);
        let mut seq: u64 = rng.range(0, 1000) as u64;
        let snap_first_pct = *rng.pick(&[0u64, 80, 100]);
        for i in 0..len {
            if rng.chance(4) {
                out.line("re");
                continue;
            }
            // key: mostly configured, sometimes the non-configured key `n`
            let k = if rng.chance(6) { n } else { rng.below(n as u64) as usize };
            // sequences mostly increase, sometimes repeat or jump back (the book just copies them)
            seq = match rng.below(10) {
                0 => seq,
                1 => seq.saturating_sub(rng.below(5)),
                _ => seq + 1 + rng.below(3),
            };
            let snap = if i == 0 { rng.chance(snap_first_pct) } else { rng.chance(8) };
            if snap {
                out.line(format!(
                    "snap {k} {seq} | {} | {}",
                    snapshot_levels(&mut rng, &grid).join(" "),
                    snapshot_levels(&mut rng, &grid).join(" ")
                ));
            } else {
                // one-sided updates are common on real venues
                let (b, a) = match rng.below(4) {
                    0 => (update_levels(&mut rng, &grid, max_levels, zero_pct), vec![]),
                    1 => (vec![], update_levels(&mut rng, &grid, max_levels, zero_pct)),
                    _ => (
                        update_levels(&mut rng, &grid, max_levels, zero_pct),
                        update_levels(&mut rng, &grid, max_levels, zero_pct),
                    ),
                };
                // `updr`: the levels reach `OrderBook::update` in the order written (not re-sorted)
                let op = if rng.chance(40) { "updr" } else { "upd" };
                out.line(format!("{op} {k} {seq} | {} | {}", b.join(" "), a.join(" ")));
            }
        }
        out.line("mgr");
    }
    out.flush();
}

fn main() {
    let a = args();
    match a.cmd.as_str() {
        "gen" => generate(a.seed, a.n, &a.tier),
        "run" => run(),
        _ => {
            eprintln!("usage: c05 gen <seed> <n> <tier> | run < cases");
            std::process::exit(2)
        }
    }
}

#[allow(dead_code)]
fn _unused(_: Decimal) {}
