//! C04M — the mock exchange instrument table that `ExecutionBuilder` derives from the indexed
//! instruments (sub-check of C04).
//!
//! A case is a list of instrument definitions (`def ...`, token format of C11, see
//! `lean/BarterModel/Driver/C04M.lean`), indexed by the real `IndexedInstruments::new` (`index`),
//! optionally tampered with through the derived `Deserialize` (`akey`, `ibase`, `iquote`, `iunit`,
//! `iex`), a list of queued `add_mock` / `add_live` calls (`mock`, `live`), then `build`: the real
//! `ExecutionBuilder::new(..)`, the adds in order, `build()` and `init()` on a current-thread tokio
//! runtime with a paused clock. The system stays alive for the rest of the case; every `order` op
//! sends one open request through `execution_txs.find(&ExchangeIndex(x))` exactly as
//! `Engine::send_request` does, lets the runtime run to quiescence and prints everything that
//! arrived on the merged account channel: the order snapshot (engine key + outcome), the balance
//! snapshot (asset *index*, total, free) and the trade (instrument *index*, side, price, quantity,
//! fees). `generate_mock_exchange_instruments` is private; it is observed through exactly this
//! behaviour (which names the mock exchange knows, which asset's balance an order moves) and
//! through its panics.
//!
//! Naturals in op lines are mapped order-preservingly: exchange label -> `EXS[label]` (ascending
//! `ExchangeId`s), name `n` -> fixed-width string, spec decimals / expiries -> integers.
use barter::{
    engine::{
        Engine,
        action::send_requests::SendRequests,
        clock::{EngineClock, LiveClock},
        error::{EngineError, UnrecoverableEngineError},
        execution_tx::MultiExchangeTxMap,
    },
    error::BarterError,
    execution::{
        AccountStreamEvent, Execution, builder::ExecutionBuilder,
    },
};
use barter_execution::{
    AccountEvent, AccountEventKind, AccountSnapshot, UnindexedAccountEvent,
    UnindexedAccountSnapshot,
    balance::{AssetBalance, Balance},
    client::{ExecutionClient, mock::MockExecutionConfig},
    error::{ApiError, ConnectivityError, OrderError, UnindexedClientError, UnindexedOrderError},
    order::{
        Order, OrderEvent, OrderKey, OrderKind, TimeInForce,
        id::{ClientOrderId, StrategyId},
        request::{OrderRequestCancel, OrderRequestOpen, RequestOpen, UnindexedOrderResponseCancel},
        state::{ActiveOrderState, InactiveOrderState, Open, OrderState},
    },
    trade::Trade,
};
use barter_instrument::{
    Side, Underlying,
    asset::{
        Asset, QuoteAsset,
        name::{AssetNameExchange, AssetNameInternal},
    },
    exchange::{ExchangeId, ExchangeIndex},
    index::IndexedInstruments,
    instrument::{
        Instrument, InstrumentIndex,
        kind::{
            InstrumentKind,
            future::FutureContract,
            option::{OptionContract, OptionExercise, OptionKind},
            perpetual::PerpetualContract,
        },
        name::{InstrumentNameExchange, InstrumentNameInternal},
        quote::InstrumentQuoteAsset,
        spec::{
            InstrumentSpec, InstrumentSpecNotional, InstrumentSpecPrice, InstrumentSpecQuantity,
            OrderQuantityUnits,
        },
    },
};
use chrono::{DateTime, TimeZone, Utc};
use rust_decimal::Decimal;
use std::{
    future::Future,
    panic::{AssertUnwindSafe, catch_unwind},
    sync::{Arc, Mutex},
};
use vh::*;

/// label -> ExchangeId, ascending in the derived `Ord` of `ExchangeId` (checked in `main`).
const EXS: [ExchangeId; 5] = [
    ExchangeId::BinanceSpot,
    ExchangeId::Bitfinex,
    ExchangeId::Coinbase,
    ExchangeId::Kraken,
    ExchangeId::Okx,
];

fn label(e: ExchangeId) -> usize {
    EXS.iter().position(|x| *x == e).unwrap_or(99)
}

// ---------------------------------------------------------------------------- definitions

#[derive(Clone, Debug, PartialEq, Eq)]
struct A(usize, usize);

#[derive(Clone, Debug, PartialEq, Eq)]
enum K {
    S,
    P(usize, A),
    F(usize, A, usize),
    O(usize, A, usize, usize, usize, usize),
}

#[derive(Clone, Debug, PartialEq, Eq)]
enum U {
    A(A),
    C,
    Q,
}

#[derive(Clone, Debug, PartialEq, Eq)]
struct D {
    e: usize,
    ni: usize,
    ne: usize,
    base: A,
    quote: A,
    qa: usize,
    kind: K,
    spec: Option<(usize, usize, U, usize, usize, usize)>,
}

struct Toks<'a>(std::slice::Iter<'a, String>);
impl<'a> Toks<'a> {
    fn s(&mut self) -> &'a str {
        self.0.next().expect("token").as_str()
    }
    fn n(&mut self) -> usize {
        self.s().parse().expect("nat")
    }
    fn a(&mut self) -> A {
        A(self.n(), self.n())
    }
    fn done(&mut self) {
        assert!(self.0.next().is_none(), "trailing tokens");
    }
}

fn parse_def(toks: &[String]) -> D {
    let mut t = Toks(toks.iter());
    let (e, ni, ne) = (t.n(), t.n(), t.n());
    let base = t.a();
    let quote = t.a();
    let qa = t.n();
    let kind = match t.s() {
        "s" => K::S,
        "p" => K::P(t.n(), t.a()),
        "f" => K::F(t.n(), t.a(), t.n()),
        "o" => K::O(t.n(), t.a(), t.n(), t.n(), t.n(), t.n()),
        other => panic!("bad kind {other}"),
    };
    let spec = match t.s() {
        "n" => None,
        "y" => {
            let (pm, tk) = (t.n(), t.n());
            let u = match t.s() {
                "a" => U::A(t.a()),
                "c" => U::C,
                "q" => U::Q,
                other => panic!("bad unit {other}"),
            };
            Some((pm, tk, u, t.n(), t.n(), t.n()))
        }
        other => panic!("bad spec {other}"),
    };
    t.done();
    D {
        e,
        ni,
        ne,
        base,
        quote,
        qa,
        kind,
        spec,
    }
}

fn def_toks(d: &D) -> String {
    let a = |a: &A| format!("{} {}", a.0, a.1);
    let kind = match &d.kind {
        K::S => "s".to_string(),
        K::P(s, x) => format!("p {s} {}", a(x)),
        K::F(s, x, e) => format!("f {s} {} {e}", a(x)),
        K::O(s, x, p, ex, e, k) => format!("o {s} {} {p} {ex} {e} {k}", a(x)),
    };
    let spec = match &d.spec {
        None => "n".to_string(),
        Some((pm, tk, u, qm, qi, nm)) => {
            let u = match u {
                U::A(x) => format!("a {}", a(x)),
                U::C => "c".into(),
                U::Q => "q".into(),
            };
            format!("y {pm} {tk} {u} {qm} {qi} {nm}")
        }
    };
    format!(
        "{} {} {} {} {} {} {kind} {spec}",
        d.e,
        d.ni,
        d.ne,
        a(&d.base),
        a(&d.quote),
        d.qa
    )
}

// names: fixed width so that string order = numeric order
fn asset_ni(n: usize) -> AssetNameInternal {
    AssetNameInternal::new(format!("a{n:03}"))
}
fn asset_ne(n: usize) -> AssetNameExchange {
    AssetNameExchange::new(format!("X{n:03}"))
}
fn ins_ni(n: usize) -> InstrumentNameInternal {
    InstrumentNameInternal::new(format!("i{n:03}"))
}
fn ins_ne(n: usize) -> InstrumentNameExchange {
    InstrumentNameExchange::new(format!("N{n:03}"))
}
fn un(s: &str) -> usize {
    s[1..].parse().expect("name")
}
fn dec(n: usize) -> Decimal {
    Decimal::from(n as u64)
}
fn time(n: usize) -> DateTime<Utc> {
    Utc.timestamp_millis_opt(1_600_000_000_000 + n as i64).unwrap()
}
fn asset(a: &A) -> Asset {
    Asset {
        name_internal: asset_ni(a.0),
        name_exchange: asset_ne(a.1),
    }
}

fn to_instrument(d: &D) -> Instrument<ExchangeId, Asset> {
    let kind = match &d.kind {
        K::S => InstrumentKind::Spot,
        K::P(s, a) => InstrumentKind::Perpetual(PerpetualContract {
            contract_size: dec(*s),
            settlement_asset: asset(a),
        }),
        K::F(s, a, e) => InstrumentKind::Future(FutureContract {
            contract_size: dec(*s),
            settlement_asset: asset(a),
            expiry: time(*e),
        }),
        K::O(s, a, p, x, e, k) => InstrumentKind::Option(OptionContract {
            contract_size: dec(*s),
            settlement_asset: asset(a),
            kind: [OptionKind::Call, OptionKind::Put][*p],
            exercise: [
                OptionExercise::American,
                OptionExercise::Bermudan,
                OptionExercise::European,
            ][*x],
            expiry: time(*e),
            strike: dec(*k),
        }),
    };
    let spec = d.spec.as_ref().map(|(pm, tk, u, qm, qi, nm)| InstrumentSpec {
        price: InstrumentSpecPrice {
            min: dec(*pm),
            tick_size: dec(*tk),
        },
        quantity: InstrumentSpecQuantity {
            unit: match u {
                U::A(a) => OrderQuantityUnits::Asset(asset(a)),
                U::C => OrderQuantityUnits::Contract,
                U::Q => OrderQuantityUnits::Quote,
            },
            min: dec(*qm),
            increment: dec(*qi),
        },
        notional: InstrumentSpecNotional { min: dec(*nm) },
    });
    Instrument {
        exchange: EXS[d.e],
        name_internal: ins_ni(d.ni),
        name_exchange: ins_ne(d.ne),
        underlying: Underlying::new(asset(&d.base), asset(&d.quote)),
        quote: [
            InstrumentQuoteAsset::UnderlyingBase,
            InstrumentQuoteAsset::UnderlyingQuote,
        ][d.qa],
        kind,
        spec,
    }
}

fn index(defs: &[D]) -> IndexedInstruments {
    IndexedInstruments::new(defs.iter().map(to_instrument))
}

// ---------------------------------------------------------------------------- adds

#[derive(Clone, Debug)]
struct MockCfg {
    e: usize,
    latency: u64,
    fee: String,
    balances: Vec<(usize, String)>,
}

#[derive(Clone, Debug)]
enum Add {
    Mock(MockCfg),
    Live(usize),
}

fn parse_mock(toks: &[String]) -> MockCfg {
    let mut t = Toks(toks.iter());
    let e = t.n();
    let latency = t.n() as u64;
    let fee = t.s().to_string();
    let n = t.n();
    let balances: Vec<(usize, String)> = (0..n).map(|_| (t.n(), t.s().to_string())).collect();
    t.done();
    let mut names: Vec<usize> = balances.iter().map(|b| b.0).collect();
    names.sort();
    names.dedup();
    assert!(names.len() == balances.len(), "bad op: duplicate balance name");
    MockCfg {
        e,
        latency,
        fee,
        balances,
    }
}

fn mock_toks(c: &MockCfg) -> String {
    let mut s = format!("mock {} {} {} {}", c.e, c.latency, c.fee, c.balances.len());
    for (n, a) in &c.balances {
        s.push_str(&format!(" {n} {a}"));
    }
    s
}

#[derive(Clone, Debug)]
struct FixedClock;
impl EngineClock for FixedClock {
    fn time(&self) -> DateTime<Utc> {
        time(0)
    }
}

fn mock_config(c: &MockCfg) -> MockExecutionConfig {
    MockExecutionConfig {
        mocked_exchange: EXS[c.e],
        initial_state: UnindexedAccountSnapshot {
            exchange: EXS[c.e],
            balances: c
                .balances
                .iter()
                .map(|(n, a)| {
                    let amount = parse_dec(a);
                    AssetBalance {
                        asset: asset_ne(*n),
                        balance: Balance {
                            total: amount,
                            free: amount,
                        },
                        time_exchange: time(0),
                    }
                })
                .collect(),
            instruments: vec![],
        },
        latency_ms: c.latency,
        fees_percent: parse_dec(&c.fee),
    }
}

/// The live client of exchange label `N`: records the instrument name of every open request it
/// is handed and rejects the order. Empty account snapshot, silent account stream.
#[derive(Debug, Clone)]
struct LStub<const N: usize> {
    log: Arc<Mutex<Vec<String>>>,
}

impl<const N: usize> ExecutionClient for LStub<N> {
    const EXCHANGE: ExchangeId = EXS[N];
    type Config = Arc<Mutex<Vec<String>>>;
    type AccountStream = futures::stream::Pending<UnindexedAccountEvent>;

    fn new(config: Self::Config) -> Self {
        LStub { log: config }
    }

    async fn account_snapshot(
        &self,
        _: &[AssetNameExchange],
        _: &[InstrumentNameExchange],
    ) -> Result<UnindexedAccountSnapshot, UnindexedClientError> {
        Ok(AccountSnapshot {
            exchange: Self::EXCHANGE,
            balances: vec![],
            instruments: vec![],
        })
    }

    async fn account_stream(
        &self,
        _: &[AssetNameExchange],
        _: &[InstrumentNameExchange],
    ) -> Result<Self::AccountStream, UnindexedClientError> {
        Ok(futures::stream::pending())
    }

    fn cancel_order(
        &self,
        _: OrderRequestCancel<ExchangeId, &InstrumentNameExchange>,
    ) -> impl Future<Output = UnindexedOrderResponseCancel> + Send {
        async { unimplemented!() }
    }

    fn open_order(
        &self,
        request: OrderRequestOpen<ExchangeId, &InstrumentNameExchange>,
    ) -> impl Future<
        Output = Order<ExchangeId, InstrumentNameExchange, Result<Open, UnindexedOrderError>>,
    > + Send {
        self.log.lock().unwrap().push(format!(
            "{} {}",
            label(request.key.exchange),
            un(request.key.instrument.name())
        ));
        let OrderEvent { key, state } = request;
        std::future::ready(Order {
            key: OrderKey {
                exchange: key.exchange,
                instrument: key.instrument.clone(),
                strategy: key.strategy,
                cid: key.cid,
            },
            side: state.side,
            price: state.price,
            quantity: state.quantity,
            kind: state.kind,
            time_in_force: state.time_in_force,
            state: Err(UnindexedOrderError::Rejected(ApiError::OrderRejected(
                "stub".into(),
            ))),
        })
    }

    async fn fetch_balances(
        &self,
    ) -> Result<Vec<AssetBalance<AssetNameExchange>>, UnindexedClientError> {
        unimplemented!()
    }

    async fn fetch_open_orders(
        &self,
    ) -> Result<Vec<Order<ExchangeId, InstrumentNameExchange, Open>>, UnindexedClientError> {
        unimplemented!()
    }

    async fn fetch_trades(
        &self,
        _: DateTime<Utc>,
    ) -> Result<Vec<Trade<QuoteAsset, InstrumentNameExchange>>, UnindexedClientError> {
        unimplemented!()
    }
}

// ---------------------------------------------------------------------------- the running system

struct Live {
    rt: tokio::runtime::Runtime,
    exec: Execution,
    /// which adds were mock (by exchange label)
    kinds: Vec<(usize, bool)>,
    log: Arc<Mutex<Vec<String>>>,
    managers_done: Vec<bool>,
    labels_by_index: Vec<usize>,
    next_cid: usize,
    /// largest configured mock latency (ms): quiescence after an op is 3 virtual seconds beyond it
    max_latency: u64,
}

fn panic_text(p: &Box<dyn std::any::Any + Send>) -> String {
    if let Some(s) = p.downcast_ref::<&str>() {
        s.to_string()
    } else if let Some(s) = p.downcast_ref::<String>() {
        s.clone()
    } else {
        "unknown".into()
    }
}

fn drain(live: &mut Live) -> Vec<AccountEvent> {
    let mut out = vec![];
    while let Ok(ev) = live.exec.account_channel.rx.rx.try_recv() {
        match ev {
            AccountStreamEvent::Item(ev) => out.push(ev),
            // the account stream of a dead mock exchange ends and the reconnecting wrapper keeps
            // retrying with back-off (property C12); not part of this check
            AccountStreamEvent::Reconnecting(_) => {}
        }
    }
    out
}

fn op_build(ii: &IndexedInstruments, adds: &[Add], lines: &mut Vec<String>) -> Option<Live> {
    let log = Arc::new(Mutex::new(Vec::new()));
    let timeout = std::time::Duration::from_secs(1);
    let mut builder = ExecutionBuilder::new(ii);
    let mut kinds = vec![];
    for (k, add) in adds.iter().enumerate() {
        let b = builder;
        let log = log.clone();
        let res = catch_unwind(AssertUnwindSafe(move || match add {
            Add::Mock(c) => b.add_mock(mock_config(c), FixedClock),
            Add::Live(e) => match e {
                0 => b.add_live::<LStub<0>>(log, timeout),
                1 => b.add_live::<LStub<1>>(log, timeout),
                2 => b.add_live::<LStub<2>>(log, timeout),
                3 => b.add_live::<LStub<3>>(log, timeout),
                4 => b.add_live::<LStub<4>>(log, timeout),
                _ => panic!("bad op: exchange label out of range"),
            },
        }));
        match res {
            Err(p) => {
                let text = panic_text(&p);
                let what = if text.contains("MockExchange does not support") {
                    "kind"
                } else if text.contains("unwrap") && text.contains("AssetIndex") {
                    "asset"
                } else {
                    panic!("unexpected panic in add: {text}")
                };
                lines.push(format!("r panic {what} at {k}"));
                return None;
            }
            Ok(Err(BarterError::IndexError(_))) => {
                lines.push(format!("r builderr index at {k}"));
                return None;
            }
            Ok(Err(BarterError::ExecutionBuilder(_))) => {
                lines.push(format!("r builderr duplicate at {k}"));
                return None;
            }
            Ok(Err(other)) => panic!("unexpected builder error {other:?}"),
            Ok(Ok(next)) => builder = next,
        }
        kinds.push(match add {
            Add::Mock(c) => (c.e, true),
            Add::Live(e) => (*e, false),
        });
    }
    let build = match catch_unwind(AssertUnwindSafe(|| builder.build())) {
        Ok(build) => build,
        Err(_) => {
            lines.push("r buildpanic".into());
            return None;
        }
    };
    let rt = tokio::runtime::Builder::new_current_thread()
        .enable_time()
        .start_paused(true)
        .build()
        .unwrap();
    let init = rt.block_on(async {
        tokio::time::timeout(std::time::Duration::from_secs(600), build.init()).await
    });
    let exec = match init {
        Err(_) => panic!("ExecutionBuild::init did not finish in 600 virtual seconds"),
        Ok(Err(_)) => {
            lines.push("r initerr".into());
            return None;
        }
        Ok(Ok(exec)) => exec,
    };
    let mut live = Live {
        rt,
        kinds,
        log,
        managers_done: vec![false; exec.handles.managers.len()],
        labels_by_index: ii.exchanges().iter().map(|k| label(k.value)).collect(),
        exec,
        next_cid: 0,
        max_latency: adds
            .iter()
            .map(|a| match a {
                Add::Mock(c) => c.latency,
                Add::Live(_) => 0,
            })
            .max()
            .unwrap_or(0),
    };
    let quiet = std::time::Duration::from_millis(3000 + live.max_latency);
    live.rt.block_on(async {
        tokio::time::sleep(quiet).await;
    });
    lines.push("r ok".into());
    let mut txmap = vec!["txmap".to_string()];
    txmap.extend(
        (&live.exec.execution_txs)
            .into_iter()
            .map(|(id, tx)| format!("{}:{}", label(*id), tx.is_some() as u8)),
    );
    lines.push(txmap.join(" "));
    lines.push(format!(
        "handles {} {} {}",
        live.exec.handles.mock_exchanges.len(),
        live.exec.handles.managers.len(),
        live.exec.handles.account_to_engines.len()
    ));
    let mut snaps: Vec<(usize, Vec<(usize, String)>)> = vec![];
    for ev in drain(&mut live) {
        match ev.kind {
            AccountEventKind::Snapshot(s) => {
                assert!(s.instruments.is_empty(), "snapshot lists orders");
                assert_eq!(s.exchange, ev.exchange, "snapshot exchange != event exchange");
                let mut bals: Vec<(usize, String)> = s
                    .balances
                    .iter()
                    .map(|b| {
                        assert_eq!(b.balance.total, b.balance.free);
                        (b.asset.0, fmt_dec(b.balance.total))
                    })
                    .collect();
                bals.sort();
                snaps.push((ev.exchange.0, bals));
            }
            other => panic!("unexpected event after init: {other:?}"),
        }
    }
    snaps.sort();
    for (x, bals) in snaps {
        let mut l = format!("snap{x}");
        for (a, amt) in bals {
            l.push_str(&format!(" {a}:{amt}"));
        }
        lines.push(l);
    }
    Some(live)
}

fn op_order(live: &mut Live, op: &[String], lines: &mut Vec<String>) {
    let mut t = Toks(op.iter());
    let (x, i) = (t.n(), t.n());
    let side = match t.s() {
        "B" => Side::Buy,
        "S" => Side::Sell,
        o => panic!("bad op: side {o}"),
    };
    let kind = match t.s() {
        "M" => OrderKind::Market,
        "L" => OrderKind::Limit,
        o => panic!("bad op: kind {o}"),
    };
    let (price, qty) = (parse_dec(t.s()), parse_dec(t.s()));
    t.done();
    live.next_cid += 1;
    // fields the op does not name run through their domains with the request counter; the order
    // snapshot that comes back must carry them unchanged
    let tif = [
        TimeInForce::ImmediateOrCancel,
        TimeInForce::GoodUntilCancelled { post_only: false },
        TimeInForce::GoodUntilCancelled { post_only: true },
        TimeInForce::GoodUntilEndOfDay,
        TimeInForce::FillOrKill,
    ][live.next_cid as usize % 5];
    let strategy = StrategyId::new(format!("s{}", live.next_cid % 3));
    let cid = ClientOrderId::new(format!("c{}", live.next_cid));
    let request = OrderEvent {
        key: OrderKey {
            exchange: ExchangeIndex(x),
            instrument: InstrumentIndex(i),
            strategy: strategy.clone(),
            cid: cid.clone(),
        },
        state: RequestOpen {
            side,
            price,
            quantity: qty,
            kind,
            time_in_force: tif,
        },
    };
    live.log.lock().unwrap().clear();
    // the REAL `Engine::send_request` (engine/action/send_requests.rs) of an engine that owns the
    // transmitter table the builder made; clock, state, strategy and risk manager play no part
    let txs = std::mem::replace(
        &mut live.exec.execution_txs,
        MultiExchangeTxMap::from_iter(std::iter::empty()),
    );
    let engine = Engine::new(LiveClock, (), txs, (), ());
    let sent = engine.send_request(&request);
    live.exec.execution_txs = engine.execution_txs;
    match sent {
        Ok(()) => {}
        Err(EngineError::Unrecoverable(UnrecoverableEngineError::IndexError(_))) => {
            lines.push("r err".into());
            return;
        }
        Err(EngineError::Unrecoverable(UnrecoverableEngineError::ExecutionChannelTerminated(_))) => {
            lines.push("r closed".into());
            return;
        }
        Err(other) => panic!("unexpected send_request error {other:?}"),
    }
    // quiescence: the manager's request timeout is 1 s (builder.rs:97), the mock exchange answers
    // and notifies `latency` ms after the request; 3 virtual seconds beyond the largest latency
    let quiet = std::time::Duration::from_millis(3000 + live.max_latency);
    live.rt.block_on(async {
        tokio::time::sleep(quiet).await;
    });
    let mut newly = false;
    for (j, h) in live.exec.handles.managers.iter().enumerate() {
        if h.is_finished() && !live.managers_done[j] {
            live.managers_done[j] = true;
            newly = true;
        }
    }
    let events = drain(live);
    if newly {
        assert!(events.is_empty(), "events from a panicked manager");
        lines.push("r mpanic".into());
        return;
    }
    let e = live.labels_by_index[x];
    let is_mock = live
        .kinds
        .iter()
        .find(|(l, _)| *l == e)
        .map(|(_, m)| *m)
        .expect("link without add");
    if is_mock {
        lines.push("r mock".into());
    } else {
        let log = live.log.lock().unwrap().clone();
        assert!(log.len() == 1, "stub calls: {log:?}");
        lines.push(format!("r live {}", log[0]));
    }
    let (mut orders, mut bals, mut trades) = (vec![], vec![], vec![]);
    for ev in events {
        match ev.kind {
            AccountEventKind::OrderSnapshot(o) => {
                let o = o.0;
                assert_eq!(o.key.exchange, ev.exchange, "order exchange != event exchange");
                assert!(o.side == side && o.price == price && o.quantity == qty && o.kind == kind);
                assert!(
                    o.time_in_force == tif && o.key.strategy == strategy && o.key.cid == cid,
                    "order snapshot lost its time in force / strategy / cid"
                );
                let outcome = match &o.state {
                    OrderState::Active(ActiveOrderState::Open(_)) => "active".to_string(),
                    OrderState::Inactive(InactiveOrderState::FullyFilled) => "filled".into(),
                    OrderState::Inactive(InactiveOrderState::OpenFailed(OrderError::Rejected(
                        ApiError::OrderRejected(_),
                    ))) => "rejected".into(),
                    OrderState::Inactive(InactiveOrderState::OpenFailed(OrderError::Rejected(
                        ApiError::BalanceInsufficient(a, _),
                    ))) => format!("insufficient {}", a.0),
                    OrderState::Inactive(InactiveOrderState::OpenFailed(
                        OrderError::Connectivity(ConnectivityError::ExchangeOffline(_)),
                    )) => "offline".into(),
                    // the manager's own answer when its `RequestFuture` expires (manager.rs
                    // `process_open_timeout`): the request's key, no response of the client
                    OrderState::Inactive(InactiveOrderState::OpenFailed(
                        OrderError::Connectivity(ConnectivityError::Timeout),
                    )) => "timeout".into(),
                    other => panic!("unexpected order state {other:?}"),
                };
                orders.push(format!(
                    "order {} {} {outcome}",
                    o.key.exchange.0, o.key.instrument.0
                ));
            }
            AccountEventKind::BalanceSnapshot(b) => {
                let b = b.0;
                bals.push(format!(
                    "bal {} {} {}",
                    b.asset.0,
                    fmt_dec(b.balance.total),
                    fmt_dec(b.balance.free)
                ));
            }
            AccountEventKind::Trade(tr) => {
                trades.push(format!(
                    "trade {} {} {} {} {}",
                    tr.instrument.0,
                    if tr.side == Side::Buy { "B" } else { "S" },
                    fmt_dec(tr.price),
                    fmt_dec(tr.quantity),
                    fmt_dec(tr.fees.fees)
                ));
            }
            other => panic!("unexpected event {other:?}"),
        }
    }
    for (key, mut v) in [("order", orders), ("bal", bals), ("trade", trades)] {
        if v.is_empty() {
            v.push(format!("{key} none"));
        }
        lines.extend(v);
    }
}

fn tamper(ii: IndexedInstruments, op: &[String]) -> Option<IndexedInstruments> {
    let p: usize = op[1].parse().expect("nat");
    let v: usize = op[2].parse().expect("nat");
    assert!(op.len() == 3, "bad op");
    let mut j = serde_json::to_value(&ii).unwrap();
    match op[0].as_str() {
        "akey" => {
            let entry = j["assets"].get_mut(p)?;
            entry["key"] = serde_json::json!(v);
        }
        "ibase" => {
            let entry = j["instruments"].get_mut(p)?;
            entry["value"]["underlying"]["base"] = serde_json::json!(v);
        }
        "iquote" => {
            let entry = j["instruments"].get_mut(p)?;
            entry["value"]["underlying"]["quote"] = serde_json::json!(v);
        }
        "iunit" => {
            let entry = j["instruments"].get_mut(p)?;
            let unit = &mut entry["value"]["spec"]["quantity"]["unit"];
            if unit.get("Asset").is_none() {
                return None;
            }
            unit["Asset"] = serde_json::json!(v);
        }
        "iex" => {
            let entry = j["instruments"].get_mut(p)?;
            entry["value"]["exchange"]["value"] = serde_json::to_value(EXS[v]).unwrap();
        }
        o => panic!("bad op {o}"),
    }
    Some(serde_json::from_value(j).expect("tampered collection deserialises"))
}

fn run() {
    run_cases(|case, lines| {
        let mut defs: Vec<D> = vec![];
        let mut ii: Option<IndexedInstruments> = None;
        let mut adds: Vec<Add> = vec![];
        let mut live: Option<Live> = None;
        for op in &case.ops {
            lines.push("@".into());
            match op[0].as_str() {
                "def" => {
                    defs.push(parse_def(&op[1..]));
                    lines.push(format!("ndefs {}", defs.len()));
                }
                "index" => {
                    live = None;
                    adds.clear();
                    let built = index(&defs);
                    lines.push(format!(
                        "indexed {} {} {}",
                        built.exchanges().len(),
                        built.assets().len(),
                        built.instruments().len()
                    ));
                    ii = Some(built);
                }
                "akey" | "ibase" | "iquote" | "iunit" | "iex" => match ii.take() {
                    None => lines.push("noindex".into()),
                    Some(cur) => match tamper(cur.clone(), op) {
                        None => {
                            lines.push("skip".into());
                            ii = Some(cur);
                        }
                        Some(next) => {
                            live = None;
                            adds.clear();
                            lines.push("ok".into());
                            ii = Some(next);
                        }
                    },
                },
                "mock" => {
                    adds.push(Add::Mock(parse_mock(&op[1..])));
                    lines.push(format!("adds {}", adds.len()));
                }
                "live" => {
                    assert!(op.len() == 2, "bad op");
                    adds.push(Add::Live(op[1].parse().expect("nat")));
                    lines.push(format!("adds {}", adds.len()));
                }
                "build" => match &ii {
                    None => lines.push("noindex".into()),
                    Some(cur) => {
                        drop(live.take());
                        let queued = std::mem::take(&mut adds);
                        live = op_build(cur, &queued, lines);
                    }
                },
                "order" => match &mut live {
                    None => {
                        // still validate the op
                        let _: Vec<usize> = op[1..3].iter().map(|s| s.parse().expect("nat")).collect();
                        lines.push("nobuild".into())
                    }
                    Some(l) => op_order(l, &op[1..], lines),
                },
                other => panic!("bad op {other}"),
            }
        }
    });
}

// ---------------------------------------------------------------------------- generator

struct Gen {
    rng: Rng,
    /// asset exchange names are a function of (exchange, internal name)
    wf_assets: bool,
    /// instrument exchange names are unique per exchange
    unique_names: bool,
    /// share of non-spot definitions (percent)
    nonspot: u64,
    n_ex: usize,
    next_name: usize,
    labels: Vec<usize>,
}

impl Gen {
    fn asset(&mut self, e: usize) -> A {
        let ni = self.rng.below(4) as usize;
        if self.wf_assets {
            A(ni, ni + if e % 2 == 1 { 10 } else { 0 })
        } else {
            A(ni, ni + 10 * self.rng.below(2) as usize)
        }
    }
    fn small(&mut self) -> usize {
        *self.rng.pick(&[1usize, 1, 1, 2, 5])
    }
    fn def(&mut self, used: &mut Vec<(usize, usize)>) -> D {
        let e = self.labels[self.rng.below(self.n_ex as u64) as usize];
        self.next_name += 1;
        let ni = self.next_name;
        let ne = if self.unique_names {
            let mut ne = self.rng.below(4) as usize;
            while used.contains(&(e, ne)) {
                ne += 1;
            }
            used.push((e, ne));
            ne
        } else {
            self.rng.below(2) as usize
        };
        let base = self.asset(e);
        let quote = self.asset(e);
        let kind = if self.rng.chance(self.nonspot) {
            match self.rng.below(3) {
                0 => K::P(self.small(), self.asset(e)),
                1 => K::F(self.small(), self.asset(e), self.rng.below(3) as usize),
                _ => K::O(
                    self.small(),
                    self.asset(e),
                    self.rng.below(2) as usize,
                    self.rng.below(3) as usize,
                    self.rng.below(3) as usize,
                    self.small(),
                ),
            }
        } else {
            K::S
        };
        let spec = if self.rng.chance(55) {
            None
        } else {
            let u = match self.rng.below(4) {
                0 | 1 => U::A(self.asset(e)),
                2 => U::C,
                _ => U::Q,
            };
            Some((self.small(), self.small(), u, self.small(), self.small(), self.small()))
        };
        D {
            e,
            ni,
            ne,
            base,
            quote,
            qa: self.rng.below(2) as usize,
            kind,
            spec,
        }
    }
}

fn exchange_assets(ii: &IndexedInstruments, e: usize) -> Vec<usize> {
    let mut v: Vec<usize> = ii
        .assets()
        .iter()
        .filter(|a| a.value.exchange == EXS[e])
        .map(|a| un(a.value.asset.name_exchange.name()))
        .collect();
    v.sort();
    v.dedup();
    v
}

/// Input-domain family (`d` cases): the value classes the ordinary pools leave out, in three magnitude
/// regimes per case (so that every product and sum stays inside the 28 digits `Decimal` computes exactly -
/// rounding is not modelled). 1 = boundary: rebates (negative fee), fees of 100 % and more; zero, fractional,
/// negative and EQUAL balances, round amounts that an order of the regime spends exactly (100 = 50 x 2 =
/// 40 x 2 x 1.25 = 25 x 2 x 2), zero / negative prices. 2 = tiny: 1e-8 fees, balances, prices, quantities.
/// 3 = huge: prices 1e12, quantities to 1e11, balances to 1e21.
fn wide_pools(regime: u8) -> [&'static [&'static str]; 4] {
    match regime {
        1 => [
            &["-0.01", "-0.25", "1", "2", "0", "0.25"],
            &["0", "0.5", "-5", "100", "100", "250", "12.25", "1000"],
            &["0", "-2", "1", "2", "2", "2.5", "10"],
            &["-0.5", "1", "50", "40", "25", "100", "125", "0"],
        ],
        2 => [
            &["0.00000001", "0", "0.001", "-0.00000001"],
            &["0.00000001", "0.5", "100", "0.00000003"],
            &["0.00000001", "1", "2", "0.5"],
            &["0.00000001", "1", "0.00000002", "50"],
        ],
        _ => [
            &["0", "0.25", "1", "-0.01"],
            &["1000000000000", "1000000000000000000000", "100", "250000000000"],
            &["1000000000000", "1", "2", "2.5"],
            &["1000000000", "1", "50", "100000000000"],
        ],
    }
}

fn gen_mock_wide(rng: &mut Rng, ii: &IndexedInstruments, e: usize, regime: u8) -> MockCfg {
    let mut c = gen_mock(rng, ii, e, false);
    let pools = wide_pools(regime);
    c.fee = rng.pick(pools[0]).to_string();
    for b in c.balances.iter_mut() {
        b.1 = rng.pick(pools[1]).to_string();
    }
    c
}

fn gen_mock(rng: &mut Rng, ii: &IndexedInstruments, e: usize, spoil: bool) -> MockCfg {
    let mut names = exchange_assets(ii, e);
    if spoil && !names.is_empty() && rng.chance(70) {
        // an asset without balance: `open_order` on it kills the exchange task
        let k = rng.below(names.len() as u64) as usize;
        names.remove(k);
    } else if spoil {
        // a balance the exchange has no asset for: the initial snapshot cannot be indexed
        names.push(77);
    }
    // shuffled: position in the configuration != asset index order
    for i in (1..names.len()).rev() {
        let j = rng.below(i as u64 + 1) as usize;
        names.swap(i, j);
    }
    let balances = names
        .iter()
        .enumerate()
        .map(|(k, n)| (*n, format!("{}", 100 * (e + 1) + 10 * k + n % 7)))
        .collect();
    MockCfg {
        e,
        // 14 %: at or beyond the manager's 1 s request timeout (builder.rs:97); 6 %: just below
        latency: match rng.below(100) {
            0..=13 => *rng.pick(&[1000u64, 1000, 1001, 2500, 5000]),
            14..=19 => 999,
            _ => *rng.pick(&[0u64, 0, 10, 100, 101]),
        },
        fee: rng.pick(&["0", "0.001", "0.01", "0.1", "0.25"]).to_string(),
        balances,
    }
}

fn gen_orders(out: &mut Out, rng: &mut Rng, ii: &IndexedInstruments, n: usize) {
    gen_orders_from(out, rng, ii, n, 0)
}

/// `regime` 0: the ordinary pools; 1 / 2 / 3: `wide_pools`
fn gen_orders_from(out: &mut Out, rng: &mut Rng, ii: &IndexedInstruments, n: usize, regime: u8) {
    let wide = regime != 0;
    let n_ex = ii.exchanges().len();
    let n_in = ii.instruments().len();
    for _ in 0..n {
        let x = if rng.chance(5) {
            n_ex
        } else {
            rng.below(n_ex.max(1) as u64) as usize
        };
        let own: Vec<usize> = ii
            .instruments()
            .iter()
            .filter(|k| k.value.exchange.key.0 == x)
            .map(|k| k.key.0)
            .collect();
        // wide: long histories - a foreign instrument (it kills the manager) only rarely
        let i = if !own.is_empty() && rng.chance(if wide { 98 } else { 85 }) {
            *rng.pick(&own)
        } else {
            rng.below(n_in as u64 + 1) as usize
        };
        let side = if rng.chance(50) { "B" } else { "S" };
        let kind = if rng.chance(92) { "M" } else { "L" };
        let (price, qty) = if wide {
            let pools = wide_pools(regime);
            (*rng.pick(pools[2]), *rng.pick(pools[3]))
        } else {
            (
                *rng.pick(&["1", "2", "0.5", "10", "3"]),
                *rng.pick(&["1", "2", "0.5", "50", "1000", "0", "7", "-1"]),
            )
        };
        out.line(format!("order {x} {i} {side} {kind} {price} {qty}"));
    }
}

fn emit_random(out: &mut Out, rng: &mut Rng, id: String, thorough: bool) {
    emit_random_from(out, rng, id, thorough, false)
}

/// `wide`: the input-domain family — up to all FIVE exchanges, mocks with the wide fee / balance pools,
/// orders with the wide price / quantity pools, histories of 10-30 requests.
fn emit_random_from(out: &mut Out, rng: &mut Rng, id: String, thorough: bool, wide: bool) {
    out.case(id);
    let n_ex = if wide { rng.range(1, 5) as usize } else { rng.range(1, 3) as usize };
    let regime = if wide { rng.range(1, 3) as u8 } else { 0 };
    let mut labels: Vec<usize> = (0..EXS.len()).collect();
    for i in (1..labels.len()).rev() {
        let j = rng.below(i as u64 + 1) as usize;
        labels.swap(i, j);
    }
    labels.truncate(n_ex);
    let mut g = Gen {
        rng: rng.fork(),
        wf_assets: !rng.chance(12),
        unique_names: !rng.chance(20),
        nonspot: if rng.chance(20) { 25 } else { 0 },
        n_ex,
        next_name: 0,
        labels: labels.clone(),
    };
    let n = rng.range(1, if thorough { 8 } else { 6 }) as usize;
    let mut used = vec![];
    let mut defs: Vec<D> = (0..n).map(|_| g.def(&mut used)).collect();
    if rng.chance(15) {
        let d = rng.pick(&defs).clone();
        defs.push(d);
    }
    for d in &defs {
        out.line(format!("def {}", def_toks(d)));
    }
    out.line("index");
    let mut ii = index(&defs);
    if rng.chance(12) {
        for _ in 0..rng.range(1, 2) {
            let n_as = ii.assets().len();
            let n_in = ii.instruments().len();
            let p_in = rng.below(n_in as u64 + 1) as usize;
            let a = rng.below(n_as as u64 + 2) as usize;
            let op = match rng.below(6) {
                0 => format!("akey {} {}", rng.below(n_as as u64 + 1), rng.below(n_as as u64 + 2)),
                1 => format!("ibase {p_in} {a}"),
                2 => format!("iquote {p_in} {a}"),
                3 | 4 => format!("iunit {p_in} {a}"),
                _ => format!("iex {p_in} {}", rng.below(EXS.len() as u64)),
            };
            out.line(&op);
            let toks: Vec<String> = op.split_whitespace().map(|s| s.to_string()).collect();
            if let Some(next) = tamper(ii.clone(), &toks) {
                ii = next;
            }
        }
    }
    let rounds = if rng.chance(15) { 2 } else { 1 };
    for _ in 0..rounds {
        let mut order: Vec<usize> = ii.exchanges().iter().map(|k| label(k.value)).collect();
        for i in (1..order.len()).rev() {
            let j = rng.below(i as u64 + 1) as usize;
            order.swap(i, j);
        }
        for e in &order {
            match rng.below(10) {
                0 => {}
                1 | 2 => out.line(format!("live {e}")),
                _ if wide => out.line(mock_toks(&gen_mock_wide(rng, &ii, *e, regime))),
                _ => {
                    let spoil = rng.chance(8);
                    out.line(mock_toks(&gen_mock(rng, &ii, *e, spoil)));
                }
            }
        }
        if rng.chance(6) {
            // an exchange that is not indexed, or one added twice
            let e = rng.below(EXS.len() as u64) as usize;
            if rng.chance(50) {
                out.line(format!("live {e}"));
            } else {
                out.line(mock_toks(&gen_mock(rng, &ii, e, false)));
            }
        }
        out.line("build");
        if wide {
            let n_orders = rng.range(10, 30) as usize;
            gen_orders_from(out, rng, &ii, n_orders, regime);
            continue;
        }
        let n_orders = rng.range(2, if thorough { 14 } else { 9 }) as usize;
        gen_orders(out, rng, &ii, n_orders);
    }
}

/// Configuration-shape family (`cfg` cases): 3-5 exchanges, every one with at least one spot
/// instrument, and link shapes (by EXCHANGE INDEX order) that the random family produces rarely or
/// never: TWO link-less (tracked-but-not-traded) exchanges before the first linked one, only the
/// LAST / only a MIDDLE / only the FIRST exchange linked, link-less + live + mock, nothing linked;
/// the `add_*` calls in index order or in reverse; then a buy and a sell on an own instrument of
/// EVERY exchange index (linked or not) and one beyond the last.
fn emit_cfg(out: &mut Out, rng: &mut Rng, id: String, k: usize) {
    out.case(id);
    let n_ex = rng.range(3, 5) as usize;
    let mut labels: Vec<usize> = (0..EXS.len()).collect();
    for i in (1..labels.len()).rev() {
        let j = rng.below(i as u64 + 1) as usize;
        labels.swap(i, j);
    }
    labels.truncate(n_ex);
    let mut g = Gen {
        rng: rng.fork(),
        wf_assets: true,
        unique_names: true,
        nonspot: 0,
        n_ex: 1,
        next_name: 0,
        labels: vec![],
    };
    let mut used = vec![];
    let mut defs: Vec<D> = vec![];
    for e in &labels {
        g.labels = vec![*e];
        defs.push(g.def(&mut used));
    }
    g.labels = labels.clone();
    g.n_ex = n_ex;
    for _ in 0..rng.range(0, 3) {
        defs.push(g.def(&mut used));
    }
    for i in (1..defs.len()).rev() {
        let j = rng.below(i as u64 + 1) as usize;
        defs.swap(i, j);
    }
    for d in &defs {
        out.line(format!("def {}", def_toks(d)));
    }
    out.line("index");
    let ii = index(&defs);
    let by_index: Vec<usize> = ii.exchanges().iter().map(|x| label(x.value)).collect();
    let n = by_index.len();
    // per exchange index: 0 = link-less, 1 = mock, 2 = live
    let shape: Vec<u8> = (0..n)
        .map(|x| match k % 6 {
            0 => (x >= 2) as u8,
            1 => (x == n - 1) as u8,
            2 => (x == n / 2) as u8,
            3 => (x == 0) as u8,
            4 => match x {
                0 => 0,
                1 => 2,
                _ => 1,
            },
            _ => 0,
        })
        .collect();
    let mut calls: Vec<usize> = (0..n).collect();
    if (k / 6) % 2 == 1 {
        calls.reverse();
    }
    for x in calls {
        match shape[x] {
            1 => out.line(mock_toks(&gen_mock(rng, &ii, by_index[x], false))),
            2 => out.line(format!("live {}", by_index[x])),
            _ => {}
        }
    }
    out.line("build");
    for x in 0..=n {
        let own: Vec<usize> = ii
            .instruments()
            .iter()
            .filter(|i| i.value.exchange.key.0 == x)
            .map(|i| i.key.0)
            .collect();
        let i = if own.is_empty() { 0 } else { *rng.pick(&own) };
        out.line(format!("order {x} {i} B M 1 1"));
        out.line(format!("order {x} {i} S M 2 1"));
    }
}

/// Small-scope enumeration: every set of up to 3 definitions from a universe of 10 (per exchange 0 / 1:
/// three spot instruments over three assets, two of them sharing the exchange name 1, and one with a
/// spec in asset units; plus a perpetual on each exchange), a mock for every indexed exchange (added
/// in reverse index order), then a buy and a sell of every (exchange index, instrument index) pair
/// including one instrument index out of range.
fn emit_exhaustive(out: &mut Out) {
    let a = |ni: usize, e: usize| A(ni, ni + 10 * e);
    let mut universe: Vec<D> = vec![];
    for e in 0..2usize {
        for (ne, b, q) in [(1usize, 0usize, 1usize), (2, 1, 0), (1, 0, 2)] {
            universe.push(D {
                e,
                ni: universe.len() + 1,
                ne,
                base: a(b, e),
                quote: a(q, e),
                qa: 1,
                kind: K::S,
                spec: None,
            });
        }
        universe.push(D {
            e,
            ni: universe.len() + 1,
            ne: 3,
            base: a(0, e),
            quote: a(1, e),
            qa: 0,
            kind: K::S,
            spec: Some((1, 2, U::A(a(2, e)), 3, 4, 5)),
        });
    }
    for e in 0..2usize {
        universe.push(D {
            e,
            ni: universe.len() + 1,
            ne: 4,
            base: a(0, e),
            quote: a(1, e),
            qa: 1,
            kind: K::P(1, a(1, e)),
            spec: None,
        });
    }
    let n = universe.len();
    let mut id = 0usize;
    let mut emit = |sel: &[usize]| {
        id += 1;
        out.case(format!("x{id}"));
        let defs: Vec<D> = sel.iter().map(|k| universe[*k].clone()).collect();
        for d in &defs {
            out.line(format!("def {}", def_toks(d)));
        }
        out.line("index");
        let ii = index(&defs);
        let mut rng = Rng::new(id as u64);
        let mut es: Vec<usize> = ii.exchanges().iter().map(|k| label(k.value)).collect();
        es.reverse();
        for e in &es {
            out.line(mock_toks(&gen_mock(&mut rng, &ii, *e, false)));
        }
        out.line("build");
        for x in 0..ii.exchanges().len() {
            for i in 0..=ii.instruments().len() {
                out.line(format!("order {x} {i} B M 2 1"));
                out.line(format!("order {x} {i} S M 2 1"));
            }
        }
    };
    for i in 0..n {
        emit(&[i]);
        for j in i + 1..n {
            emit(&[i, j]);
            for k in j + 1..n {
                emit(&[i, j, k]);
            }
        }
    }
}

/// Small-scope enumeration of the tamper ops: one collection (two spot instruments on exchange 0, one
/// with a spec in asset units, one spot instrument on exchange 1), every single tamper op over small
/// ranges, then a mock for both exchanges and a buy + sell of every instrument index.
fn emit_tamper_exhaustive(out: &mut Out) {
    let a = |ni: usize, e: usize| A(ni, ni + 10 * e);
    let defs = vec![
        D {
            e: 0,
            ni: 1,
            ne: 1,
            base: a(0, 0),
            quote: a(1, 0),
            qa: 1,
            kind: K::S,
            spec: Some((1, 2, U::A(a(2, 0)), 3, 4, 5)),
        },
        D {
            e: 0,
            ni: 2,
            ne: 2,
            base: a(1, 0),
            quote: a(0, 0),
            qa: 0,
            kind: K::S,
            spec: None,
        },
        D {
            e: 1,
            ni: 3,
            ne: 1,
            base: a(0, 1),
            quote: a(1, 1),
            qa: 1,
            kind: K::S,
            spec: None,
        },
    ];
    let ii = index(&defs);
    let (n_as, n_in) = (ii.assets().len(), ii.instruments().len());
    let mut ops: Vec<String> = vec![];
    for p in 0..n_as {
        for k in 0..=n_as {
            ops.push(format!("akey {p} {k}"));
        }
    }
    for p in 0..n_in {
        for v in 0..=n_as {
            ops.push(format!("ibase {p} {v}"));
            ops.push(format!("iquote {p} {v}"));
            ops.push(format!("iunit {p} {v}"));
        }
        for l in 0..3 {
            ops.push(format!("iex {p} {l}"));
        }
    }
    for (id, op) in ops.iter().enumerate() {
        out.case(format!("t{}", id + 1));
        for d in &defs {
            out.line(format!("def {}", def_toks(d)));
        }
        out.line("index");
        out.line(op);
        let toks: Vec<String> = op.split_whitespace().map(|s| s.to_string()).collect();
        let cur = tamper(ii.clone(), &toks).unwrap_or_else(|| ii.clone());
        let mut rng = Rng::new(id as u64 + 1);
        for e in [1usize, 0] {
            out.line(mock_toks(&gen_mock(&mut rng, &cur, e, false)));
        }
        out.line("build");
        for x in 0..2 {
            for i in 0..n_in {
                out.line(format!("order {x} {i} B M 2 1"));
                out.line(format!("order {x} {i} S M 2 1"));
            }
        }
    }
}

fn generate(seed: u64, n_cases: usize, tier: &str) {
    let mut out = Out::new();
    let mut rng = Rng::new(seed);
    let thorough = tier == "thorough";
    if thorough {
        emit_exhaustive(&mut out);
        emit_tamper_exhaustive(&mut out);
    }
    for k in 0..n_cases {
        let mut r = rng.fork();
        emit_random(&mut out, &mut r, format!("r{}", k + 1), thorough);
    }
    // input-domain family: its own seed, so the random cases above stay what they were
    let mut rd = Rng::new(seed ^ 0xD04A_1C4D);
    for k in 0..(n_cases / 6).max(6) {
        let mut r = rd.fork();
        emit_random_from(&mut out, &mut r, format!("d{}", k + 1), thorough, true);
    }
    // configuration-shape family: its own seed, so every case above stays what it was
    let mut rc = Rng::new(seed ^ 0xCF61_0C4D);
    for k in 0..(n_cases / 12).max(12) {
        let mut r = rc.fork();
        emit_cfg(&mut out, &mut r, format!("cfg{}", k + 1), k);
    }
    out.flush();
}

fn main() {
    let mut sorted = EXS;
    sorted.sort();
    assert_eq!(sorted, EXS, "EXS must ascend in ExchangeId's derived order");
    let a = args();
    match a.cmd.as_str() {
        "gen" => generate(a.seed, a.n, &a.tier),
        "run" => run(),
        _ => {
            eprintln!("usage: c04m gen <seed> <n> <tier> | run < cases");
            std::process::exit(2)
        }
    }
}
