//! C07 — every execution request is answered exactly once (response or timeout).
//!
//! Runs the real `ExecutionManager::run` around a scripted `ExecutionClient` on a current-thread,
//! paused-clock tokio runtime and reports the events arriving on the manager's response channel.
//!
//! Ops (same as `lean/BarterModel/Driver/C07.lean`):
//!   `init T n [m [x]]` (m configured assets, default 0; x = the manager's OWN exchange index / exchange id number,
//!     default 0, at most 3: requests for another exchange index make the manager panic, answers echoing another
//!     exchange id are filtered)
//!   | `open|cancel ex ins strat cid body delay reply fills eex eins estrat ecid ebody [oid tex]`
//!     body  = code of the request's state: opens -> static fields (`body_fields`: side / price / quantity from
//!             `body % 6`, Limit|Market from `(body / 6) % 2`, time in force from `(body / 12) % 5`; codes 60..219:
//!             price / quantity from the table `EXOTIC[(body - 60) % 8]` - tiny, huge, fractional, negative price, zero
//!             and negative quantity -, side / kind / time in force from `(body - 60) / 8`), cancels ->
//!             `RequestCancel { id }` (0 = None, k+1 = Some("o<k>"))
//!     reply = ok | rej | inv<i> | conn_timeout | conn_offline | conn_socket | ainv<a> | bal<a> | rate | acx | aff
//!     (the scripted client returns the real `UnindexedOrderError` values)
//!     fills = filled quantity of an accepted open relative to the ECHOED order's quantity: 0 nothing | 1 all |
//!             2 half (partial fill) | 3 quantity + 1 | 4 quantity - 1e-8 (all but the smallest unit) | 5 quantity + 1e-8
//!     oid tex (default 0 0) = payload of the client's answer: order id `o<oid>`, exchange time +`tex` ms, error
//!             text `m<oid>`, `ExchangeOffline(exchange oid % 4)`
//!   The scripted client RECORDS every request the manager hands it (`fwd ...` observation lines) and answers
//!   from the script.
//!   | `adv dt` (sleep: timers fire one by one) | `jump dt` (`tokio::time::advance`: late poll) | `shutdown`
//!   | `close` (the request channel's sender is DROPPED - the request stream ends - instead of `Shutdown` being sent)
//! CONFIGURATION shapes (`init T n m x mode`): mode `new` (default) = `ExecutionManager::new` with the harness's own
//!   response channel; `ip` | `il` | `ie` = `ExecutionManager::init` (what `ExecutionBuilder` calls): the manager's
//!   responses are read from the MERGED account stream `init` returns (snapshot + the client's account stream with
//!   auto-reconnect + the responses), the client's account stream being `ip` pending for ever | `il` live (a balance
//!   event every tick) | `ie` ending (two balance events, then the stream ends; the re-connect takes 2 ticks; for ever).
//!   Only the order events of the merged stream are observed (snapshots, balances, `Reconnecting` are dropped).
//! One model tick = 10 ms of virtual time.
use barter::execution::{AccountStreamEvent, manager::ExecutionManager, request::ExecutionRequest};
use barter_data::streams::reconnect::stream::ReconnectionBackoffPolicy;
use barter_execution::{
    AccountEvent, AccountEventKind, UnindexedAccountEvent, UnindexedAccountSnapshot,
    balance::{AssetBalance, Balance},
    client::ExecutionClient,
    error::{
        ApiError, ConnectivityError, OrderError, UnindexedApiError, UnindexedClientError,
        UnindexedOrderError,
    },
    indexer::AccountEventIndexer,
    map::ExecutionInstrumentMap,
    order::{
        Order, OrderEvent, OrderKey, OrderKind, TimeInForce,
        id::{ClientOrderId, OrderId, StrategyId},
        request::{
            OrderRequestCancel, OrderRequestOpen, RequestCancel, RequestOpen,
            UnindexedOrderResponseCancel,
        },
        state::{ActiveOrderState, Cancelled, InactiveOrderState, Open, OrderState},
    },
    trade::Trade,
};
use barter_instrument::{
    Keyed, Side,
    asset::{AssetIndex, QuoteAsset, name::AssetNameExchange},
    exchange::{ExchangeId, ExchangeIndex},
    instrument::{InstrumentIndex, name::InstrumentNameExchange},
};
use barter_integration::{
    channel::{Tx, UnboundedRx, UnboundedTx, mpsc_unbounded},
    collection::FnvIndexMap,
    snapshot::Snapshot,
};
use chrono::{DateTime, Utc};
use futures::StreamExt;
use rust_decimal::Decimal;
use std::{
    collections::VecDeque,
    future::Future,
    sync::{Arc, Mutex},
    time::Duration,
};
use vh::*;

const TICK_MS: u64 = 10;

/// tokio's timers reach 2^36 ms (about 2.2 years: the documented maximum of `tokio::time::sleep`); a request
/// timeout or a time step beyond it is outside what the harness can drive (and what the model is tied to)
const MAX_TICKS: u64 = 6_800_000_000;

fn ticks(n: u64) -> Duration {
    assert!(n < MAX_TICKS, "bad duration {n}");
    Duration::from_millis(n * TICK_MS)
}

#[derive(Debug, Clone)]
enum Reply {
    Ok,
    Rejected,
    InvalidIns(usize),
    /// `Err(UnindexedOrderError::Connectivity(_))` as the CLIENT's answer
    ConnTimeout,
    ConnOffline,
    ConnSocket,
    /// `Rejected(ApiError::AssetInvalid(asset, _))` / `BalanceInsufficient(asset, _)`: asset NAME `ast<a>`
    AssetInvalid(usize),
    BalanceInsufficient(usize),
    RateLimit,
    AlreadyCancelled,
    AlreadyFullyFilled,
}

/// What the scripted client does with the next request it is handed.
#[derive(Debug, Clone)]
struct Script {
    delay: Option<u64>,
    reply: Reply,
    /// 0 nothing | 1 the echoed order's quantity | 2 half of it | 3 quantity + 1 | 4 quantity - 1e-8 | 5 quantity + 1e-8
    fills: u8,
    /// payload of the answer: order id `o<oid>` / error text `m<oid>` / `ExchangeOffline(oid % 4)`
    oid: u64,
    /// `time_exchange` of the answer, ms after `time0`
    tex: i64,
    eex: usize,
    eins: usize,
    estrat: usize,
    ecid: usize,
    ebody: u64,
}

#[derive(Debug, Clone, Default)]
struct ScriptedClient {
    scripts: Arc<Mutex<VecDeque<Script>>>,
    /// one `fwd ...` line per request the manager handed to the client, in call order
    seen: Arc<Mutex<Vec<String>>>,
    /// `ExecutionManager::init` only: (own exchange, configured assets, account-stream mode `p|l|e`, account streams
    /// handed out so far)
    acct: Arc<Mutex<(usize, usize, char, u64)>>,
}

fn exchange_id(e: usize) -> ExchangeId {
    // the manager under test is configured for exchange 0 = Mock unless `init` names another one
    match e {
        0 => ExchangeId::Mock,
        1 => ExchangeId::BinanceSpot,
        2 => ExchangeId::Kraken,
        _ => ExchangeId::Okx,
    }
}

fn ins_name(i: usize) -> InstrumentNameExchange {
    InstrumentNameExchange::new(format!("ins{i}"))
}

fn asset_name(a: usize) -> AssetNameExchange {
    AssetNameExchange::new(format!("ast{a}"))
}

/// static fields of the order with code `body` (codes 0..5: the Limit / GTC orders of the first corpus)
fn body_fields(body: u64) -> (Side, Decimal, Decimal, OrderKind, TimeInForce) {
    assert!(body < BODY_CODES, "bad body code {body}");
    let kind = |k: u64| if k % 2 == 0 { OrderKind::Limit } else { OrderKind::Market };
    let tif = |t: u64| match t % 5 {
        0 => TimeInForce::GoodUntilCancelled { post_only: false },
        1 => TimeInForce::GoodUntilCancelled { post_only: true },
        2 => TimeInForce::GoodUntilEndOfDay,
        3 => TimeInForce::FillOrKill,
        _ => TimeInForce::ImmediateOrCancel,
    };
    if body >= 60 {
        let x = body - 60;
        let (price, quantity) = EXOTIC[(x % 8) as usize];
        return (
            if (x / 8) % 2 == 0 { Side::Buy } else { Side::Sell },
            parse_dec(price),
            parse_dec(quantity),
            kind(x / 16),
            tif(x / 32),
        );
    }
    let base = body % 6;
    (
        if base % 2 == 0 { Side::Buy } else { Side::Sell },
        Decimal::from(base),
        Decimal::from(base + 1),
        kind(body / 6),
        tif(body / 12),
    )
}

/// number of `body` codes of an open: 60 small-integer orders + 8 x 2 x 2 x 5 orders over `EXOTIC`
const BODY_CODES: u64 = 60 + 160;

/// (price, quantity) of the body codes >= 60 (the same table as `exotic` in `lean/BarterModel/Driver/C07.lean`):
/// the smallest unit, 1e12, a negative price with a fractional quantity, quantity ZERO, many digits, huge x tiny,
/// 1e15, a NEGATIVE quantity (the types are signed Decimals; the manager does not validate them)
const EXOTIC: [(&str, &str); 8] = [
    ("0.00000001", "0.00000001"),
    ("1000000000000", "1000000000000"),
    ("-3.5", "2.25"),
    ("0.5", "0"),
    ("123456.789", "0.001"),
    ("1000000000000", "0.00000001"),
    ("1", "1000000000000000"),
    ("0", "-1"),
];

/// 1e-8
fn smallest_unit() -> Decimal {
    Decimal::new(1, 8)
}

/// the static fields as they are, one token: `B|S:price:quantity:L|M:tif`
fn fields_tok(side: Side, price: Decimal, quantity: Decimal, kind: OrderKind, tif: TimeInForce) -> String {
    format!(
        "{}:{}:{}:{}:{}",
        match side {
            Side::Buy => "B",
            Side::Sell => "S",
        },
        fmt_dec(price),
        fmt_dec(quantity),
        match kind {
            OrderKind::Limit => "L",
            OrderKind::Market => "M",
        },
        match tif {
            TimeInForce::GoodUntilCancelled { post_only: false } => "G0",
            TimeInForce::GoodUntilCancelled { post_only: true } => "G1",
            TimeInForce::GoodUntilEndOfDay => "D",
            TimeInForce::FillOrKill => "F",
            TimeInForce::ImmediateOrCancel => "I",
        }
    )
}

/// `RequestCancel { id }` of the cancel with code `body`
fn cancel_id(body: u64) -> Option<OrderId> {
    (body > 0).then(|| OrderId::new(format!("o{}", body - 1)))
}

/// inverse of `exchange_id`, for printing an `ExchangeId`
fn exchange_no(id: ExchangeId) -> String {
    (0..4usize).find(|e| exchange_id(*e) == id).map(|e| format!("x{e}")).unwrap_or_else(|| format!("?{id}"))
}

/// `fwd <kind> x<exchange id> <instrument NAME> <strat> <cid> <state>`: the request as the client received it
fn fwd_line(kind: &str, key: &OrderKey<ExchangeId, &InstrumentNameExchange>, state: String) -> String {
    format!(
        "fwd {kind} {} {} {} {} {state}",
        exchange_no(key.exchange),
        key.instrument.name(),
        strip('s', key.strategy.0.as_str()),
        strip('c', key.cid.0.as_str()),
    )
}

fn time0() -> DateTime<Utc> {
    DateTime::<Utc>::from_timestamp(1_700_000_000, 0).unwrap()
}

impl Script {
    fn key(&self) -> OrderKey<ExchangeId, InstrumentNameExchange> {
        OrderKey {
            exchange: exchange_id(self.eex),
            instrument: ins_name(self.eins),
            strategy: StrategyId::new(format!("s{}", self.estrat)),
            cid: ClientOrderId::new(format!("c{}", self.ecid)),
        }
    }

    fn error(&self) -> UnindexedOrderError {
        use UnindexedApiError as A;
        match self.reply {
            Reply::InvalidIns(i) => UnindexedOrderError::Rejected(A::InstrumentInvalid(ins_name(i), self.text())),
            Reply::ConnTimeout => UnindexedOrderError::Connectivity(ConnectivityError::Timeout),
            Reply::ConnOffline => UnindexedOrderError::Connectivity(ConnectivityError::ExchangeOffline(exchange_id(
                (self.oid % 4) as usize,
            ))),
            Reply::ConnSocket => UnindexedOrderError::Connectivity(ConnectivityError::Socket(self.text())),
            Reply::AssetInvalid(a) => UnindexedOrderError::Rejected(A::AssetInvalid(asset_name(a), self.text())),
            Reply::BalanceInsufficient(a) => {
                UnindexedOrderError::Rejected(A::BalanceInsufficient(asset_name(a), self.text()))
            }
            Reply::RateLimit => UnindexedOrderError::Rejected(A::RateLimit),
            Reply::AlreadyCancelled => UnindexedOrderError::Rejected(A::OrderAlreadyCancelled),
            Reply::AlreadyFullyFilled => UnindexedOrderError::Rejected(A::OrderAlreadyFullyFilled),
            Reply::Rejected | Reply::Ok => UnindexedOrderError::Rejected(A::OrderRejected(self.text())),
        }
    }

    /// the text inside the client's error
    fn text(&self) -> String {
        format!("m{}", self.oid)
    }

    fn order_id(&self) -> OrderId {
        OrderId::new(format!("o{}", self.oid))
    }

    fn time_exchange(&self) -> DateTime<Utc> {
        time0() + chrono::Duration::milliseconds(self.tex)
    }

    async fn wait(delay: Option<u64>) {
        match delay {
            None => std::future::pending::<()>().await,
            Some(0) => {}
            Some(d) => tokio::time::sleep(ticks(d)).await,
        }
    }
}

impl ExecutionClient for ScriptedClient {
    const EXCHANGE: ExchangeId = ExchangeId::Mock;
    type Config = ();
    type AccountStream = futures::stream::BoxStream<'static, UnindexedAccountEvent>;

    fn new(_: Self::Config) -> Self {
        Self::default()
    }

    async fn account_snapshot(
        &self,
        _: &[AssetNameExchange],
        _: &[InstrumentNameExchange],
    ) -> Result<UnindexedAccountSnapshot, UnindexedClientError> {
        let (x, ..) = *self.acct.lock().unwrap();
        Ok(UnindexedAccountSnapshot { exchange: exchange_id(x), balances: vec![], instruments: vec![] })
    }

    async fn account_stream(
        &self,
        _: &[AssetNameExchange],
        _: &[InstrumentNameExchange],
    ) -> Result<Self::AccountStream, UnindexedClientError> {
        let (x, m, mode, nth) = {
            let mut a = self.acct.lock().unwrap();
            a.3 += 1;
            (a.0, a.1, a.2, a.3 - 1)
        };
        // a balance of the first configured asset (none configured: an unknown asset name, the event is filtered)
        let event = move |k: u64| UnindexedAccountEvent {
            exchange: exchange_id(x),
            kind: AccountEventKind::BalanceSnapshot(Snapshot(AssetBalance {
                asset: asset_name(if m > 0 { (k as usize) % m } else { 0 }),
                balance: Balance { total: Decimal::from(k), free: Decimal::from(k) },
                time_exchange: time0(),
            })),
        };
        let every_tick = move |limit: Option<u64>| {
            futures::stream::unfold(0u64, move |k| async move {
                if limit.is_some_and(|l| k >= l) {
                    return None;
                }
                tokio::time::sleep(ticks(1)).await;
                Some((event(k), k + 1))
            })
            .boxed()
        };
        Ok(match mode {
            'p' => futures::stream::pending().boxed(),
            'l' => every_tick(None),
            'e' => {
                if nth > 0 {
                    // the re-connect takes time
                    tokio::time::sleep(ticks(2)).await;
                }
                every_tick(Some(2))
            }
            other => panic!("bad account stream mode {other}"),
        })
    }

    fn cancel_order(
        &self,
        request: OrderRequestCancel<ExchangeId, &InstrumentNameExchange>,
    ) -> impl Future<Output = UnindexedOrderResponseCancel> + Send {
        self.seen.lock().unwrap().push(fwd_line(
            "cancel",
            &request.key,
            format!("id:{}", request.state.id.as_ref().map(|id| id.0.to_string()).unwrap_or_else(|| "-".into())),
        ));
        let script = self.scripts.lock().unwrap().pop_front().expect("script for cancel");
        let response: UnindexedOrderResponseCancel = OrderEvent {
            key: script.key(),
            state: match script.reply {
                Reply::Ok => Ok(Cancelled { id: script.order_id(), time_exchange: script.time_exchange() }),
                _ => Err(script.error()),
            },
        };
        async move {
            Script::wait(script.delay).await;
            response
        }
    }

    fn open_order(
        &self,
        request: OrderRequestOpen<ExchangeId, &InstrumentNameExchange>,
    ) -> impl Future<Output = Order<ExchangeId, InstrumentNameExchange, Result<Open, UnindexedOrderError>>> + Send
    {
        let st = &request.state;
        self.seen.lock().unwrap().push(fwd_line(
            "open",
            &request.key,
            fields_tok(st.side, st.price, st.quantity, st.kind, st.time_in_force),
        ));
        let script = self.scripts.lock().unwrap().pop_front().expect("script for open");
        let (side, price, quantity, kind, time_in_force) = body_fields(script.ebody);
        let response = Order {
            key: script.key(),
            side,
            price,
            quantity,
            kind,
            time_in_force,
            state: match script.reply {
                Reply::Ok => Ok(Open {
                    id: script.order_id(),
                    time_exchange: script.time_exchange(),
                    filled_quantity: match script.fills {
                        0 => Decimal::ZERO,
                        1 => quantity,
                        2 => quantity / Decimal::from(2),
                        3 => quantity + Decimal::ONE,
                        4 => quantity - smallest_unit(),
                        _ => quantity + smallest_unit(),
                    },
                }),
                _ => Err(script.error()),
            },
        };
        async move {
            Script::wait(script.delay).await;
            response
        }
    }

    async fn fetch_balances(&self) -> Result<Vec<AssetBalance<AssetNameExchange>>, UnindexedClientError> {
        unimplemented!()
    }

    async fn fetch_open_orders(
        &self,
    ) -> Result<Vec<Order<ExchangeId, InstrumentNameExchange, Open>>, UnindexedClientError> {
        unimplemented!()
    }

    async fn fetch_trades(
        &self,
        _: DateTime<Utc>,
    ) -> Result<Vec<Trade<QuoteAsset, InstrumentNameExchange>>, UnindexedClientError> {
        unimplemented!()
    }
}

fn strip(prefix: char, s: &str) -> String {
    s.strip_prefix(prefix).map(|x| x.to_string()).unwrap_or_else(|| format!("?{s}"))
}

/// the error kind with its instrument / asset argument and what else it carries (text, exchange)
fn order_error_str(e: &OrderError) -> String {
    match e {
        OrderError::Connectivity(ConnectivityError::Timeout) => "timeout".into(),
        OrderError::Connectivity(ConnectivityError::ExchangeOffline(x)) => format!("offline:{}", exchange_no(*x)),
        OrderError::Connectivity(ConnectivityError::Socket(m)) => format!("socket:{m}"),
        OrderError::Rejected(ApiError::OrderRejected(m)) => format!("rej:{m}"),
        OrderError::Rejected(ApiError::InstrumentInvalid(i, m)) => format!("inv{}:{m}", i.0.wrapping_sub(INDEX_OFFSET)),
        OrderError::Rejected(ApiError::AssetInvalid(a, m)) => format!("ainv{}:{m}", a.0.wrapping_sub(ASSET_OFFSET)),
        OrderError::Rejected(ApiError::BalanceInsufficient(a, m)) => {
            format!("bal{}:{m}", a.0.wrapping_sub(ASSET_OFFSET))
        }
        OrderError::Rejected(ApiError::RateLimit) => "rate".into(),
        OrderError::Rejected(ApiError::OrderAlreadyCancelled) => "acx".into(),
        OrderError::Rejected(ApiError::OrderAlreadyFullyFilled) => "aff".into(),
    }
}

fn ms(t: DateTime<Utc>) -> i64 {
    (t - time0()).num_milliseconds()
}

/// (`at` line, `ev` line, `for:` line) of one event on the response channel
fn canon(event: &AccountStreamEvent) -> (String, String, String) {
    let AccountStreamEvent::Item(AccountEvent { exchange, kind }) = event else {
        return ("at reconnecting".into(), "ev reconnecting".into(), "for:reconnecting".into());
    };
    let (k, key, fields, outcome) = match kind {
        AccountEventKind::OrderSnapshot(Snapshot(order)) => (
            "open",
            &order.key,
            fields_tok(order.side, order.price, order.quantity, order.kind, order.time_in_force),
            match &order.state {
                // the payload the event carries: order id, exchange time, filled quantity
                OrderState::Active(ActiveOrderState::Open(o)) => {
                    format!("ok:{}:{}:{}", o.id.0, ms(o.time_exchange), fmt_dec(o.filled_quantity))
                }
                OrderState::Active(_) => "active-other".into(),
                OrderState::Inactive(InactiveOrderState::FullyFilled) => "full".into(),
                OrderState::Inactive(InactiveOrderState::OpenFailed(e)) => order_error_str(e),
                OrderState::Inactive(_) => "inactive-other".into(),
            },
        ),
        AccountEventKind::OrderCancelled(response) => (
            "cancel",
            &response.key,
            "-".to_string(),
            match &response.state {
                Ok(c) => format!("ok:{}:{}", c.id.0, ms(c.time_exchange)),
                Err(e) => order_error_str(e),
            },
        ),
        _ => return ("at other".into(), "ev other".into(), "for:other".into()),
    };
    // engine instrument indices of this exchange do not start at 0 (see INDEX_OFFSET)
    let ins = key.instrument.0.wrapping_sub(INDEX_OFFSET);
    let strat = strip('s', key.strategy.0.as_str());
    let cid = strip('c', key.cid.0.as_str());
    let who = format!("{k} {} {} {ins} {strat} {cid}", exchange.0, key.exchange.0);
    (
        format!("at {who}"),
        format!("ev {who} {fields} {outcome}"),
        format!("for:{k}:{}:{ins}:{strat}:{cid} {} {fields} {outcome}", key.exchange.0, exchange.0),
    )
}

/// The manager under test serves an exchange that is NOT the first of a multi-exchange system: the
/// engine indices of its instruments start at this offset (instruments of exchanges that sort before
/// it occupy 0..INDEX_OFFSET), so an index is never equal to a position in the exchange's own map.
const INDEX_OFFSET: usize = 3;
/// likewise for the engine's asset indices of this exchange
const ASSET_OFFSET: usize = 5;

struct Live {
    /// `None`: the sender was dropped (`close`)
    req_tx: Option<UnboundedTx<ExecutionRequest<ExchangeIndex, InstrumentIndex>>>,
    resp_rx: UnboundedRx<AccountStreamEvent>,
    client: ScriptedClient,
    handle: Option<tokio::task::JoinHandle<()>>,
    status: &'static str,
}

async fn start(timeout: u64, n: usize, n_assets: usize, own_exchange: usize, mode: &str) -> Live {
    assert!(own_exchange < 4, "bad exchange {own_exchange}");
    let (req_tx, req_rx) = mpsc_unbounded();
    let (resp_tx, resp_rx) = mpsc_unbounded();
    let client = ScriptedClient::default();
    let instruments: FnvIndexMap<InstrumentIndex, InstrumentNameExchange> =
        (0..n).map(|i| (InstrumentIndex(INDEX_OFFSET + i), ins_name(i))).collect();
    let assets: FnvIndexMap<AssetIndex, AssetNameExchange> =
        (0..n_assets).map(|a| (AssetIndex(ASSET_OFFSET + a), asset_name(a))).collect();
    // the manager's own exchange: engine index `own_exchange`, exchange id `exchange_id(own_exchange)` (0 = the
    // first exchange of the system, Mock)
    let map = ExecutionInstrumentMap::new(
        Keyed::new(ExchangeIndex(own_exchange), exchange_id(own_exchange)),
        assets,
        instruments,
    );
    let indexer = AccountEventIndexer::new(Arc::new(map));
    let handle = match mode {
        "new" => tokio::spawn(
            ExecutionManager::new(req_rx.into_stream(), ticks(timeout), resp_tx, Arc::new(client.clone()), indexer).run(),
        ),
        "ip" | "il" | "ie" => {
            // the assembly of `ExecutionBuilder`: `ExecutionManager::init` builds the response channel itself and
            // returns the merged account stream (snapshot + account stream with auto-reconnect + responses)
            *client.acct.lock().unwrap() = (own_exchange, n_assets, mode.chars().nth(1).unwrap(), 0);
            let (manager, merged) = ExecutionManager::init(
                req_rx.into_stream(),
                ticks(timeout),
                Arc::new(client.clone()),
                indexer,
                ReconnectionBackoffPolicy { backoff_ms_initial: 10, backoff_multiplier: 2, backoff_ms_max: 100 },
            )
            .await
            .expect("ExecutionManager::init");
            // the consumer of the merged stream (in a system: the engine's event feed): order events only
            tokio::spawn(async move {
                let mut merged = Box::pin(merged);
                while let Some(event) = merged.next().await {
                    let order_event = matches!(
                        &event,
                        AccountStreamEvent::Item(AccountEvent {
                            kind: AccountEventKind::OrderSnapshot(_) | AccountEventKind::OrderCancelled(_),
                            ..
                        })
                    );
                    if order_event && resp_tx.send(event).is_err() {
                        break;
                    }
                }
            });
            tokio::spawn(manager.run())
        }
        other => panic!("bad init mode {other}"),
    };
    Live { req_tx: Some(req_tx), resp_rx, client, handle: Some(handle), status: "running" }
}

/// let the manager task run until it has nothing left to do at the current instant
async fn settle() {
    for _ in 0..40 {
        tokio::task::yield_now().await;
    }
}

async fn observe(live: &mut Live, lines: &mut Vec<String>, let_manager_run: bool) {
    if let_manager_run {
        settle().await;
    }
    // what the manager handed to the client since the last observation, in call order
    lines.extend(live.client.seen.lock().unwrap().drain(..));
    let mut ats = Vec::new();
    let mut evs = Vec::new();
    let mut fors = Vec::new();
    while let Ok(event) = live.resp_rx.rx.try_recv() {
        let (a, e, f) = canon(&event);
        ats.push(a);
        evs.push(e);
        fors.push(f);
    }
    ats.sort();
    evs.sort();
    fors.sort();
    lines.push(format!("nev {}", evs.len()));
    lines.extend(ats);
    lines.extend(evs);
    lines.extend(fors);
    if let Some(h) = live.handle.as_mut() {
        if h.is_finished() {
            live.status = match h.await {
                Ok(()) => "stopped",
                Err(_) => "panic",
            };
            live.handle = None;
        }
    }
    lines.push(format!("status {}", live.status));
}

fn parse_script(op: &[String]) -> Script {
    Script {
        delay: if op[6] == "never" { None } else { Some(op[6].parse().unwrap()) },
        reply: match op[7].as_str() {
            "ok" => Reply::Ok,
            "rej" => Reply::Rejected,
            "conn_timeout" => Reply::ConnTimeout,
            "conn_offline" => Reply::ConnOffline,
            "conn_socket" => Reply::ConnSocket,
            "rate" => Reply::RateLimit,
            "acx" => Reply::AlreadyCancelled,
            "aff" => Reply::AlreadyFullyFilled,
            s if s.starts_with("ainv") => Reply::AssetInvalid(s[4..].parse().expect("reply")),
            s if s.starts_with("bal") => Reply::BalanceInsufficient(s[3..].parse().expect("reply")),
            s => Reply::InvalidIns(s.strip_prefix("inv").expect("reply").parse().unwrap()),
        },
        fills: match op[8].as_str() {
            "0" => 0,
            "1" => 1,
            "2" => 2,
            "3" => 3,
            "4" => 4,
            "5" => 5,
            other => panic!("bad fills {other}"),
        },
        oid: op.get(14).map(|x| x.parse().unwrap()).unwrap_or(0),
        tex: op.get(15).map(|x| x.parse().unwrap()).unwrap_or(0),
        eex: op[9].parse().unwrap(),
        eins: op[10].parse().unwrap(),
        estrat: op[11].parse().unwrap(),
        ecid: op[12].parse().unwrap(),
        ebody: op[13].parse().unwrap(),
    }
}

fn request(op: &[String]) -> ExecutionRequest<ExchangeIndex, InstrumentIndex> {
    let p = |i: usize| op[i].parse::<usize>().unwrap();
    let key = OrderKey {
        exchange: ExchangeIndex(p(1)),
        instrument: InstrumentIndex(INDEX_OFFSET + p(2)),
        strategy: StrategyId::new(format!("s{}", p(3))),
        cid: ClientOrderId::new(format!("c{}", p(4))),
    };
    if op[0] == "open" {
        let (side, price, quantity, kind, time_in_force) = body_fields(p(5) as u64);
        ExecutionRequest::Open(OrderEvent { key, state: RequestOpen { side, price, quantity, kind, time_in_force } })
    } else {
        ExecutionRequest::Cancel(OrderEvent { key, state: RequestCancel { id: cancel_id(p(5) as u64) } })
    }
}

fn run() {
    run_cases(|case, lines| {
        let rt = tokio::runtime::Builder::new_current_thread()
            .enable_time()
            .start_paused(true)
            .build()
            .unwrap();
        rt.block_on(async {
            let mut live: Option<Live> = None;
            for op in &case.ops {
                lines.push("@".into());
                let mut burst = false;
                match op[0].as_str() {
                    "init" => {
                        let n_assets = op.get(3).map(|m| m.parse().unwrap()).unwrap_or(0);
                        let own_exchange = op.get(4).map(|x| x.parse().unwrap()).unwrap_or(0);
                        let mode = op.get(5).map(|s| s.as_str()).unwrap_or("new");
                        live =
                            Some(start(op[1].parse().unwrap(), op[2].parse().unwrap(), n_assets, own_exchange, mode).await);
                    }
                    "open" | "cancel" => {
                        let l = live.as_mut().expect("init first");
                        if l.status == "running" {
                            l.client.scripts.lock().unwrap().push_back(parse_script(op));
                            if let Some(tx) = &l.req_tx {
                                let _ = tx.send(request(op));
                            }
                        }
                    }
                    // part of a burst: sent without yielding, the manager task does not run before the
                    // next op that does (it then finds all of them queued in one wake-up)
                    "open+" | "cancel+" => {
                        let l = live.as_mut().expect("init first");
                        if l.status == "running" {
                            let mut op2 = op.clone();
                            op2[0] = op[0].trim_end_matches('+').to_string();
                            l.client.scripts.lock().unwrap().push_back(parse_script(&op2));
                            if let Some(tx) = &l.req_tx {
                                let _ = tx.send(request(&op2));
                            }
                        }
                        burst = true;
                    }
                    "adv" => tokio::time::sleep(ticks(op[1].parse().unwrap())).await,
                    "jump" => tokio::time::advance(ticks(op[1].parse().unwrap())).await,
                    "shutdown" => {
                        let l = live.as_mut().expect("init first");
                        if let Some(tx) = &l.req_tx {
                            let _ = tx.send(ExecutionRequest::Shutdown);
                        }
                    }
                    // the request stream ENDS (every sender dropped) while requests may be outstanding
                    "close" => live.as_mut().expect("init first").req_tx = None,
                    other => panic!("bad op {other}"),
                }
                observe(live.as_mut().expect("init first"), lines, !burst).await;
            }
        });
    });
}

// ------------------------------------------------------------------------------------ generator

struct Gen {
    rng: Rng,
    n: usize,
    /// configured assets
    m: usize,
    t: u64,
    faithful_pct: u64,
    /// the manager's own exchange (0 in the main family)
    x: usize,
    /// % of opens with a body code >= 60 (`EXOTIC`) and the fills codes 4 / 5 (0 in the main family)
    exotic_pct: u64,
    /// delays around a LARGE timeout: T-1 / T / T+1 / 2T next to 0 / 1 / never
    near_t: bool,
}

impl Gen {
    fn delay(&mut self) -> String {
        let t = self.t;
        if self.near_t {
            return match self.rng.below(10) {
                0 => "0".into(),
                1 => "1".into(),
                2 | 3 => (t - 1).to_string(),
                4 | 5 => t.to_string(),
                6 | 7 => (t + 1).to_string(),
                8 => (2 * t).to_string(),
                _ => "never".into(),
            };
        }
        // {0, <T, =T, >T, never}
        match self.rng.below(8) {
            0 => "0".into(),
            1 | 2 => (if t > 1 { self.rng.range(1, t as i64 - 1) as u64 } else { 0 }).to_string(),
            3 | 4 => t.to_string(),
            5 => (t + 1).to_string(),
            6 => (t + self.rng.range(1, 4) as u64).to_string(),
            _ => "never".into(),
        }
    }

    fn request(&mut self, bad_key: bool) -> String {
        let open = self.rng.chance(55);
        // an exchange that is not the manager's own: the first one (index 0) for a manager that is not the first
        let other = if self.x == 0 { 1 } else { 0 };
        let ex = if bad_key && self.rng.chance(50) { other } else { self.x };
        let ins = if bad_key && ex == self.x { self.n + self.rng.below(2) as usize } else { self.rng.below(self.n as u64) as usize };
        let strat = self.rng.below(2);
        let cid = self.rng.below(4);
        // opens: side / price / quantity x Limit|Market x time in force; cancels: `id` None | Some(o<k>)
        let exotic = open && self.exotic_pct > 0 && self.rng.chance(self.exotic_pct);
        let body = if exotic {
            60 + self.rng.below(BODY_CODES - 60)
        } else if open {
            let kind = if self.rng.chance(30) { 1 } else { 0 };
            let tif = if self.rng.chance(45) { self.rng.below(5) } else { 0 };
            self.rng.below(5) + 6 * kind + 12 * tif
        } else if self.rng.chance(40) {
            1 + self.rng.below(3)
        } else {
            0
        };
        let delay = self.delay();
        let mut reply = match self.rng.below(20) {
            0..=9 => "ok".to_string(),
            10..=12 => "rej".to_string(),
            13 => format!("inv{}", self.rng.below(self.n as u64)),
            // Connectivity errors as the CLIENT's answer (incl. the manager's own error value, Timeout)
            14 | 15 => self.rng.pick(&["conn_timeout", "conn_timeout", "conn_offline", "conn_socket"]).to_string(),
            // asset-carrying API errors: configured assets here (unknown ones below: unfaithful clients)
            16 | 17 if self.m > 0 => {
                format!("{}{}", self.rng.pick(&["bal", "bal", "ainv"]), self.rng.below(self.m as u64))
            }
            16 | 17 => "rej".to_string(),
            _ => self.rng.pick(&["rate", "acx", "aff"]).to_string(),
        };
        // filled quantity of an accepted open: nothing / all (fully filled) / half (partial fill) / over-fill
        let fills = if open && self.exotic_pct > 0 {
            *self.rng.pick(&[0u8, 0, 1, 1, 2, 2, 3, 4, 4, 4, 5, 5])
        } else if open {
            *self.rng.pick(&[0u8, 0, 0, 0, 1, 1, 2, 2, 2, 3])
        } else {
            0
        };
        // payload of the answer: order id / error text, exchange time
        let oid = self.rng.below(5);
        let tex = self.rng.below(7);
        let (mut eex, mut eins, mut estrat, mut ecid, mut ebody) = (ex, ins, strat, cid, if open { body } else { 0 });
        if !self.rng.chance(self.faithful_pct) {
            match self.rng.below(9) {
                // unknown ASSET name in the error: the response cannot be indexed and is filtered
                7 | 8 => {
                    reply = format!("{}{}", self.rng.pick(&["bal", "ainv"]), self.m + self.rng.below(2) as usize)
                }
                0 => eex = other,
                1 => eins = self.n + self.rng.below(2) as usize, // unknown instrument name
                2 => eins = (ins + 1) % self.n.max(1),           // another (or the same) configured instrument
                3 => ecid = cid + 1,
                4 => estrat = strat + 1,
                5 => {
                    if open {
                        ebody = if body + 1 < BODY_CODES { body + 1 } else { 60 }
                    } else {
                        ecid = cid + 2
                    }
                }
                _ => reply = format!("inv{}", self.n + self.rng.below(2) as usize), // unknown name in the error
            }
        }
        format!(
            "{} {ex} {ins} {strat} {cid} {body} {delay} {reply} {fills} {eex} {eins} {estrat} {ecid} {ebody} {oid} {tex}",
            if open { "open" } else { "cancel" }
        )
    }
}

/// what an input-domain family changes of a random case (`default()` = the main family, unchanged)
#[derive(Default)]
struct Family {
    /// request timeout (None: drawn from {0,1,2,3,5,8})
    t: Option<u64>,
    /// the manager's own exchange
    x: usize,
    exotic_pct: u64,
    /// size of the first batch
    batch: Option<(i64, i64)>,
    /// a silence of this many ticks after every round
    idle: u64,
    empty: bool,
    /// CONFIGURATION shape: how the manager is assembled (`init T n m x mode`; None: the 2-5 token `init` = `new`)
    mode: Option<&'static str>,
    /// the request channel is closed (`close`) instead of `Shutdown` being sent - in every case of the family
    close: bool,
}

fn random_case(out: &mut Out, rng: &mut Rng, id: String, thorough: bool, fam: &Family) {
    out.case(id);
    let n = rng.range(1, 3) as usize;
    let mut t = *rng.pick(&[0u64, 1, 2, 3, 5, 8]);
    if let Some(big) = fam.t {
        t = big;
    }
    // configured assets: none (as the manager was configured before the alphabet was extended; 2-arg init),
    // or 1-3
    let m = *rng.pick(&[0usize, 1, 2, 2, 3]);
    if let Some(mode) = fam.mode {
        out.line(format!("init {t} {n} {m} {} {mode}", fam.x));
    } else if fam.x != 0 {
        out.line(format!("init {t} {n} {m} {}", fam.x));
    } else if m == 0 {
        out.line(format!("init {t} {n}"));
    } else {
        out.line(format!("init {t} {n} {m}"));
    }
    let mut g = Gen { rng: rng.fork(), n, m, t, faithful_pct: *rng.pick(&[100u64, 100, 92, 70]),
        x: fam.x,
        exotic_pct: fam.exotic_pct,
        near_t: t >= 50,
    };
    if fam.empty {
        for _ in 0..g.rng.range(1, 4) {
            let dt = g.rng.range(0, t as i64 + 2);
            out.line(format!("{} {dt}", if g.rng.chance(30) { "jump" } else { "adv" }));
        }
        if g.rng.chance(60) {
            out.line(if fam.close { "close" } else { "shutdown" });
            out.line("adv 1");
        }
        return;
    }
    let max_batch = if thorough { 40 } else { 24 };
    let rounds = g.rng.range(1, 4);
    let panic_case = g.rng.chance(3);
    let shutdown_case = g.rng.chance(12) || fam.close;
    for round in 0..rounds {
        let mut batch = match g.rng.below(4) {
            0 => g.rng.range(1, 3),
            1 | 2 => g.rng.range(2, 10),
            _ => g.rng.range(8, max_batch),
        };
        if let Some((lo, hi)) = fam.batch {
            // the first round is the large one
            if round == 0 {
                batch = g.rng.range(lo, hi);
            }
        }
        // bursts: runs of requests sent without yielding, so the manager finds several of them
        // (and possibly the instant responses of the first ones) in one wake-up
        let bursty = g.rng.chance(50);
        let mut open_burst = false;
        for _ in 0..batch {
            let mut r = g.request(false);
            open_burst = bursty && g.rng.chance(60);
            if open_burst {
                r = r.replacen("open ", "open+ ", 1).replacen("cancel ", "cancel+ ", 1);
            }
            out.line(r);
            if g.rng.chance(if fam.batch.is_some() { 3 } else { 15 }) {
                let dt = g.rng.range(0, 2);
                out.line(format!("adv {dt}"));
                open_burst = false;
            }
        }
        if open_burst {
            // a burst ends at the instant it was sent: the manager takes the requests in before the
            // clock moves (a `jump` right after a burst would move the intake, and with it every
            // deadline, to the later instant)
            out.line("adv 0");
        }
        if panic_case && round == rounds - 1 {
            let r = g.request(true);
            out.line(r);
        }
        if shutdown_case && round == rounds / 2 {
            out.line(if fam.close { "close" } else { "shutdown" });
        }
        // let time pass: single ticks, exact timeout, jumps over both response and deadline
        let steps = g.rng.range(1, 5);
        for _ in 0..steps {
            let dt = match g.rng.below(5) {
                0 => 1,
                1 => t,
                2 => t + 1,
                3 => g.rng.range(0, 3) as u64,
                _ => g.rng.range(0, t as i64 + 5) as u64,
            };
            let late = g.rng.chance(30);
            out.line(format!("{} {dt}", if late { "jump" } else { "adv" }));
        }
        if fam.idle > 0 {
            // a long silence (everything outstanding is long resolved), then the next round
            out.line(format!("{} {}", if g.rng.chance(30) { "jump" } else { "adv" }, fam.idle));
        }
    }
    // drain: beyond every deadline
    if g.rng.chance(85) {
        out.line(format!("adv {}", t + 6));
    }
}

fn generate(seed: u64, n_cases: usize, tier: &str) {
    let mut out = Out::new();
    let mut rng = Rng::new(seed);
    let mut id = 0usize;
    let thorough = tier == "thorough";
    if thorough {
        // small scope, exhaustive: T = 2, two requests (kind x delay in {0,1,2,3,never}) sent 0 or 1
        // ticks apart, then every time script of a fixed family
        let delays = ["0", "1", "2", "3", "never"];
        let scripts: [&[&str]; 9] = [
            &["adv 1", "adv 1", "adv 1", "adv 1", "adv 1"],
            &["adv 2", "adv 2"],
            &["adv 5"],
            &["jump 1", "jump 1", "jump 1", "jump 1", "jump 1"],
            &["jump 2", "adv 2"],
            &["jump 3", "adv 1"],
            &["jump 5"],
            &["adv 1", "jump 4"],
            &["adv 1", "shutdown", "adv 5"],
        ];
        // the first client answers `ok` or - the manager's own error value as the CLIENT's answer -
        // `Err(Connectivity(Timeout))` (the latter family only for the answering delays)
        for r1 in ["ok", "conn_timeout"] {
            for k1 in ["open", "cancel"] {
                for k2 in ["open", "cancel"] {
                    for d1 in delays {
                        if r1 != "ok" && d1 == "never" {
                            continue;
                        }
                        for d2 in delays {
                            for gap in [0, 1] {
                                for sc in scripts {
                                    id += 1;
                                    out.case(format!("x{id}"));
                                    out.line("init 2 2");
                                    let b1 = if k1 == "open" { 3 } else { 0 };
                                    let b2 = if k2 == "open" { 4 } else { 0 };
                                    out.line(format!("{k1} 0 0 1 7 {b1} {d1} {r1} 0 0 0 1 7 {b1}"));
                                    if gap > 0 {
                                        out.line(format!("adv {gap}"));
                                    }
                                    out.line(format!("{k2} 0 1 1 7 {b2} {d2} rej 0 0 1 1 7 {b2}"));
                                    for l in sc {
                                        out.line(l);
                                    }
                                }
                            }
                        }
                    }
                }
            }
        }
    }
    for _ in 0..n_cases {
        id += 1;
        random_case(&mut out, &mut rng, format!("r{id}"), thorough, &Family::default());
    }
    // INPUT-DOMAIN families (separately seeded: the cases above are what they were): n/4 more cases
    let mut drng = Rng::new(seed ^ 0x00D0_3A17_C07D_0C07);
    for k in 0..n_cases / 4 {
        let fam = match k % 8 {
            // a manager that is NOT the first exchange of the system (own exchange index / id 1..3)
            0 | 1 => Family { x: 1 + drng.below(3) as usize, ..Family::default() },
            // Decimal domain of price / quantity / filled quantity
            2 | 3 => Family { exotic_pct: 70, ..Family::default() },
            // more than 32 requests outstanding at once
            4 => Family {
                batch: Some((33, if thorough { 200 } else { 90 })),
                t: Some(*drng.pick(&[2u64, 3, 5, 8])),
                ..Family::default()
            },
            // a large timeout (delays T-1 / T / T+1) and long idle gaps between the rounds
            5 => Family {
                t: Some(*drng.pick(&[50u64, 1000, 100_000])),
                idle: *drng.pick(&[0u64, 700, 250_000]),
                ..Family::default()
            },
            // all of it at once
            6 => Family {
                x: 1 + drng.below(3) as usize,
                exotic_pct: 50,
                batch: Some((20, 50)),
                t: Some(*drng.pick(&[0u64, 2, 50])),
                idle: *drng.pick(&[0u64, 0, 300]),
                ..Family::default()
            },
            // no request at all: time passes, then shutdown
            _ => Family { empty: true, ..Family::default() },
        };
        random_case(&mut out, &mut drng, format!("d{}", k + 1), thorough, &fam);
    }
    // CONFIGURATION-SHAPE families (separately seeded: the cases above are what they were): n/4 more cases `cfg<k>`
    let mut crng = Rng::new(seed ^ 0x0C0F_165A_C07C_F607);
    for k in 0..n_cases / 4 {
        let mode = |r: &mut Rng| Some(*r.pick(&["ip", "il", "ie"]));
        let fam = match k % 8 {
            // assembled as `ExecutionBuilder` does: `ExecutionManager::init`, responses read from the merged account
            // stream; the client's account stream pending / live / ending-and-reconnecting
            0 => Family { mode: Some("ip"), ..Family::default() },
            1 => Family { mode: Some("il"), x: crng.below(4) as usize, ..Family::default() },
            2 => Family { mode: Some("ie"), x: crng.below(4) as usize, ..Family::default() },
            // the request channel is CLOSED while requests are outstanding (`new` and `init` assemblies)
            3 => Family { close: true, mode: Some("new"), ..Family::default() },
            4 => Family { close: true, mode: mode(&mut crng), x: crng.below(4) as usize, ..Family::default() },
            // a HUGE request timeout: 1e7 ticks (28 h), 1e9 ticks (116 days), 3e9 ticks (347 days; 2T is just below the
            // 2^36 ms = 2.2 years tokio's timers reach); delays 0 / 1 / T-1 / T / T+1 / 2T / never
            5 => Family {
                t: Some(*crng.pick(&[10_000_000u64, 1_000_000_000, 3_000_000_000])),
                mode: Some(*crng.pick(&["new", "ip"])),
                ..Family::default()
            },
            // no request at all, then the channel is closed
            6 => Family { empty: true, close: true, mode: mode(&mut crng), ..Family::default() },
            // several at once: `init` assembly, a non-first exchange, many outstanding, closed channel
            _ => Family {
                mode: mode(&mut crng),
                x: 1 + crng.below(3) as usize,
                batch: Some((20, 50)),
                close: crng.chance(50),
                exotic_pct: 30,
                ..Family::default()
            },
        };
        random_case(&mut out, &mut crng, format!("cfg{}", k + 1), thorough, &fam);
    }
    out.flush();
}

fn main() {
    let a = args();
    match a.cmd.as_str() {
        "gen" => generate(a.seed, a.n, &a.tier),
        "run" => run(),
        _ => {
            eprintln!("usage: c07 gen <seed> <n> <tier> | run < cases");
            std::process::exit(2)
        }
    }
}
