//! C09 — staleness. Timestamped balances (single + full account snapshots), public trades, L1 books
//! and open-order reports delivered in arbitrary order through `EngineState::update_from_account` /
//! `update_from_market`; observes every register after each delivery.
//! Order reports include TERMINAL ones (`ordx`: cancelled / fully filled / expired / failed) and full
//! account snapshots that carry balances and order reports together (`acct`).
use barter::engine::state::trading::TradingState;
use barter_data::{
    books::{Level, OrderBook},
    event::{DataKind, MarketEvent},
    subscription::{
        book::{OrderBookEvent, OrderBookL1},
        candle::Candle,
        liquidation::Liquidation,
        trade::PublicTrade,
    },
};
use barter_execution::{
    AccountEvent, AccountEventKind, AccountSnapshot, InstrumentAccountSnapshot,
    balance::{AssetBalance, Balance},
    error::{ApiError, OrderError},
    order::{
        Order, OrderKey, OrderKind, TimeInForce,
        id::{ClientOrderId, OrderId, StrategyId},
        state::{Cancelled, InactiveOrderState, Open, OrderState},
    },
};
use barter_instrument::{
    Side, asset::AssetIndex, exchange::ExchangeIndex, instrument::InstrumentIndex,
};
use barter_integration::snapshot::Snapshot;
use rust_decimal::Decimal;
use vh::{engine_util::*, *};

struct Maps {
    instruments: Vec<usize>,
    assets: Vec<usize>,
    /// exchange LABEL of every instrument label / asset label (`init n x …`; all 0 for `init n`)
    ins_ex: Vec<usize>,
    asset_ex: Vec<usize>,
    /// exchange label -> position in the engine's exchange index
    ex_index: Vec<usize>,
}

impl Maps {
    fn ins_exchange(&self, i: usize) -> ExchangeIndex {
        ExchangeIndex(self.ex_index[self.ins_ex[i]])
    }
    fn asset_exchange(&self, a: usize) -> ExchangeIndex {
        ExchangeIndex(self.ex_index[self.asset_ex[a]])
    }
}

fn observe(engine: &TestEngine, maps: &Maps, lines: &mut Vec<String>) {
    for (a, idx) in maps.assets.iter().enumerate() {
        let st = engine.state.assets.asset_index(&AssetIndex(*idx));
        lines.push(match &st.balance {
            None => format!("bal{a} none"),
            Some(t) => format!(
                "bal{a} {} {},{}",
                (t.time - t0()).num_milliseconds(),
                fmt_dec(t.value.total),
                fmt_dec(t.value.free)
            ),
        });
    }
    for (i, idx) in maps.instruments.iter().enumerate() {
        let d = &engine.state.instruments.instrument_index(&InstrumentIndex(*idx)).data;
        lines.push(match &d.last_traded_price {
            None => format!("trade{i} none"),
            Some(t) => format!("trade{i} {} {}", (t.time - t0()).num_milliseconds(), fmt_dec(t.value)),
        });
    }
    for (i, idx) in maps.instruments.iter().enumerate() {
        let d = &engine.state.instruments.instrument_index(&InstrumentIndex(*idx)).data;
        lines.push(match (&d.l1.best_bid, &d.l1.best_ask) {
            (Some(b), Some(a)) => format!(
                "l1{i} {} {},{},{},{}",
                (d.l1.last_update_time - t0()).num_milliseconds(),
                fmt_dec(b.price),
                fmt_dec(b.amount),
                fmt_dec(a.price),
                fmt_dec(a.amount)
            ),
            // ONE side absent (a legal top of book: nothing resting on the other side): the absent side is
            // written `-1,-1`, exactly as the op line writes it
            (b, a) if b.is_some() != a.is_some() => {
                let side = |l: &Option<Level>| match l {
                    Some(l) => format!("{},{}", fmt_dec(l.price), fmt_dec(l.amount)),
                    None => "-1,-1".to_string(),
                };
                format!("l1{i} {} {},{}", (d.l1.last_update_time - t0()).num_milliseconds(), side(b), side(a))
            }
            // both sides absent: the never-set default book (epoch timestamp) or a delivered EMPTY book
            _ if d.l1.last_update_time != chrono::DateTime::<chrono::Utc>::default() => {
                format!("l1{i} {} empty", (d.l1.last_update_time - t0()).num_milliseconds())
            }
            _ => format!("l1{i} none"),
        });
    }
    for (i, idx) in maps.instruments.iter().enumerate() {
        let orders = &engine.state.instruments.instrument_index(&InstrumentIndex(*idx)).orders.0;
        for c in [1, 2] {
            lines.push(match orders.get(&ClientOrderId::new(c.to_string())).map(|o| &o.state) {
                None => format!("ord{i}_{c} none"),
                // the exchange-confirmed details, inside `Open` or inside `CancelInFlight`
                Some(st) => match st.open_meta() {
                    Some(o) => format!(
                        "ord{i}_{c} O({},{},{})",
                        o.id.0,
                        (o.time_exchange - t0()).num_milliseconds(),
                        fmt_dec(o.filled_quantity)
                    ),
                    None => format!("ord{i}_{c} F"),
                },
            });
        }
    }
}

/// an order report for `(instrument idx, client order id cid)`: quantity 10, price 100
fn order_report(ex: ExchangeIndex, idx: InstrumentIndex, cid: &str, state: OrderState) -> Order {
    Order {
        key: OrderKey {
            exchange: ex,
            instrument: idx,
            strategy: StrategyId::new("verif"),
            cid: ClientOrderId::new(cid),
        },
        side: Side::Buy,
        price: Decimal::from(100),
        quantity: Decimal::from(10),
        kind: OrderKind::Limit,
        time_in_force: TimeInForce::GoodUntilCancelled { post_only: false },
        state,
    }
}

/// one side of an `l1` op: price and amount, or `-1 -1` for an absent side
fn l1_side(p: &str, a: &str) -> Option<Level> {
    if p == "-1" && a == "-1" {
        None
    } else {
        Some(Level::new(parse_dec(p), parse_dec(a)))
    }
}

fn open_state(id: &str, t: &str, filled: &str) -> OrderState {
    OrderState::active(Open {
        id: OrderId::new(id),
        time_exchange: time_ms(t.parse().unwrap()),
        filled_quantity: parse_dec(filled),
    })
}

/// terminal order states; `t` is the exchange time of a `Cancelled` report
fn terminal_state(kind: &str, t: &str) -> OrderState {
    match kind {
        "Cancelled" => OrderState::inactive(Cancelled {
            id: OrderId::new("x"),
            time_exchange: time_ms(t.parse().unwrap()),
        }),
        "Filled" => OrderState::fully_filled(),
        "Expired" => OrderState::expired(),
        "Failed" => OrderState::inactive(InactiveOrderState::OpenFailed(OrderError::Rejected(
            ApiError::OrderRejected("rejected".into()),
        ))),
        other => panic!("bad terminal kind {other}"),
    }
}

fn run() {
    run_cases(|case, lines| {
        let mut built: Option<Built> = None;
        let mut maps = Maps { instruments: vec![], assets: vec![], ins_ex: vec![], asset_ex: vec![], ex_index: vec![] };
        let mut n = 0usize;
        // number of asset labels: n + 1 for `init n`, n + x for `init n x …`
        let mut na = 0usize;
        for (op_index, op) in case.ops.iter().enumerate() {
            lines.push("@".into());
            if op[0] == "init" && op.len() > 2 {
                // CONFIGURATION family: `init n x (B a total free)*` - the n instruments are spread over x
                // exchanges (instrument label i = a<i>/usdt on exchange label i % x, 1 <= x <= min(n, 5), so
                // every exchange trades something and `usdt` exists once PER exchange); asset labels:
                // 0..n-1 = a<i> (on exchange i % x), n + e = usdt on exchange label e; every `B a total free`
                // is an INITIAL balance given to `EngineStateBuilder::balances` (stamped by the builder with
                // `time_engine_start` = t0, i.e. exchange time 0): a message delivered at time 0
                let nn: usize = op[1].parse().unwrap();
                let x: usize = op[2].parse().unwrap();
                let items: Vec<&[String]> = op[3..].chunks(4).collect();
                let ok = (1..=EXCHANGES.len()).contains(&x)
                    && x <= nn
                    && items.iter().all(|c| c.len() == 4 && c[0] == "B" && c[1].parse::<usize>().is_ok_and(|a| a < nn + x))
                    && {
                        let mut seen: Vec<&str> = items.iter().map(|c| c[1].as_str()).collect();
                        seen.sort();
                        seen.windows(2).all(|w| w[0] != w[1])
                    };
                if !ok {
                    lines.push("bad-op".into());
                    continue;
                }
                n = nn;
                na = n + x;
                let names: Vec<String> = (0..n).map(|i| format!("a{i}")).collect();
                let defs: Vec<(usize, &str, &str)> =
                    names.iter().enumerate().map(|(i, b)| (i % x, b.as_str(), "usdt")).collect();
                let instruments = build_instruments(&defs);
                let mut b = build_engine(&instruments, &[], TradingState::Disabled);
                maps.ins_ex = (0..n).map(|i| i % x).collect();
                maps.asset_ex = (0..na).map(|a| if a < n { a % x } else { a - n }).collect();
                maps.ex_index = (0..x)
                    .map(|e| instruments.exchanges().iter().position(|k| k.value == EXCHANGES[e]).unwrap())
                    .collect();
                let asset_name = |a: usize| if a < n { format!("a{a}") } else { "usdt".to_string() };
                // the starting state, assembled as a user does: builder + initial balances
                use barter::engine::state::{
                    EngineState, global::DefaultGlobalData, instrument::data::DefaultInstrumentMarketData,
                };
                use barter_instrument::asset::name::AssetNameInternal;
                let state: State = EngineState::builder(
                    &instruments,
                    DefaultGlobalData::default(),
                    DefaultInstrumentMarketData::default,
                )
                .time_engine_start(t0())
                .trading_state(TradingState::Disabled)
                .balances(items.iter().map(|c| {
                    let a: usize = c[1].parse().unwrap();
                    (
                        EXCHANGES[maps.asset_ex[a]],
                        AssetNameInternal::new(asset_name(a)),
                        Balance::new(parse_dec(&c[2]), parse_dec(&c[3])),
                    )
                }))
                .build();
                b.engine.state = state;
                maps.instruments = (0..n)
                    .map(|i| {
                        b.engine.state.instruments.0.values()
                            .position(|s| s.instrument.name_internal.name().as_str() == format!("a{i}_usdt_x{}", i % x))
                            .unwrap()
                    })
                    .collect();
                maps.assets = (0..na)
                    .map(|a| {
                        b.engine.state.assets.0.keys()
                            .position(|k| k.exchange == EXCHANGES[maps.asset_ex[a]] && k.asset.name().as_str() == asset_name(a))
                            .unwrap()
                    })
                    .collect();
                built = Some(b);
                observe(&built.as_ref().unwrap().engine, &maps, lines);
                continue;
            }
            if op[0] == "init" {
                n = op[1].parse().unwrap();
                na = n + 1;
                maps.ins_ex = vec![0; n];
                maps.asset_ex = vec![0; n + 1];
                maps.ex_index = vec![0];
                let names: Vec<String> = (0..n).map(|i| format!("a{i}")).collect();
                let defs: Vec<(usize, &str, &str)> =
                    names.iter().map(|b| (0usize, b.as_str(), "usdt")).collect();
                let instruments = build_instruments(&defs);
                let b = build_engine(&instruments, &[], TradingState::Disabled);
                maps.instruments = (0..n)
                    .map(|i| {
                        b.engine.state.instruments.0.values()
                            .position(|s| s.instrument.name_internal.name().as_str() == format!("a{i}_usdt_x0"))
                            .unwrap()
                    })
                    .collect();
                // asset labels: 0..n-1 = a<i>, n = usdt
                maps.assets = (0..=n)
                    .map(|a| {
                        let name = if a == n { "usdt".to_string() } else { format!("a{a}") };
                        b.engine.state.assets.0.keys()
                            .position(|k| k.asset.name().as_str() == name)
                            .unwrap()
                    })
                    .collect();
                built = Some(b);
                observe(&built.as_ref().unwrap().engine, &maps, lines);
                continue;
            }
            let engine = &mut built.as_mut().expect("init first").engine;
            let bal_item = |t: &[String]| -> Option<AssetBalance<AssetIndex>> {
                let a: usize = t[0].parse().unwrap();
                if a >= na {
                    return None;
                }
                Some(AssetBalance {
                    asset: AssetIndex(maps.assets[a]),
                    balance: Balance::new(parse_dec(&t[2]), parse_dec(&t[3])),
                    time_exchange: time_ms(t[1].parse().unwrap()),
                })
            };
            match op[0].as_str() {
                "bal" => {
                    let Some(b) = bal_item(&op[1..5]) else { lines.push("panic".into()); continue };
                    engine.state.update_from_account(&AccountEvent {
                        exchange: maps.asset_exchange(op[1].parse().unwrap()),
                        kind: AccountEventKind::BalanceSnapshot(Snapshot(b)),
                    });
                }
                "full" => {
                    let items: Vec<_> = op[1..].chunks(4).map(bal_item).collect();
                    if items.iter().any(|x| x.is_none()) {
                        lines.push("panic".into());
                        continue;
                    }
                    // the event is attributed to the exchange of the first item it carries
                    let ex = op.get(1).map(|a| maps.asset_exchange(a.parse().unwrap())).unwrap_or(ExchangeIndex(0));
                    engine.state.update_from_account(&AccountEvent {
                        exchange: ex,
                        kind: AccountEventKind::Snapshot(AccountSnapshot {
                            exchange: ex,
                            balances: items.into_iter().map(|x| x.unwrap()).collect(),
                            instruments: vec![],
                        }),
                    });
                }
                "acct" => {
                    // one full account snapshot: balances AND order reports (open / terminal), each
                    // order in its own InstrumentAccountSnapshot, in the order given
                    let mut balances = vec![];
                    let mut instruments = vec![];
                    let mut bad = false;
                    // the event is attributed to the exchange of the first item it carries
                    let mut ex: Option<ExchangeIndex> = None;
                    let mut k = 1;
                    while k < op.len() {
                        match op[k].as_str() {
                            "B" => {
                                match bal_item(&op[k + 1..k + 5]) {
                                    Some(b) => {
                                        ex.get_or_insert(maps.asset_exchange(op[k + 1].parse().unwrap()));
                                        balances.push(b)
                                    }
                                    None => bad = true,
                                }
                                k += 5;
                            }
                            "O" | "X" => {
                                let i: usize = op[k + 1].parse().unwrap();
                                if i >= n {
                                    bad = true;
                                } else {
                                    let idx = InstrumentIndex(maps.instruments[i]);
                                    ex.get_or_insert(maps.ins_exchange(i));
                                    let state = if op[k] == "O" {
                                        open_state(&op[k + 3], &op[k + 4], &op[k + 5])
                                    } else {
                                        terminal_state(&op[k + 3], &op[k + 4])
                                    };
                                    instruments.push(InstrumentAccountSnapshot {
                                        instrument: idx,
                                        orders: vec![order_report(maps.ins_exchange(i), idx, &op[k + 2], state)],
                                    });
                                }
                                k += if op[k] == "O" { 6 } else { 5 };
                            }
                            other => panic!("bad acct item {other}"),
                        }
                    }
                    if bad {
                        lines.push("panic".into());
                        continue;
                    }
                    let ex = ex.unwrap_or(ExchangeIndex(0));
                    engine.state.update_from_account(&AccountEvent {
                        exchange: ex,
                        kind: AccountEventKind::Snapshot(AccountSnapshot {
                            exchange: ex,
                            balances,
                            instruments,
                        }),
                    });
                }
                "trade" | "l1" | "l1e" | "ord" | "cancel" | "ordx" | "mkt" => {
                    let i: usize = op[1].parse().unwrap();
                    if i >= n {
                        lines.push("panic".into());
                        continue;
                    }
                    let idx = InstrumentIndex(maps.instruments[i]);
                    let ex = maps.ins_exchange(i);
                    let ex_id = EXCHANGES[maps.ins_ex[i]];
                    match op[0].as_str() {
                        "cancel" => {
                            use barter::engine::state::order::in_flight_recorder::InFlightRequestRecorder;
                            use barter_execution::order::request::{OrderRequestCancel, RequestCancel};
                            engine.state.record_in_flight_cancel(&OrderRequestCancel {
                                key: OrderKey {
                                    exchange: ex,
                                    instrument: idx,
                                    strategy: StrategyId::new("verif"),
                                    cid: ClientOrderId::new(op[2].as_str()),
                                },
                                state: RequestCancel { id: None },
                            });
                        }
                        "ordx" => {
                            let order = order_report(ex, idx, &op[2], terminal_state(&op[3], &op[4]));
                            engine.state.update_from_account(&AccountEvent {
                                exchange: ex,
                                kind: AccountEventKind::OrderSnapshot(Snapshot(order)),
                            });
                        }
                        "trade" => {
                            let t = time_ms(op[2].parse().unwrap());
                            engine.state.update_from_market(&MarketEvent {
                                time_exchange: t,
                                // the local receive time is unrelated to the exchange time (a late message
                                // is RECEIVED late): always later than every exchange timestamp of the case
                                time_received: time_ms(10_000 + op_index as i64),
                                exchange: ex_id,
                                instrument: idx,
                                // optional: `B|S amount` (default: a buy of 1)
                                kind: DataKind::Trade(PublicTrade {
                                    id: "t".into(),
                                    price: op[3].parse::<f64>().unwrap(),
                                    amount: op.get(5).map(|a| a.parse::<f64>().unwrap()).unwrap_or(1.0),
                                    side: match op.get(4).map(|s| s.as_str()) {
                                        None | Some("B") => Side::Buy,
                                        Some("S") => Side::Sell,
                                        Some(other) => panic!("bad trade side {other}"),
                                    },
                                }),
                            });
                        }
                        "mkt" => {
                            // a market event of a kind that feeds NO register of this property: candle,
                            // liquidation, L2 book snapshot / update, all carrying the price `op[4]`
                            let t = time_ms(op[2].parse().unwrap());
                            let p = op[4].parse::<f64>().unwrap();
                            let book = || {
                                OrderBook::new(
                                    7,
                                    Some(t),
                                    vec![Level::new(parse_dec(&op[4]), Decimal::ONE)],
                                    vec![Level::new(parse_dec(&op[4]) + Decimal::ONE, Decimal::ONE)],
                                )
                            };
                            let kind = match op[3].as_str() {
                                "candle" => DataKind::Candle(Candle {
                                    close_time: t,
                                    open: p,
                                    high: p,
                                    low: p,
                                    close: p,
                                    volume: 3.0,
                                    trade_count: 2,
                                }),
                                "liq" => DataKind::Liquidation(Liquidation {
                                    side: Side::Sell,
                                    price: p,
                                    quantity: 1.0,
                                    time: t,
                                }),
                                "booksnap" => DataKind::OrderBook(OrderBookEvent::Snapshot(book())),
                                "bookupd" => DataKind::OrderBook(OrderBookEvent::Update(book())),
                                other => panic!("bad mkt kind {other}"),
                            };
                            engine.state.update_from_market(&MarketEvent {
                                time_exchange: t,
                                time_received: time_ms(10_000 + op_index as i64),
                                exchange: ex_id,
                                instrument: idx,
                                kind,
                            });
                        }
                        "l1e" => {
                            let te = time_ms(op[2].parse().unwrap());
                            let tl = time_ms(op[3].parse().unwrap());
                            engine.state.update_from_market(&MarketEvent {
                                time_exchange: te,
                                time_received: time_ms(10_000 + op_index as i64),
                                exchange: ex_id,
                                instrument: idx,
                                kind: DataKind::OrderBookL1(OrderBookL1 {
                                    last_update_time: tl,
                                    best_bid: None,
                                    best_ask: None,
                                }),
                            });
                        }
                        // both sides written absent: not an `l1` op (an empty book is `l1e`)
                        "l1" if l1_side(&op[4], &op[5]).is_none() && l1_side(&op[6], &op[7]).is_none() => {
                            lines.push("bad-op".into());
                            continue;
                        }
                        "l1" => {
                            let te = time_ms(op[2].parse().unwrap());
                            let tl = time_ms(op[3].parse().unwrap());
                            engine.state.update_from_market(&MarketEvent {
                                time_exchange: te,
                                time_received: time_ms(10_000 + op_index as i64),
                                exchange: ex_id,
                                instrument: idx,
                                kind: DataKind::OrderBookL1(OrderBookL1 {
                                    last_update_time: tl,
                                    // a side written `-1 -1` is ABSENT (one-sided top of book)
                                    best_bid: l1_side(&op[4], &op[5]),
                                    best_ask: l1_side(&op[6], &op[7]),
                                }),
                            });
                        }
                        _ => {
                            let order = order_report(ex, idx, &op[2], open_state(&op[3], &op[4], &op[5]));
                            engine.state.update_from_account(&AccountEvent {
                                exchange: ex,
                                kind: AccountEventKind::OrderSnapshot(Snapshot(order)),
                            });
                        }
                    }
                }
                other => panic!("bad op {other}"),
            }
            observe(engine, &maps, lines);
        }
    });
}

/// a pool of distinct messages for one item, then a delivery order = permutation with repetition
fn gen_case(rng: &mut Rng, out: &mut Out, tier: &str) {
    let n = rng.range(1, 2) as usize;
    out.line(format!("init {n}"));
    let mut pool: Vec<String> = vec![];
    let tmax = *rng.pick(&[2i64, 3, 6]);
    if rng.chance(20) {
        // the life of ONE order: 2-4 open reports with timestamps from 1..tmax, one terminal report, possibly a
        // cancel request and a full account snapshot that repeats some of it, delivered in random order with
        // repetition - so that stale open reports arrive AFTER the terminal one as often as before it
        let i = rng.below(n as u64);
        let c = rng.range(1, 2);
        let k = rng.range(2, 4);
        for u in 1..=k {
            let t = rng.range(1, tmax);
            let filled = *rng.pick(&[0, 5]);
            pool.push(format!("ord {i} {c} {u} {t} {filled}"));
        }
        let kind = *rng.pick(&["Cancelled", "Filled", "Expired", "Failed"]);
        pool.push(format!("ordx {i} {c} {kind} {}", rng.range(1, tmax)));
        if rng.chance(50) {
            pool.push(format!("cancel {i} {c}"));
        }
        if rng.chance(50) {
            let t = rng.range(1, tmax);
            let a = rng.below(n as u64 + 1);
            let item = if rng.chance(50) {
                format!("O {i} {c} 9 {t} 0")
            } else {
                format!("X {i} {c} {kind} {t}")
            };
            pool.push(format!("acct B {a} {t} 109 59 {item}"));
        }
        let deliveries = rng.range(pool.len() as i64, pool.len() as i64 * 2 + 2);
        for _ in 0..deliveries {
            out.line(rng.pick(&pool).clone());
        }
        return;
    }
    let npool = rng.range(1, if tier == "thorough" { 10 } else { 8 });
    let mut uid = 0;
    // values: mostly unique (so that the held value identifies the delivered message), but a third of
    // the cases draw values from a set of two, so that a NEWER message often carries the SAME value
    // as the held one (periodic snapshots of an unchanged balance / book / price)
    let few_values = rng.chance(33);
    for _ in 0..npool {
        uid += 1;
        if few_values {
            uid = 1 + rng.below(2) as i64;
        }
        let t = rng.range(1, tmax);
        match rng.below(100) {
            0..=29 => {
                let a = rng.below(n as u64 + 1);
                pool.push(format!("bal {a} {t} {} {}", 100 + uid, 50 + uid));
            }
            30..=39 => {
                let k = rng.range(1, 3);
                let mut s = String::from("full");
                for _ in 0..k {
                    uid += 1;
                    if few_values {
                        uid = 1 + rng.below(2) as i64;
                    }
                    let a = rng.below(n as u64 + 1);
                    let t = rng.range(1, tmax);
                    s += &format!(" {a} {t} {} {}", 100 + uid, 50 + uid);
                }
                pool.push(s);
            }
            40..=59 => {
                let i = rng.below(n as u64);
                pool.push(format!("trade {i} {t} {}.5", 100 + uid));
            }
            60..=79 => {
                let i = rng.below(n as u64);
                // 10%: payload time differs from the event time (model vs code only)
                let tl = if rng.chance(10) { rng.range(1, tmax) } else { t };
                if rng.chance(20) {
                    // an emptied / halted book
                    pool.push(format!("l1e {i} {t} {tl}"));
                } else {
                    pool.push(format!("l1 {i} {t} {tl} {} 1 {} 2", 100 + uid, 200 + uid));
                }
            }
            80..=89 => {
                let i = rng.below(n as u64);
                let c = rng.range(1, 2);
                let filled = *rng.pick(&[0, 5]);
                pool.push(format!("ord {i} {c} {uid} {t} {filled}"));
            }
            90..=92 => {
                // a TERMINAL report for the order (delivered repeatedly / before / after its open
                // reports like everything in the pool)
                let i = rng.below(n as u64);
                let c = rng.range(1, 2);
                let kind = *rng.pick(&["Cancelled", "Filled", "Expired", "Failed"]);
                pool.push(format!("ordx {i} {c} {kind} {t}"));
            }
            93..=95 => {
                // a full account snapshot carrying balances and order reports (open and terminal)
                let k = rng.range(1, 3);
                let mut s = String::from("acct");
                for _ in 0..k {
                    uid += 1;
                    if few_values {
                        uid = 1 + rng.below(2) as i64;
                    }
                    let t = rng.range(1, tmax);
                    match rng.below(3) {
                        0 => {
                            let a = rng.below(n as u64 + 1);
                            s += &format!(" B {a} {t} {} {}", 100 + uid, 50 + uid);
                        }
                        1 => {
                            let i = rng.below(n as u64);
                            let c = rng.range(1, 2);
                            let filled = *rng.pick(&[0, 5]);
                            s += &format!(" O {i} {c} {uid} {t} {filled}");
                        }
                        _ => {
                            let i = rng.below(n as u64);
                            let c = rng.range(1, 2);
                            let kind = *rng.pick(&["Cancelled", "Filled", "Expired", "Failed"]);
                            s += &format!(" X {i} {c} {kind} {t}");
                        }
                    }
                }
                pool.push(s);
            }
            _ => {
                // a cancel request for the order (delivered repeatedly like everything in the pool)
                let i = rng.below(n as u64);
                let c = rng.range(1, 2);
                pool.push(format!("cancel {i} {c}"));
            }
        }
    }
    let deliveries = rng.range(npool, npool * 2 + 2);
    for _ in 0..deliveries {
        out.line(rng.pick(&pool).clone());
    }
}


/// INPUT-DOMAIN family (separately seeded; the random cases above stay as they are). Same shape as
/// `gen_case` - a pool of messages delivered as a permutation with repetition - but every field is drawn
/// from the whole domain of its Rust type at the entry points rather than from "typical" values:
/// * exchange times from a per-case palette that includes 0, NEGATIVE offsets, ties, neighbours across a
///   second boundary (999/1000/1001 ms) and gaps of hours and days (12 h crosses midnight from t0 = 12:26:40Z,
///   so the later instant has the SMALLER time of day);
/// * balances: zero, free = total, free > total, negative, 1e-8, 1e12 next to distinguishable ordinary values;
/// * public trades: price 0 / 1e-8 / 1e12 / negative / 0.1 / six decimals, side Buy AND Sell, amount 0 / 2.5;
/// * top of book: both sides, ONE side only (bid-only / ask-only, written `-1 -1`), empty; amounts 0, prices 1e-8 / 1e12;
/// * open-order reports with filled in {0, q/2, q (nothing left: the code treats it as a terminal report), q+2 (over-fill)};
/// * market events of the kinds that feed no register (candle, liquidation, L2 snapshot / update: op `mkt`);
/// * EMPTY full account snapshots (`full` / `acct` without items); up to three instruments.
fn gen_dom_case(rng: &mut Rng, out: &mut Out) {
    let n = rng.range(1, 3) as usize;
    out.line(format!("init {n}"));
    const PALETTES: [&[i64]; 7] = [
        &[0, 1, 2],
        &[-3, -1, 0, 2],
        &[999, 1000, 1001],
        &[1, 43_200_000, 86_400_000],
        &[-86_400_000, 0, 3_600_000, 3_600_001],
        &[5, 5, 6],
        &[1, 2, 3, 4, 5, 6, 7, 8],
    ];
    let times: &[i64] = PALETTES[rng.below(PALETTES.len() as u64) as usize];
    const BALS: [(&str, &str); 9] = [
        ("0", "0"),
        ("7", "7"),
        ("7", "8"),
        ("-2.5", "-2.5"),
        ("3", "-1"),
        ("0.00000001", "0"),
        ("1000000000000", "500000000000.5"),
        ("0", "0.00000001"),
        ("12.345678", "0.000001"),
    ];
    const PRICES: [&str; 8] = ["0", "0.00000001", "1000000000000", "-5", "0.1", "123456.789", "0.000123", "99999999.99"];
    let mut uid = 0i64;
    let mut pool: Vec<String> = vec![];
    let npool = rng.range(2, 9);
    let bal = |rng: &mut Rng, uid: i64| -> (String, String) {
        if rng.chance(60) {
            let (t, f) = *rng.pick(&BALS);
            (t.to_string(), f.to_string())
        } else {
            ((100 + uid).to_string(), (50 + uid).to_string())
        }
    };
    for _ in 0..npool {
        uid += 1;
        let t = *rng.pick(times);
        match rng.below(100) {
            0..=21 => {
                let a = rng.below(n as u64 + 1);
                let (tot, free) = bal(rng, uid);
                pool.push(format!("bal {a} {t} {tot} {free}"));
            }
            22..=31 => {
                // 0-3 items: an EMPTY full snapshot is legal
                let k = rng.range(0, 3);
                let mut s = String::from("full");
                for _ in 0..k {
                    uid += 1;
                    let a = rng.below(n as u64 + 1);
                    let t = *rng.pick(times);
                    let (tot, free) = bal(rng, uid);
                    s += &format!(" {a} {t} {tot} {free}");
                }
                pool.push(s);
            }
            32..=49 => {
                let i = rng.below(n as u64);
                let p = if rng.chance(60) { rng.pick(&PRICES).to_string() } else { format!("{}.25", 100 + uid) };
                let side = *rng.pick(&["B", "S"]);
                let amount = *rng.pick(&["0", "1", "2.5", "0.00000001"]);
                pool.push(format!("trade {i} {t} {p} {side} {amount}"));
            }
            50..=69 => {
                let i = rng.below(n as u64);
                let px = |rng: &mut Rng, base: i64| -> String {
                    match rng.below(10) {
                        0 => "0.00000001".to_string(),
                        1 => "1000000000000".to_string(),
                        _ => (base + uid).to_string(),
                    }
                };
                let am = |rng: &mut Rng| -> &'static str { *rng.pick(&["0", "1", "2", "0.00000001", "1000000000"]) };
                match rng.below(10) {
                    0 | 1 => pool.push(format!("l1e {i} {t} {t}")),
                    2..=4 => pool.push(format!("l1 {i} {t} {t} {} {} -1 -1", px(rng, 100), am(rng))),
                    5..=7 => pool.push(format!("l1 {i} {t} {t} -1 -1 {} {}", px(rng, 200), am(rng))),
                    _ => pool.push(format!("l1 {i} {t} {t} {} {} {} {}", px(rng, 100), am(rng), px(rng, 200), am(rng))),
                }
            }
            70..=83 => {
                let i = rng.below(n as u64);
                let c = rng.range(1, 2);
                let filled = *rng.pick(&["0", "5", "5", "10", "10", "12", "10.0", "9.99999999"]);
                pool.push(format!("ord {i} {c} {uid} {t} {filled}"));
            }
            84..=86 => {
                let i = rng.below(n as u64);
                let c = rng.range(1, 2);
                let kind = *rng.pick(&["Cancelled", "Filled", "Expired", "Failed"]);
                pool.push(format!("ordx {i} {c} {kind} {t}"));
            }
            87..=91 => {
                // full account snapshot, 0-3 items (EMPTY included), open reports incl. fully filled ones
                let k = rng.range(0, 3);
                let mut s = String::from("acct");
                for _ in 0..k {
                    uid += 1;
                    let t = *rng.pick(times);
                    match rng.below(3) {
                        0 => {
                            let a = rng.below(n as u64 + 1);
                            let (tot, free) = bal(rng, uid);
                            s += &format!(" B {a} {t} {tot} {free}");
                        }
                        1 => {
                            let i = rng.below(n as u64);
                            let c = rng.range(1, 2);
                            let filled = *rng.pick(&["0", "5", "10", "12"]);
                            s += &format!(" O {i} {c} {uid} {t} {filled}");
                        }
                        _ => {
                            let i = rng.below(n as u64);
                            let c = rng.range(1, 2);
                            let kind = *rng.pick(&["Cancelled", "Filled", "Expired", "Failed"]);
                            s += &format!(" X {i} {c} {kind} {t}");
                        }
                    }
                }
                pool.push(s);
            }
            92..=96 => {
                let i = rng.below(n as u64);
                let kind = *rng.pick(&["candle", "liq", "booksnap", "bookupd"]);
                let p = *rng.pick(&["0.5", "77", "1000000000000", "0.00000001"]);
                pool.push(format!("mkt {i} {t} {kind} {p}"));
            }
            _ => {
                let i = rng.below(n as u64);
                let c = rng.range(1, 2);
                pool.push(format!("cancel {i} {c}"));
            }
        }
    }
    let deliveries = rng.range(npool, npool * 2 + 2);
    for _ in 0..deliveries {
        out.line(rng.pick(&pool).clone());
    }
}

/// CONFIGURATION family (separately seeded, ids cfg<n>; everything above stays as it is): the engine is
/// ASSEMBLED differently before the messages run - the instruments are spread over 1-3 exchanges (so `usdt`
/// exists once per exchange, an instrument's global index differs from its position on its exchange, and
/// account / market events carry other exchanges than the first one), and the starting state carries INITIAL
/// balances given to `EngineStateBuilder::balances` (stamped with the engine start time = exchange time 0) for
/// some assets and not for others. Then the usual pool of timestamped messages (times -2..3, so messages older
/// than, equal to and newer than the initial balances) delivered as a permutation with repetition.
fn gen_cfg_case(rng: &mut Rng, out: &mut Out) {
    let n = rng.range(1, 4) as usize;
    let x = rng.range(1, (n as i64).min(3)) as usize;
    let na = n + x;
    let mut init = format!("init {n} {x}");
    let mut uid = 0i64;
    for a in 0..na {
        // usdt balances are seeded more often than base balances (the usual back-test set-up)
        if rng.chance(if a >= n { 70 } else { 35 }) {
            uid += 1;
            let (tot, free) = *rng.pick(&[("1000", "1000"), ("500", "250"), ("0", "0"), ("7.5", "7.5")]);
            if rng.chance(50) {
                init += &format!(" B {a} {tot} {free}");
            } else {
                init += &format!(" B {a} {} {}", 900 + uid, 800 + uid);
            }
        }
    }
    out.line(init);
    let times: &[i64] = *rng.pick(&[&[-2i64, -1, 0, 1][..], &[0, 1, 2][..], &[1, 2, 3][..], &[-1, 0, 0, 3][..]]);
    let mut pool: Vec<String> = vec![];
    let npool = rng.range(2, 9);
    for _ in 0..npool {
        uid += 1;
        let t = *rng.pick(times);
        match rng.below(100) {
            0..=39 => {
                let a = rng.below(na as u64);
                pool.push(format!("bal {a} {t} {} {}", 100 + uid, 50 + uid));
            }
            40..=54 => {
                // a full snapshot of ONE exchange: balances of assets of the same exchange
                let e = rng.below(x as u64) as usize;
                let of_e: Vec<usize> = (0..na).filter(|a| if *a < n { a % x == e } else { a - n == e }).collect();
                let k = rng.range(0, 3);
                let mut s = String::from("full");
                for _ in 0..k {
                    uid += 1;
                    let t = *rng.pick(times);
                    s += &format!(" {} {t} {} {}", rng.pick(&of_e), 100 + uid, 50 + uid);
                }
                pool.push(s);
            }
            55..=64 => {
                let i = rng.below(n as u64);
                pool.push(format!("trade {i} {t} {}.5", 100 + uid));
            }
            65..=76 => {
                let i = rng.below(n as u64);
                pool.push(format!("l1 {i} {t} {t} {} 1 {} 2", 100 + uid, 200 + uid));
            }
            77..=86 => {
                let i = rng.below(n as u64);
                let c = rng.range(1, 2);
                pool.push(format!("ord {i} {c} {uid} {t} {}", rng.pick(&[0, 5])));
            }
            87..=89 => {
                let i = rng.below(n as u64);
                let c = rng.range(1, 2);
                pool.push(format!("ordx {i} {c} {} {t}", rng.pick(&["Cancelled", "Filled", "Expired", "Failed"])));
            }
            90..=96 => {
                // one exchange's account snapshot: a balance and an open report of an instrument of the same exchange
                let i = rng.below(n as u64) as usize;
                let a = if rng.chance(50) { i } else { n + i % x };
                let c = rng.range(1, 2);
                let t2 = *rng.pick(times);
                pool.push(format!("acct B {a} {t} {} {} O {i} {c} {uid} {t2} 0", 100 + uid, 50 + uid));
            }
            _ => {
                let i = rng.below(n as u64);
                pool.push(format!("cancel {i} {}", rng.range(1, 2)));
            }
        }
    }
    let deliveries = rng.range(npool, npool * 2 + 2);
    for _ in 0..deliveries {
        out.line(rng.pick(&pool).clone());
    }
}

fn generate(seed: u64, n_cases: usize, tier: &str) {
    let mut out = Out::new();
    let mut rng = Rng::new(seed);
    let mut id = 0usize;
    if tier == "thorough" {
        // exhaustive: every delivery sequence of length <= 5 over the 6 messages
        // {balance, trade, l1, order} x ... restricted to one item each: 3 timestamps x 2 values per register kind
        for kind in 0..4 {
            let msgs: Vec<String> = (1..=3i64)
                .flat_map(|t| (0..2).map(move |v| (t, v)))
                .map(|(t, v)| match kind {
                    0 => format!("bal 0 {t} {} {}", 100 + t * 2 + v, 50 + v),
                    1 => format!("trade 0 {t} {}.5", 100 + t * 2 + v),
                    2 => format!("l1 0 {t} {t} {} 1 {} 2", 100 + t * 2 + v, 200 + v),
                    _ => format!("ord 0 1 {} {t} {}", t * 2 + v, v * 5),
                })
                .chain(if kind == 3 {
                    vec!["cancel 0 1".to_string(), "ordx 0 1 Cancelled 2".to_string()]
                } else {
                    vec![]
                })
                .chain(if kind == 2 { vec!["l1e 0 2 2".to_string()] } else { vec![] })
                .collect();
            let a = msgs.len();
            for len in 1..=5usize {
                for mut code in 0..a.pow(len as u32) {
                    id += 1;
                    out.case(format!("x{id}"));
                    out.line("init 1");
                    for _ in 0..len {
                        out.line(&msgs[code % a]);
                        code /= a;
                    }
                }
            }
        }
    }
    for _ in 0..n_cases {
        id += 1;
        out.case(format!("r{id}"));
        gen_case(&mut rng, &mut out, tier);
    }
    // input-domain family: a quarter as many cases again, from its own PRNG stream
    let mut drng = Rng::new(seed ^ 0x0D09_D0A1_5EED);
    for _ in 0..n_cases.div_ceil(4) {
        id += 1;
        out.case(format!("d{id}"));
        gen_dom_case(&mut drng, &mut out);
    }
    // configuration family: a sixth as many cases again (+2), from its own PRNG stream
    let mut crng = Rng::new(seed ^ 0xCF60_0009_5EED);
    for _ in 0..n_cases / 6 + 2 {
        id += 1;
        out.case(format!("cfg{id}"));
        gen_cfg_case(&mut crng, &mut out);
    }
    out.flush();
}

fn main() {
    let a = args();
    match a.cmd.as_str() {
        "gen" => generate(a.seed, a.n, &a.tier),
        "run" => run(),
        _ => {
            eprintln!("usage: c09 gen <seed> <n> <tier> | run < cases");
            std::process::exit(2)
        }
    }
}
