//! C17 — running dataset statistics. Ops: `push <decimal>` = one real `DataSetSummary::update`,
//! `reset` = back to `DataSetSummary::default()` (used to replay the same values in another order
//! inside one case). Observations after every op: the public fields of the summary.
//!
//! Exact keys: count sum act high low range var_ge0 mean_in_range.
//! Tolerant keys (went through a `Decimal` division or sqrt): mean m variance std_dev sd_sq.
use barter::statistic::summary::dataset::DataSetSummary;
use rust_decimal::Decimal;
use vh::*;

fn observe(s: &DataSetSummary, lines: &mut Vec<String>) {
    let d = &s.dispersion;
    let r = &d.range;
    lines.push(format!("count {}", fmt_dec(s.count)));
    lines.push(format!("sum {}", fmt_dec(s.sum)));
    lines.push(format!("mean {}", fmt_dec_approx(s.mean)));
    lines.push(format!("m {}", fmt_dec_approx(d.recurrence_relation_m)));
    lines.push(format!("variance {}", fmt_dec_approx(d.variance)));
    lines.push(format!("std_dev {}", fmt_dec_approx(d.std_dev)));
    lines.push(format!("sd_sq {}", fmt_dec_approx(d.std_dev * d.std_dev)));
    lines.push(format!("act {}", if r.activated { 1 } else { 0 }));
    lines.push(format!("high {}", fmt_dec(r.high)));
    lines.push(format!("low {}", fmt_dec(r.low)));
    lines.push(format!("range {}", fmt_dec(r.range())));
    lines.push(format!(
        "var_ge0 {}",
        if d.variance >= Decimal::ZERO && d.std_dev >= Decimal::ZERO { 1 } else { 0 }
    ));
    lines.push(format!(
        "mean_in_range {}",
        if !r.activated || (r.low <= s.mean && s.mean <= r.high) { 1 } else { 0 }
    ));
}

fn run() {
    run_cases(|case, lines| {
        let mut s = DataSetSummary::default();
        for op in &case.ops {
            lines.push("@".into());
            match (op[0].as_str(), op.len()) {
                ("push", 2) => s.update(parse_dec(&op[1])),
                ("reset", 1) => s = DataSetSummary::default(),
                _ => {
                    lines.push("bad-op".into());
                    continue;
                }
            }
            observe(&s, lines);
        }
    });
}

/// One value as op-line text. <= 6 significant digits, scale <= 6, magnitude up to 1e9, so that
/// `+` (sum, range) is exact in `Decimal` and `*` of 28-digit means does not overflow 96 bits.
fn value(rng: &mut Rng, class: u64) -> String {
    match class {
        // small integers / halves, positive and negative: many repeats and ties
        0 => dec_str(rng.range(-6, 6) * 5, 1),
        // prices around 100 with 2 decimals (small variance relative to magnitude)
        1 => dec_str(10_000 + rng.range(-50, 50), 2),
        // widely different magnitudes: up to 6 significant digits times 10^-6 .. 10^3
        2 => {
            let m = rng.range(-999_999, 999_999);
            let e = rng.range(0, 9);
            if e <= 6 {
                dec_str(m, e as u32)
            } else {
                dec_str(m * 10i64.pow((e - 6) as u32), 0)
            }
        }
        // tiny values
        3 => dec_str(rng.range(-999, 999), 6),
        // huge values
        _ => dec_str(rng.range(-999_999, 999_999) * 1000, 0),
    }
}

fn generate(seed: u64, n_cases: usize, tier: &str) {
    let mut out = Out::new();
    let mut rng = Rng::new(seed);
    let mut id = 0usize;
    if tier == "thorough" {
        // exhaustive: every sequence of length <= 5 over 5 values (sign, zero, repeat, magnitude)
        let syms = ["-2", "0", "0.5", "3", "1000000"];
        for len in 0..=5usize {
            let total = syms.len().pow(len as u32);
            for mut code in 0..total {
                id += 1;
                out.case(format!("x{id}"));
                for _ in 0..len {
                    out.line(format!("push {}", syms[code % syms.len()]));
                    code /= syms.len();
                }
            }
        }
    }
    let max_len = if tier == "thorough" { 50 } else { 30 };
    for _ in 0..n_cases {
        id += 1;
        out.case(format!("r{id}"));
        let len = if rng.chance(10) { rng.range(0, 3) } else { rng.range(1, max_len) } as usize;
        // value mix of this case
        let mix = rng.below(6);
        let pool: Vec<String> = (0..rng.range(1, 4)).map(|_| value(&mut rng, 2)).collect();
        let mut xs: Vec<String> = Vec::with_capacity(len);
        for _ in 0..len {
            let v = match mix {
                0 => value(&mut rng, 0),
                1 => value(&mut rng, 1),
                2 => value(&mut rng, 2),
                // few distinct values, heavy repetition (all-equal datasets when the pool has one)
                3 => rng.pick(&pool).clone(),
                // everything mixed: tiny next to huge, both signs
                4 => {
                    let c = rng.below(5);
                    value(&mut rng, c)
                }
                // a tight cluster far from zero plus rare outliers
                _ => {
                    if rng.chance(10) {
                        value(&mut rng, 4)
                    } else {
                        dec_str(123_456_000 + rng.range(-3, 3), 3)
                    }
                }
            };
            xs.push(v);
        }
        for v in &xs {
            out.line(format!("push {v}"));
        }
        // the same dataset in another arrival order (order-free quantities must not move)
        if len >= 2 && rng.chance(50) {
            out.line("reset");
            let mut ys = xs.clone();
            match rng.below(4) {
                0 => ys.reverse(),
                1 => ys.sort_by(|a, b| parse_dec(a).cmp(&parse_dec(b))),
                2 => ys.sort_by(|a, b| parse_dec(b).cmp(&parse_dec(a))),
                _ => {
                    for i in (1..ys.len()).rev() {
                        let j = rng.below(i as u64 + 1) as usize;
                        ys.swap(i, j);
                    }
                }
            }
            for v in &ys {
                out.line(format!("push {v}"));
            }
        }
    }
    out.flush();
}

fn main() {
    let a = args();
    match a.cmd.as_str() {
        "gen" => generate(a.seed, a.n, &a.tier),
        "run" => run(),
        _ => {
            eprintln!("usage: c17 gen <seed> <n> <tier> | run < cases");
            std::process::exit(2)
        }
    }
}
