//! C17 — running dataset statistics. Ops: `push <decimal>` = one real `DataSetSummary::update`,
//! `reset` = back to `DataSetSummary::default()` (used to replay the same values in another order
//! inside one case). Observations after every op: the public fields of the summary.
//!
//! Exact keys: count sum act high low range var_ge0 mean_in_range.
//! Tolerant keys (went through a `Decimal` division or sqrt): mean m variance std_dev sd_sq.
use barter::statistic::summary::dataset::DataSetSummary;
use rust_decimal::Decimal;
use vh::*;

fn observe(s: &DataSetSummary, lines: &mut Vec<String>) {
    let d = &s.dispersion;
    let r = &d.range;
    lines.push(format!("count {}", fmt_dec(s.count)));
    lines.push(format!("sum {}", fmt_dec(s.sum)));
    lines.push(format!("mean {}", fmt_dec_approx(s.mean)));
    lines.push(format!("m {}", fmt_dec_approx(d.recurrence_relation_m)));
    lines.push(format!("variance {}", fmt_dec_approx(d.variance)));
    lines.push(format!("std_dev {}", fmt_dec_approx(d.std_dev)));
    lines.push(format!("sd_sq {}", fmt_dec_approx(d.std_dev * d.std_dev)));
    lines.push(format!("act {}", if r.activated { 1 } else { 0 }));
    lines.push(format!("high {}", fmt_dec(r.high)));
    lines.push(format!("low {}", fmt_dec(r.low)));
    lines.push(format!("range {}", fmt_dec(r.range())));
    lines.push(format!(
        "var_ge0 {}",
        if d.variance >= Decimal::ZERO && d.std_dev >= Decimal::ZERO { 1 } else { 0 }
    ));
    lines.push(format!(
        "mean_in_range {}",
        if !r.activated || (r.low <= s.mean && s.mean <= r.high) { 1 } else { 0 }
    ));
}

fn run() {
    run_cases(|case, lines| {
        let mut s = DataSetSummary::default();
        for op in &case.ops {
            lines.push("@".into());
            match (op[0].as_str(), op.len()) {
                ("push", 2) => s.update(parse_dec(&op[1])),
                ("reset", 1) => s = DataSetSummary::default(),
                _ => {
                    lines.push("bad-op".into());
                    continue;
                }
            }
            observe(&s, lines);
        }
    });
}

/// One value as op-line text. <= 6 significant digits, scale <= 6, magnitude up to 1e9, so that
/// `+` (sum, range) is exact in `Decimal` and `*` of 28-digit means does not overflow 96 bits.
fn value(rng: &mut Rng, class: u64) -> String {
    match class {
        // small integers / halves, positive and negative: many repeats and ties
        0 => dec_str(rng.range(-6, 6) * 5, 1),
        // prices around 100 with 2 decimals (small variance relative to magnitude)
        1 => dec_str(10_000 + rng.range(-50, 50), 2),
        // widely different magnitudes: up to 6 significant digits times 10^-6 .. 10^3
        2 => {
            let m = rng.range(-999_999, 999_999);
            let e = rng.range(0, 9);
            if e <= 6 {
                dec_str(m, e as u32)
            } else {
                dec_str(m * 10i64.pow((e - 6) as u32), 0)
            }
        }
        // tiny values
        3 => dec_str(rng.range(-999, 999), 6),
        // huge values
        _ => dec_str(rng.range(-999_999, 999_999) * 1000, 0),
    }
}

fn generate(seed: u64, n_cases: usize, tier: &str) {
    let mut out = Out::new();
    let mut rng = Rng::new(seed);
    let mut id = 0usize;
    if tier == "thorough" {
        // exhaustive: every sequence of length <= 5 over 5 values (sign, zero, repeat, magnitude)
        let syms = ["-2", "0", "0.5", "3", "1000000"];
        for len in 0..=5usize {
            let total = syms.len().pow(len as u32);
            for mut code in 0..total {
                id += 1;
                out.case(format!("x{id}"));
                for _ in 0..len {
                    out.line(format!("push {}", syms[code % syms.len()]));
                    code /= syms.len();
                }
            }
        }
    }
    let max_len = if tier == "thorough" { 50 } else { 30 };
    for _ in 0..n_cases {
        id += 1;
        out.case(format!("r{id}"));
        let len = if rng.chance(10) { rng.range(0, 3) } else { rng.range(1, max_len) } as usize;
        // value mix of this case
        let mix = rng.below(6);
        let pool: Vec<String> = (0..rng.range(1, 4)).map(|_| value(&mut rng, 2)).collect();
        let mut xs: Vec<String> = Vec::with_capacity(len);
        for _ in 0..len {
            let v = match mix {
                0 => value(&mut rng, 0),
                1 => value(&mut rng, 1),
                2 => value(&mut rng, 2),
                // few distinct values, heavy repetition (all-equal datasets when the pool has one)
                3 => rng.pick(&pool).clone(),
                // everything mixed: tiny next to huge, both signs
                4 => {
                    let c = rng.below(5);
                    value(&mut rng, c)
                }
                // a tight cluster far from zero plus rare outliers
                _ => {
                    if rng.chance(10) {
                        value(&mut rng, 4)
                    } else {
                        dec_str(123_456_000 + rng.range(-3, 3), 3)
                    }
                }
            };
            xs.push(v);
        }
        for v in &xs {
            out.line(format!("push {v}"));
        }
        // the same dataset in another arrival order (order-free quantities must not move)
        if len >= 2 && rng.chance(50) {
            out.line("reset");
            let mut ys = xs.clone();
            match rng.below(4) {
                0 => ys.reverse(),
                1 => ys.sort_by(|a, b| parse_dec(a).cmp(&parse_dec(b))),
                2 => ys.sort_by(|a, b| parse_dec(b).cmp(&parse_dec(a))),
                _ => {
                    for i in (1..ys.len()).rev() {
                        let j = rng.below(i as u64 + 1) as usize;
                        ys.swap(i, j);
                    }
                }
            }
            for v in &ys {
                out.line(format!("push {v}"));
            }
        }
    }
    domain_family(&mut out, seed, n_cases, tier);
    out.flush();
}

/// Input classes the main generator never produced (input-domain audit): appended as a separately
/// seeded family `d<k>` so the random cases `r<k>` above stay exactly as they were.
///  * long datasets (hundreds of values; thorough: up to 1 500) - the property is about ANY finite
///    sequence, the random cases stop at 30 / 50 values;
///  * zero spelled `-0`, `-0.0`, `0.000` (sign-negative / scaled zeros of `Decimal`) and equal
///    values with different scales (`1.5`, `1.50`, `1.500000`);
///  * extreme-but-exact magnitudes: 1e-10 .. 1e12 with up to 6 significant digits, and values with
///    12-15 significant digits below 1e11 (sum of <= 1 500 such values stays far below 2^96, so `+` is exact;
///    mean / M / variance / std_dev are compared to 1e-18 relative as everywhere).
fn domain_family(out: &mut Out, seed: u64, n_cases: usize, tier: &str) {
    let mut rng = Rng::new(seed ^ 0xD0A1_17D0_A117);
    let extra = (n_cases / 10).max(if n_cases > 0 { 6 } else { 0 });
    let long_max = if tier == "thorough" { 1500 } else { 400 };
    let zeros = ["-0", "-0.0", "0.000", "0", "-0.000000"];
    for k in 0..extra {
        out.case(format!("d{}", k + 1));
        let class = k % 6;
        let mut xs: Vec<String> = Vec::new();
        match class {
            // long dataset, one of the ordinary value mixes
            0 => {
                let len = if k < 6 { rng.range(150, long_max) } else { rng.range(100, 260) };
                let mix = rng.below(4);
                for _ in 0..len {
                    xs.push(match mix {
                        0 => value(&mut rng, 0),
                        1 => value(&mut rng, 1),
                        2 => value(&mut rng, 2),
                        _ => dec_str(123_456_000 + rng.range(-3, 3), 3),
                    });
                }
            }
            // zeros in every spelling, among small values of both signs (first / last / only value too)
            1 => {
                let len = rng.range(1, 12);
                for _ in 0..len {
                    xs.push(if rng.chance(50) { rng.pick(&zeros).to_string() } else { value(&mut rng, 0) });
                }
                if rng.chance(50) {
                    xs.insert(0, rng.pick(&zeros).to_string());
                }
            }
            // equal values with different scales (ties that are not textually equal)
            2 => {
                let len = rng.range(2, 15);
                let base = rng.range(-40, 40);
                for _ in 0..len {
                    let m = base + rng.range(-1, 1);
                    let z = rng.range(0, 5) as u32;
                    // m/10 written with z extra trailing zeros
                    let d = Decimal::new(m * 10i64.pow(z), 1 + z);
                    xs.push(d.to_string());
                }
            }
            // extreme-but-exact magnitudes, one regime per case: tiny (1e-12 .. 1e-4, both signs) or
            // huge (1e4 .. 1e12, ONE sign per case: with both signs the sum can cancel to almost
            // nothing while the 28-digit running mean carries an absolute error of ~1e-16, which is
            // `decimal rounding`, not a defect, but more than the 1e-18 the comparison allows)
            3 => {
                let len = rng.range(1, 25);
                let tiny = rng.chance(50);
                let sign = if rng.chance(50) { 1 } else { -1 };
                for _ in 0..len {
                    xs.push(if tiny {
                        dec_str(rng.range(-9_999, 9_999), rng.range(8, 12) as u32)
                    } else {
                        dec_str(sign * rng.range(1, 999_999) * 10i64.pow(rng.range(4, 6) as u32), 0)
                    });
                }
            }
            // tiny next to huge in one dataset (1e-10 .. 1e12, huge values of one sign per case, see
            // above), with exact boundary values
            4 => {
                let len = rng.range(2, 25);
                let sign = if rng.chance(50) { 1 } else { -1 };
                let marks_tiny = ["0.00000001", "-0.00000001", "0.0000000001", "-0.000000000001"];
                // ONE huge mark per dataset: two different marks 1e-8 apart at 1e12 form a tight cluster
                // whose spread is below the ~1e-16 resolution of the 28-digit running mean there
                // (std_dev then deviates by ~1e-17 absolute: decimal rounding, see ASSUMPTIONS)
                let marks_huge = [*rng.pick(&["1000000000000", "999999999999.99999999", "100000000000.00000001"])];
                for _ in 0..len {
                    xs.push(match rng.below(5) {
                        0 => rng.pick(&marks_tiny).to_string(),
                        1 => {
                            let h = rng.pick(&marks_huge);
                            if sign < 0 { format!("-{h}") } else { h.to_string() }
                        }
                        2 => dec_str(rng.range(-999_999, 999_999), rng.range(7, 10) as u32),
                        3 => dec_str(sign * rng.range(1, 999_999) * 1_000_000, 0),
                        _ => value(&mut rng, 0),
                    });
                }
            }
            // many significant digits (12-15) with scale 4..10: |x| < 1e11, so that the squared
            // deviations of M stay below 2^96 (beyond that the real code panics with
            // `Multiplication overflowed`, the overflow regime excluded in ASSUMPTIONS)
            _ => {
                let len = rng.range(1, 25);
                for _ in 0..len {
                    let m = rng.range(-999_999_999_999_999, 999_999_999_999_999);
                    xs.push(dec_str(m, rng.range(4, 10) as u32));
                }
            }
        }
        for v in &xs {
            out.line(format!("push {v}"));
        }
        if xs.len() >= 2 && class != 0 && rng.chance(50) {
            out.line("reset");
            let mut ys = xs.clone();
            if rng.chance(50) {
                ys.reverse();
            } else {
                ys.sort_by(|a, b| parse_dec(a).cmp(&parse_dec(b)));
            }
            for v in &ys {
                out.line(format!("push {v}"));
            }
        }
    }
}

fn main() {
    let a = args();
    match a.cmd.as_str() {
        "gen" => generate(a.seed, a.n, &a.tier),
        "run" => run(),
        _ => {
            eprintln!("usage: c17 gen <seed> <n> <tier> | run < cases");
            std::process::exit(2)
        }
    }
}
