//! C13 — market-data attribution. For every `(ExchangeId, SubKind)` arm of `DynamicStreams::init`:
//! the real `WebSocketSubMapper::map` builds the instrument map from `Keyed<usize, MarketDataInstrument>`
//! subscriptions (market formatted from the underlying), from `MarketInstrumentData<usize>` subscriptions
//! (`name_exchange` verbatim: the type the engine's indexed market stream uses; `@<name>:<kind>` tokens) or from
//! un-keyed `MarketDataInstrument` subscriptions (the README form: the instrument key is the instrument itself;
//! `=<base>:<quote>:<kind>` tokens); synthesised venue JSON is deserialised and transformed by THE TRANSFORMER THE
//! REPOSITORY BINDS to the pair: `<<E as StreamSelector<Instrument, Kind>>::Stream as TransformerOf>::T` (the
//! transformer type parameter of the connector's `ExchangeWsStream<_>`), its `ExchangeTransformer::init`, its own
//! associated `Transformer::Input` type (deserialised from the JSON text by serde) and its `Transformer::transform`.
//! Neither the transformer nor the venue message type is named by this harness. The Binance L2 transformers come
//! out of the same projection and are initialised afresh per message with a snapshot at sequence 100 so that the
//! update is a valid first update (all other kinds get no initial snapshots).
//! Bitfinex's channel-id re-keying (`BitfinexWebSocketSubValidator::validate`, which needs a live socket)
//! is applied to the map directly from a deserialised `BitfinexPlatformEvent::Subscribed`.
//!
//! Ops: `sub <exchange> <kind> <inst>*`, `conf <channel> <symbol> <chanId>`, `msg <channel> <symbol> <chanId> <item>*`
//! (see `lean/BarterModel/Driver/C13.lean`).
use barter_data::{
    Identifier,
    books::{Level, OrderBook},
    error::DataError,
    event::{DataKind, MarketEvent},
    exchange::{
        Connector, StreamSelector,
        binance::{futures::BinanceFuturesUsd, spot::BinanceSpot},
        bitfinex::{
            Bitfinex,
            subscription::{BitfinexPlatformEvent, BitfinexSubResponse},
        },
        bitmex::Bitmex,
        bybit::{futures::BybitPerpetualsUsd, spot::BybitSpot},
        coinbase::Coinbase,
        gateio::{
            future::{GateioFuturesBtc, GateioFuturesUsd},
            option::GateioOptions,
            perpetual::{GateioPerpetualsBtc, GateioPerpetualsUsd},
            spot::GateioSpot,
        },
        kraken::Kraken,
        okx::Okx,
        subscription::ExchangeSub,
    },
    instrument::{InstrumentData, MarketInstrumentData},
    subscriber::mapper::{SubscriptionMapper, WebSocketSubMapper},
    subscription::{
        Map, Subscription, SubscriptionKind,
        book::{OrderBookEvent, OrderBookL1, OrderBooksL1, OrderBooksL2},
        liquidation::{Liquidation, Liquidations},
        trade::{PublicTrade, PublicTrades},
    },
    transformer::ExchangeTransformer,
};
use barter_instrument::{
    Keyed, Side,
    exchange::ExchangeId,
    instrument::{
        kind::option::{OptionExercise, OptionKind},
        market_data::{
            MarketDataInstrument,
            kind::{MarketDataFutureContract, MarketDataInstrumentKind, MarketDataOptionContract},
        },
        name::InstrumentNameExchange,
    },
};
use barter_integration::{
    Transformer, protocol::StreamParser, stream::ExchangeStream, subscription::SubscriptionId,
};
use chrono::{DateTime, NaiveDate, TimeZone, Utc};
use futures::{Stream, executor::block_on};
use rust_decimal::Decimal;
use smol_str::ToSmolStr;
use std::marker::PhantomData;
use tokio::sync::mpsc;
use vh::*;

type Inst = Keyed<usize, MarketDataInstrument>;
/// the instrument type of the engine's indexed market stream (`streams/builder/dynamic/indexed.rs`)
type VInst = MarketInstrumentData<usize>;

/// The instruments of one `sub` line: a Rust subscription list has ONE instrument type.
enum Subs {
    /// `Subscription<_, Keyed<usize, MarketDataInstrument>, _>`: key = position
    Formatted(Vec<MarketDataInstrument>),
    /// `Subscription<_, MarketInstrumentData<usize>, _>`: key = position, market = `name_exchange`
    Verbatim(Vec<(String, MarketDataInstrumentKind)>),
    /// `Subscription<_, MarketDataInstrument, _>`: key = the instrument itself
    Unkeyed(Vec<MarketDataInstrument>),
}

// ------------------------------------------------------------------------------------------ parsing

#[derive(Clone, Debug)]
struct Item {
    price: String,
    amount: String,
    sell: bool,
    time: i64,
}

struct Msg {
    chan: String,
    market: String,
    chan_id: u32,
    items: Vec<Item>,
}

fn parse_date(s: &str) -> Option<DateTime<Utc>> {
    if s.len() != 8 {
        return None;
    }
    let y: i32 = s[0..4].parse().ok()?;
    let m: u32 = s[4..6].parse().ok()?;
    let d: u32 = s[6..8].parse().ok()?;
    if !(1000..=9999).contains(&y) {
        return None;
    }
    // expiry at 08:00 UTC of that day (`date_naive()` is what the formatters read)
    let nd = NaiveDate::from_ymd_opt(y, m, d)?;
    Some(Utc.from_utc_datetime(&nd.and_hms_opt(8, 0, 0)?))
}

fn parse_kind_fields(f: &[&str]) -> Option<MarketDataInstrumentKind> {
    Some(match f {
        ["S"] => MarketDataInstrumentKind::Spot,
        ["P"] => MarketDataInstrumentKind::Perpetual,
        [x] if x.starts_with('F') => MarketDataInstrumentKind::Future(MarketDataFutureContract {
            expiry: parse_date(&x[1..])?,
        }),
        [x, k, c] if x.starts_with('O') => MarketDataInstrumentKind::Option(MarketDataOptionContract {
            kind: match *c {
                "C" => OptionKind::Call,
                "P" => OptionKind::Put,
                _ => return None,
            },
            exercise: OptionExercise::European,
            expiry: parse_date(&x[1..])?,
            strike: Decimal::from(k.parse::<u64>().ok()?),
        }),
        _ => return None,
    })
}

fn parse_inst(tok: &str) -> Option<MarketDataInstrument> {
    let f: Vec<&str> = tok.split(':').collect();
    if f.len() < 3 {
        return None;
    }
    let kind = parse_kind_fields(&f[2..])?;
    Some(MarketDataInstrument::new(f[0], f[1], kind))
}

/// `@<name_exchange>:<kind…>`
fn parse_verbatim(tok: &str) -> Option<(String, MarketDataInstrumentKind)> {
    let f: Vec<&str> = tok.strip_prefix('@')?.split(':').collect();
    if f.len() < 2 {
        return None;
    }
    Some((f[0].to_string(), parse_kind_fields(&f[1..])?))
}

/// all-formatted, all-verbatim or all-un-keyed (mixed lists do not exist in Rust: `bad-op`, as in the Lean driver)
fn parse_subs(toks: &[String]) -> Option<Subs> {
    if !toks.is_empty() && toks.iter().all(|t| t.starts_with('@')) {
        Some(Subs::Verbatim(toks.iter().map(|t| parse_verbatim(t)).collect::<Option<Vec<_>>>()?))
    } else if !toks.is_empty() && toks.iter().all(|t| t.starts_with('=')) {
        Some(Subs::Unkeyed(toks.iter().map(|t| parse_inst(&t[1..])).collect::<Option<Vec<_>>>()?))
    } else if toks.iter().all(|t| !t.starts_with('@') && !t.starts_with('=')) {
        Some(Subs::Formatted(toks.iter().map(|t| parse_inst(t)).collect::<Option<Vec<_>>>()?))
    } else {
        None
    }
}

fn parse_item(tok: &str) -> Option<Item> {
    let f: Vec<&str> = tok.split(':').collect();
    if f.len() != 4 {
        return None;
    }
    f[0].parse::<Decimal>().ok()?;
    f[1].parse::<Decimal>().ok()?;
    Some(Item {
        price: f[0].to_string(),
        amount: f[1].to_string(),
        sell: match f[2] {
            "b" => false,
            "s" => true,
            _ => return None,
        },
        // the venues' epoch fields are unsigned (`u64` deserialisers): a negative time is no message (drivers: same)
        time: f[3].parse::<i64>().ok().filter(|t| *t >= 0)?,
    })
}

fn parse_msg(toks: &[String]) -> Option<Msg> {
    if toks.len() < 3 {
        return None;
    }
    Some(Msg {
        chan: toks[0].clone(),
        market: toks[1].clone(),
        chan_id: toks[2].parse().ok()?,
        items: toks[3..]
            .iter()
            .map(|t| parse_item(t))
            .collect::<Option<Vec<_>>>()?,
    })
}

// ------------------------------------------------------------------------------------------ observation

fn f64_exact(x: f64) -> String {
    fmt_dec(Decimal::from_f64_retain(x).expect("finite f64"))
}

fn side_str(s: Side) -> &'static str {
    match s {
        Side::Buy => "buy",
        Side::Sell => "sell",
    }
}

fn fmt_level(l: &Option<Level>) -> String {
    match l {
        None => "none none".into(),
        Some(l) => format!("{} {}", fmt_dec(l.price), fmt_dec(l.amount)),
    }
}

fn fmt_levels(ls: &[Level]) -> String {
    ls.iter()
        .map(|l| format!("{} {}", fmt_dec(l.price), fmt_dec(l.amount)))
        .collect::<Vec<_>>()
        .join(" ")
}

/// How an instrument key is printed: the position for the keyed representations; for the un-keyed one the
/// instrument itself in the token syntax of the `sub` line (`AssetNameInternal` has lower-cased base and quote).
trait KeyFmt: Clone + Eq {
    fn show(&self) -> String;
}

impl KeyFmt for usize {
    fn show(&self) -> String {
        self.to_string()
    }
}

fn kind_token(kind: &MarketDataInstrumentKind) -> String {
    let ymd = |t: &DateTime<Utc>| t.date_naive().format("%Y%m%d").to_string();
    match kind {
        MarketDataInstrumentKind::Spot => "S".into(),
        MarketDataInstrumentKind::Perpetual => "P".into(),
        MarketDataInstrumentKind::Future(c) => format!("F{}", ymd(&c.expiry)),
        MarketDataInstrumentKind::Option(c) => format!(
            "O{}:{}:{}",
            ymd(&c.expiry),
            c.strike,
            match c.kind {
                OptionKind::Call => "C",
                OptionKind::Put => "P",
            }
        ),
    }
}

impl KeyFmt for MarketDataInstrument {
    fn show(&self) -> String {
        format!("{}:{}:{}", self.base, self.quote, kind_token(&self.kind))
    }
}

trait Obs: Sized {
    fn obs(&self, out: &mut Vec<String>);
    /// the accessor of `MarketEvent<_, DataKind>` that belongs to this kind
    fn from_dk<Key>(dk: &MarketEvent<Key, DataKind>) -> Option<MarketEvent<&Key, &Self>>;
}

/// The event as consumers of combined streams see it (`DynamicStreams::select_all`, `MultiStreamBuilder`):
/// converted to `MarketEvent<_, DataKind>` by the real `From` impl; `dk <kind_name> 1` iff exactly the accessor
/// of its own kind answers and hands back the same key, exchange, times and payload.
fn dk_line<Key: KeyFmt, T: Obs + Clone>(ev: &MarketEvent<Key, T>) -> String
where
    MarketEvent<Key, DataKind>: From<MarketEvent<Key, T>>,
{
    let dk: MarketEvent<Key, DataKind> = ev.clone().into();
    let answering = [
        dk.as_public_trade().is_some(),
        dk.as_order_book_l1().is_some(),
        dk.as_order_book().is_some(),
        dk.as_candle().is_some(),
        dk.as_liquidation().is_some(),
    ]
    .iter()
    .filter(|b| **b)
    .count();
    let same = T::from_dk(&dk).is_some_and(|back| {
        let (mut a, mut b) = (vec![], vec![]);
        ev.kind.obs(&mut a);
        back.kind.obs(&mut b);
        a == b
            && *back.instrument == ev.instrument
            && back.exchange == ev.exchange
            && back.time_exchange == ev.time_exchange
            && back.time_received == ev.time_received
    });
    format!("dk {} {}", dk.kind.kind_name(), (answering == 1 && same) as u8)
}

impl Obs for PublicTrade {
    fn from_dk<Key>(dk: &MarketEvent<Key, DataKind>) -> Option<MarketEvent<&Key, &Self>> {
        dk.as_public_trade()
    }
    fn obs(&self, out: &mut Vec<String>) {
        out.push(format!(
            "trade {} {} {}",
            f64_exact(self.price),
            f64_exact(self.amount.abs()),
            side_str(self.side)
        ));
        out.push(format!("amt {}", f64_exact(self.amount)));
        // the sign of `PublicTrade.amount` as the connector produces it (the spec is silent on it)
        out.push(format!(
            "sgn {}",
            if self.amount < 0.0 { "neg" } else if self.amount == 0.0 { "zero" } else { "pos" }
        ));
    }
}

impl Obs for OrderBookL1 {
    fn from_dk<Key>(dk: &MarketEvent<Key, DataKind>) -> Option<MarketEvent<&Key, &Self>> {
        dk.as_order_book_l1()
    }
    fn obs(&self, out: &mut Vec<String>) {
        out.push(format!(
            "l1 {} {}",
            fmt_level(&self.best_bid),
            fmt_level(&self.best_ask)
        ));
    }
}

impl Obs for OrderBookEvent {
    fn from_dk<Key>(dk: &MarketEvent<Key, DataKind>) -> Option<MarketEvent<&Key, &Self>> {
        dk.as_order_book()
    }
    fn obs(&self, out: &mut Vec<String>) {
        let book: &OrderBook = match self {
            OrderBookEvent::Snapshot(b) | OrderBookEvent::Update(b) => b,
        };
        out.push(format!(
            "l2 b {} a {}",
            fmt_levels(book.bids().levels()),
            fmt_levels(book.asks().levels())
        ));
    }
}

impl Obs for Liquidation {
    fn from_dk<Key>(dk: &MarketEvent<Key, DataKind>) -> Option<MarketEvent<&Key, &Self>> {
        dk.as_liquidation()
    }
    fn obs(&self, out: &mut Vec<String>) {
        out.push(format!(
            "liq {} {} {}",
            f64_exact(self.price),
            f64_exact(self.quantity),
            side_str(self.side)
        ));
    }
}

fn emit<Key: KeyFmt, T: Obs + Clone>(results: Vec<Result<MarketEvent<Key, T>, DataError>>, out: &mut Vec<String>)
where
    MarketEvent<Key, DataKind>: From<MarketEvent<Key, T>>,
{
    out.push(format!("nev {}", results.len()));
    for r in results {
        match r {
            Ok(ev) => {
                out.push(format!(
                    "ev {} {} {}",
                    ev.instrument.show(),
                    ev.exchange.as_str(),
                    ev.time_exchange.timestamp_millis()
                ));
                ev.kind.obs(out);
                out.push(dk_line(&ev));
            }
            Err(DataError::Socket(text)) => {
                // `DataError::from(SocketError::Unidentifiable(id))` keeps only the message text
                const P: &str = "consumed unidentifiable message: ";
                match text.strip_prefix(P) {
                    Some(id) => {
                        out.push("err unidentifiable".into());
                        out.push(format!("errid {id}"));
                    }
                    None => out.push(format!("err other {}", text.replace(' ', "_"))),
                }
            }
            Err(other) => out.push(format!("err other {}", format!("{other:?}").replace(' ', "_"))),
        }
    }
}

/// `map <key>=<subscription id> ...` in subscription order: an entry is listed at the position of the LAST
/// subscription that carries its key (for positional keys that is the key itself; an un-keyed instrument
/// subscribed twice has one key and one id).
fn fmt_map<Key: KeyFmt>(map: &Map<Key>, order: &[Key]) -> String {
    let mut entries: Vec<(usize, &SubscriptionId, &Key)> = map
        .0
        .iter()
        .map(|(id, k)| (order.iter().rposition(|o| o == k).unwrap_or(usize::MAX), id, k))
        .collect();
    entries.sort_by(|a, b| (a.0, &a.1.0).cmp(&(b.0, &b.1.0)));
    let body = entries
        .iter()
        .map(|(_, id, k)| format!("{}={}", k.show(), id.0))
        .collect::<Vec<_>>()
        .join(" ");
    format!("map {body}")
}

// ------------------------------------------------------------------------------------------ real code

/// Projection of the transformer out of the stream type a connector binds in its `impl StreamSelector`
/// (`type Stream = ExchangeWsStream<T>` = `ExchangeStream<WebSocketParser, WsStream, T>`, barter-data/src/lib.rs:166).
trait TransformerOf {
    type T;
}

impl<P, S, T> TransformerOf for ExchangeStream<P, S, T>
where
    P: StreamParser,
    S: Stream,
    T: Transformer,
{
    type T = T;
}

/// THE transformer of `(connector E, instrument type I, subscription kind K)` as the repository binds it.
type SelT<E, I, K> = <<E as StreamSelector<I, K>>::Stream as TransformerOf>::T;

/// The initial snapshots handed to `ExchangeTransformer::init`: none, except for L2 books (one empty
/// snapshot at sequence 100 per subscribed instrument; the stateless transformers ignore the argument).
trait Snaps: SubscriptionKind {
    fn snaps<Key: Clone + PartialEq>(map: &Map<Key>, order: &[Key], exchange: ExchangeId) -> Vec<MarketEvent<Key, Self::Event>>;
}

/// The sequence of the initial L2 snapshot of a MARKET (the text after the `|` of its subscription id): 100, 110, ..
/// 180, so that the books of one connection start at DIFFERENT sequences, as real snapshots do. `json_for` numbers
/// the update of a message from the market the message names by the same rule, so the update is a valid first
/// update exactly if the transformer has put THAT market's snapshot under the instrument.
fn l2_seq(market: &str) -> u64 {
    100 + 10 * (market.bytes().fold(7u64, |a, b| a.wrapping_mul(31).wrapping_add(b as u64)) % 9)
}

impl Snaps for PublicTrades {
    fn snaps<Key: Clone + PartialEq>(_: &Map<Key>, _: &[Key], _: ExchangeId) -> Vec<MarketEvent<Key, Self::Event>> {
        vec![]
    }
}

impl Snaps for OrderBooksL1 {
    fn snaps<Key: Clone + PartialEq>(_: &Map<Key>, _: &[Key], _: ExchangeId) -> Vec<MarketEvent<Key, Self::Event>> {
        vec![]
    }
}

impl Snaps for Liquidations {
    fn snaps<Key: Clone + PartialEq>(_: &Map<Key>, _: &[Key], _: ExchangeId) -> Vec<MarketEvent<Key, Self::Event>> {
        vec![]
    }
}

impl Snaps for OrderBooksL2 {
    /// one snapshot per subscribed instrument IN SUBSCRIPTION ORDER (the order the snapshot fetcher answers in; the
    /// instrument map iterates in hash order), each at the sequence of its own market (`l2_seq`)
    fn snaps<Key: Clone + PartialEq>(map: &Map<Key>, order: &[Key], exchange: ExchangeId) -> Vec<MarketEvent<Key, Self::Event>> {
        let mut out: Vec<MarketEvent<Key, Self::Event>> = vec![];
        for key in order {
            if out.iter().any(|s| s.instrument == *key) {
                continue;
            }
            let Some((id, _)) = map.0.iter().find(|(_, k)| *k == key) else {
                // its subscription id was taken over by a later subscription: no book of its own
                continue;
            };
            let market = id.0.rsplit('|').next().unwrap_or("");
            out.push(MarketEvent {
                time_exchange: Utc.timestamp_millis_opt(0).unwrap(),
                time_received: Utc.timestamp_millis_opt(0).unwrap(),
                exchange,
                instrument: key.clone(),
                kind: OrderBookEvent::Snapshot(OrderBook::new(
                    l2_seq(market),
                    None,
                    Vec::<Level>::new(),
                    Vec::<Level>::new(),
                )),
            });
        }
        out
    }
}

/// One subscribed `(connector, kind)` pair with one instrument representation.
trait Session {
    fn map_line(&self) -> String;
    /// Bitfinex `subscribed` confirmation
    fn conf(&mut self, chan: &str, symbol: &str, chan_id: u32);
    /// one venue message through the bound transformer
    fn msg(&self, json: &str, out: &mut Vec<String>);
}

struct Sess<E, I: InstrumentData, K> {
    map: Map<I::Key>,
    /// the keys of the subscriptions, in subscription order
    order: Vec<I::Key>,
    phantom: PhantomData<(E, K)>,
}

impl<E, I, K> Sess<E, I, K>
where
    E: Connector,
    I: InstrumentData,
    K: SubscriptionKind,
    Subscription<E, I, K>: Identifier<E::Channel> + Identifier<E::Market>,
{
    /// the real `WebSocketSubMapper::map` over `Subscription<E, I, K>`
    fn new(kind: K, instruments: Vec<I>) -> Self {
        let order = instruments.iter().map(|i| i.key().clone()).collect();
        let subs: Vec<Subscription<E, I, K>> = instruments
            .into_iter()
            .map(|i| Subscription::new(E::default(), i, kind.clone()))
            .collect();
        Self {
            map: WebSocketSubMapper::map(&subs).instrument_map,
            order,
            phantom: PhantomData,
        }
    }
}

impl<E, I, K> Session for Sess<E, I, K>
where
    E: StreamSelector<I, K>,
    I: InstrumentData,
    I::Key: KeyFmt,
    K: SubscriptionKind + Snaps,
    K::Event: Obs + Clone,
    <E as StreamSelector<I, K>>::Stream: TransformerOf,
    SelT<E, I, K>: ExchangeTransformer<E, I::Key, K>,
    MarketEvent<I::Key, DataKind>: From<MarketEvent<I::Key, K::Event>>,
{
    fn map_line(&self) -> String {
        fmt_map(&self.map, &self.order)
    }

    /// The `Subscribed` arm of `BitfinexWebSocketSubValidator::validate` (bitfinex/validator.rs:93-110),
    /// applied to the map directly (the validator itself needs a live WebSocket).
    fn conf(&mut self, chan: &str, symbol: &str, chan_id: u32) {
        let json = format!(
            r#"{{"event":"subscribed","channel":{},"chanId":{},"symbol":{},"pair":"X"}}"#,
            q(chan),
            chan_id,
            q(symbol)
        );
        let event: BitfinexPlatformEvent = serde_json::from_str(&json).expect("subscribed event");
        let BitfinexPlatformEvent::Subscribed(response) = event else {
            panic!("not a subscribed event")
        };
        let BitfinexSubResponse {
            channel,
            market,
            channel_id,
        } = &response;
        let subscription_id = ExchangeSub::from((channel, market)).id();
        if let Some(subscription) = self.map.0.remove(&subscription_id) {
            self.map
                .0
                .insert(SubscriptionId(channel_id.0.to_smolstr()), subscription);
        }
    }

    /// `ExchangeTransformer::init` + serde into the transformer's OWN `Input` type + `Transformer::transform`,
    /// all three of `SelT<E, I, K>`: the transformer type the connector's `impl StreamSelector` names.
    fn msg(&self, json: &str, out: &mut Vec<String>) {
        let snaps = K::snaps(&self.map, &self.order, E::ID);
        let (tx, _rx) = mpsc::unbounded_channel();
        let mut transformer = block_on(<SelT<E, I, K> as ExchangeTransformer<E, I::Key, K>>::init(
            self.map.clone(),
            &snaps,
            tx,
        ))
        .expect("transformer init");
        match serde_json::from_str::<<SelT<E, I, K> as Transformer>::Input>(json) {
            Ok(input) => emit(transformer.transform(input).into_iter().collect(), out),
            Err(e) => out.push(format!("deser-error {}", e.to_string().replace(' ', "_"))),
        }
    }
}

/// the key the `k`-th instrument of a keyed `sub` line is subscribed under: `k`, or what the preceding `keys`
/// line says (keys as a global `InstrumentIndex` assigns them: not from 0, not contiguous, not ascending)
fn key_of(keys: Option<&Vec<usize>>, k: usize) -> usize {
    keys.map_or(k, |v| v[k])
}

/// `keys k0 k1 ..`: naturals of at most 18 digits, pairwise distinct (as the Lean drivers)
fn parse_keys(toks: &[String]) -> Option<Vec<usize>> {
    let mut out: Vec<usize> = vec![];
    for t in toks {
        if t.is_empty() || t.len() > 18 || !t.bytes().all(|b| b.is_ascii_digit()) {
            return None;
        }
        let k = t.parse().ok()?;
        if out.contains(&k) {
            return None;
        }
        out.push(k);
    }
    Some(out)
}

/// the three instrument representations of one connector type and kind value
macro_rules! open {
    ($E:ty, $kind:expr, $subs:expr, $keys:expr) => {
        match $subs {
            Subs::Formatted(insts) => Box::new(Sess::<$E, Inst, _>::new(
                $kind,
                insts.iter().enumerate().map(|(k, i)| Keyed::new(key_of($keys, k), i.clone())).collect(),
            )) as Box<dyn Session>,
            // the third `Identifier<Market>` impl of every connector: `name_exchange` verbatim
            Subs::Verbatim(insts) => Box::new(Sess::<$E, VInst, _>::new(
                $kind,
                insts
                    .iter()
                    .enumerate()
                    .map(|(k, (name, ik))| MarketInstrumentData {
                        key: key_of($keys, k),
                        name_exchange: InstrumentNameExchange::new(name.as_str()),
                        kind: ik.clone(),
                    })
                    .collect(),
            )) as Box<dyn Session>,
            // the first `Identifier<Market>` impl of every connector: `InstrumentData::Key = Self`
            Subs::Unkeyed(insts) => {
                Box::new(Sess::<$E, MarketDataInstrument, _>::new($kind, insts.clone())) as Box<dyn Session>
            }
        }
    };
}

// ------------------------------------------------------------------------------------------ venue JSON

fn q(s: &str) -> String {
    // symbols are generated from [A-Za-z0-9/_.-]: no escaping needed
    format!("\"{s}\"")
}

fn rfc3339(ms: i64) -> String {
    Utc.timestamp_millis_opt(ms)
        .unwrap()
        .to_rfc3339_opts(chrono::SecondsFormat::Millis, true)
}

fn secs_frac(ms: i64) -> String {
    format!("{}.{:03}", ms / 1000, ms % 1000)
}

#[derive(Clone, Copy, PartialEq, Eq, Debug)]
enum K {
    Trades,
    L1,
    L2,
    Liqs,
}

fn parse_kind(s: &str) -> Option<K> {
    Some(match s {
        "trades" => K::Trades,
        "l1" => K::L1,
        "l2" => K::L2,
        "liqs" => K::Liqs,
        _ => return None,
    })
}

const PAIRS: [(&str, &str); 21] = [
    ("binance_spot", "trades"),
    ("binance_spot", "l1"),
    ("binance_spot", "l2"),
    ("binance_futures_usd", "trades"),
    ("binance_futures_usd", "l1"),
    ("binance_futures_usd", "l2"),
    ("binance_futures_usd", "liqs"),
    ("bitfinex", "trades"),
    ("bitmex", "trades"),
    ("bybit_spot", "trades"),
    ("bybit_perpetuals_usd", "trades"),
    ("coinbase", "trades"),
    ("gateio_spot", "trades"),
    ("gateio_futures_usd", "trades"),
    ("gateio_futures_btc", "trades"),
    ("gateio_perpetuals_usd", "trades"),
    ("gateio_perpetuals_btc", "trades"),
    ("gateio_options", "trades"),
    ("kraken", "trades"),
    ("kraken", "l1"),
    ("okx", "trades"),
];

fn single_trade(ex: &str) -> bool {
    matches!(
        ex,
        "binance_spot" | "binance_futures_usd" | "bitfinex" | "coinbase" | "gateio_spot"
    )
}

/// which message shapes exist for the pair (mirrors `shapeOk` of the model)
fn shape_ok(ex: &str, kind: K, msg: &Msg) -> bool {
    let n = msg.items.len();
    match kind {
        K::Trades => {
            if ex == "bitfinex" {
                n <= 1
            } else if single_trade(ex) {
                n == 1
            } else {
                true
            }
        }
        K::L1 => n == 2,
        K::L2 => {
            n >= 1
                && msg.items.iter().filter(|i| !i.sell).count() <= 1
                && msg.items.iter().filter(|i| i.sell).count() <= 1
        }
        K::Liqs => n == 1,
    }
}

fn json_for(ex: &str, kind: K, m: &Msg) -> String {
    let it0 = m.items.first();
    match (ex, kind) {
        ("binance_spot" | "binance_futures_usd", K::Trades) => {
            let it = it0.unwrap();
            format!(
                r#"{{"e":"trade","E":{t},"s":{s},"t":12345,"p":{p},"q":{a},"b":88,"a":50,"T":{t},"m":{mk},"M":true}}"#,
                t = it.time,
                s = q(&m.market),
                p = q(&it.price),
                a = q(&it.amount),
                mk = it.sell
            )
        }
        ("binance_spot" | "binance_futures_usd", K::L1) => {
            let (b, a) = (&m.items[0], &m.items[1]);
            format!(
                r#"{{"e":"bookTicker","u":400900217,"s":{s},"b":{bp},"B":{ba},"a":{ap},"A":{aa},"T":{t},"E":{t}}}"#,
                s = q(&m.market),
                bp = q(&b.price),
                ba = q(&b.amount),
                ap = q(&a.price),
                aa = q(&a.amount),
                t = b.time
            )
        }
        ("binance_spot" | "binance_futures_usd", K::L2) => {
            let lv = |sell: bool| {
                m.items
                    .iter()
                    .filter(|i| i.sell == sell)
                    .map(|i| format!("[{},{}]", q(&i.price), q(&i.amount)))
                    .collect::<Vec<_>>()
                    .join(",")
            };
            format!(
                r#"{{"e":"depthUpdate","E":{t},"T":{t},"s":{s},"U":{u0},"u":{u1},"pu":{pu},"b":[{b}],"a":[{a}]}}"#,
                // a valid first update after the snapshot of the market the message names (spot: U <= seq+1 <= u;
                // futures: U <= seq <= u)
                u0 = l2_seq(&m.market),
                u1 = l2_seq(&m.market) + 1,
                pu = l2_seq(&m.market) - 1,
                t = it0.unwrap().time,
                s = q(&m.market),
                b = lv(false),
                a = lv(true)
            )
        }
        ("binance_futures_usd", K::Liqs) => {
            let it = it0.unwrap();
            format!(
                r#"{{"e":"forceOrder","E":{t},"o":{{"s":{s},"S":{sd},"o":"LIMIT","f":"IOC","q":{a},"p":{p},"ap":{p},"X":"FILLED","l":{a},"z":{a},"T":{t}}}}}"#,
                t = it.time,
                s = q(&m.market),
                sd = if it.sell { "\"SELL\"" } else { "\"BUY\"" },
                a = q(&it.amount),
                p = q(&it.price)
            )
        }
        ("bitfinex", K::Trades) => match it0 {
            None => format!(r#"[{},"hb"]"#, m.chan_id),
            Some(it) => format!(
                r#"[{},"te",[1225484398,{},{},{}]]"#,
                m.chan_id, it.time, it.amount, it.price
            ),
        },
        ("bitmex", K::Trades) => {
            let data = m
                .items
                .iter()
                .map(|it| {
                    format!(
                        r#"{{"timestamp":{ts},"symbol":{s},"side":{sd},"size":{a},"price":{p},"tickDirection":"MinusTick","trdMatchID":"31e50cb7"}}"#,
                        ts = q(&rfc3339(it.time)),
                        s = q(&m.market),
                        sd = if it.sell { "\"Sell\"" } else { "\"Buy\"" },
                        a = it.amount,
                        p = it.price
                    )
                })
                .collect::<Vec<_>>()
                .join(",");
            format!(r#"{{"table":{},"action":"insert","data":[{}]}}"#, q(&m.chan), data)
        }
        ("bybit_spot" | "bybit_perpetuals_usd", K::Trades) => {
            let data = m
                .items
                .iter()
                .map(|it| {
                    format!(
                        r#"{{"T":{t},"s":{s},"S":{sd},"v":{a},"p":{p},"L":"PlusTick","i":"20f43950","BT":false}}"#,
                        t = it.time,
                        s = q(&m.market),
                        sd = if it.sell { "\"Sell\"" } else { "\"Buy\"" },
                        a = q(&it.amount),
                        p = q(&it.price)
                    )
                })
                .collect::<Vec<_>>()
                .join(",");
            format!(
                r#"{{"topic":"{}.{}","type":"snapshot","ts":1,"data":[{}]}}"#,
                m.chan, m.market, data
            )
        }
        ("coinbase", K::Trades) => {
            let it = it0.unwrap();
            format!(
                r#"{{"type":"match","trade_id":10,"sequence":50,"maker_order_id":"a","taker_order_id":"b","time":{ts},"product_id":{s},"size":{a},"price":{p},"side":{sd}}}"#,
                ts = q(&rfc3339(it.time)),
                s = q(&m.market),
                a = q(&it.amount),
                p = q(&it.price),
                sd = if it.sell { "\"sell\"" } else { "\"buy\"" }
            )
        }
        ("gateio_spot", K::Trades) => {
            let it = it0.unwrap();
            format!(
                r#"{{"time":1,"time_ms":1,"channel":{c},"event":"update","result":{{"id":309143071,"create_time":1,"create_time_ms":"{t}.0","side":{sd},"currency_pair":{s},"amount":{a},"price":{p}}}}}"#,
                c = q(&m.chan),
                t = it.time,
                sd = if it.sell { "\"sell\"" } else { "\"buy\"" },
                s = q(&m.market),
                a = q(&it.amount),
                p = q(&it.price)
            )
        }
        (
            "gateio_futures_usd" | "gateio_futures_btc" | "gateio_perpetuals_usd"
            | "gateio_perpetuals_btc" | "gateio_options",
            K::Trades,
        ) => {
            let data = m
                .items
                .iter()
                .map(|it| {
                    format!(
                        r#"{{"size":{a},"id":27753479,"create_time":1,"create_time_ms":{t},"price":{p},"contract":{s}}}"#,
                        a = it.amount,
                        t = it.time,
                        p = q(&it.price),
                        s = q(&m.market)
                    )
                })
                .collect::<Vec<_>>()
                .join(",");
            format!(
                r#"{{"channel":{},"event":"update","time":1,"result":[{}]}}"#,
                q(&m.chan),
                data
            )
        }
        ("kraken", K::Trades) => {
            let data = m
                .items
                .iter()
                .map(|it| {
                    format!(
                        r#"[{p},{a},{t},{sd},"l",""]"#,
                        p = q(&it.price),
                        a = q(&it.amount),
                        t = q(&secs_frac(it.time)),
                        sd = if it.sell { "\"s\"" } else { "\"b\"" }
                    )
                })
                .collect::<Vec<_>>()
                .join(",");
            format!(r#"[0,[{}],{},{}]"#, data, q(&m.chan), q(&m.market))
        }
        ("kraken", K::L1) => {
            let (b, a) = (&m.items[0], &m.items[1]);
            format!(
                r#"[0,[{bp},{ap},{t},{ba},{aa}],{c},{s}]"#,
                bp = q(&b.price),
                ap = q(&a.price),
                t = q(&secs_frac(b.time)),
                ba = q(&b.amount),
                aa = q(&a.amount),
                c = q(&m.chan),
                s = q(&m.market)
            )
        }
        ("okx", K::Trades) => {
            let data = m
                .items
                .iter()
                .map(|it| {
                    format!(
                        r#"{{"instId":{s},"tradeId":"130639474","px":{p},"sz":{a},"side":{sd},"ts":"{t}"}}"#,
                        s = q(&m.market),
                        p = q(&it.price),
                        a = q(&it.amount),
                        sd = if it.sell { "\"sell\"" } else { "\"buy\"" },
                        t = it.time
                    )
                })
                .collect::<Vec<_>>()
                .join(",");
            format!(
                r#"{{"arg":{{"channel":{},"instId":{}}},"data":[{}]}}"#,
                q(&m.chan),
                q(&m.market),
                data
            )
        }
        other => panic!("no payload for {other:?}"),
    }
}

/// Names of the protocol -> connector type and kind value (the 21 arms of `DynamicStreams::init`). Which
/// transformer and which venue message type belong to a pair is NOT in this table: `Sess` takes them from
/// `StreamSelector::Stream`.
fn open_session(ex: &str, kind: K, subs: &Subs, keys: Option<&Vec<usize>>) -> Option<Box<dyn Session>> {
    Some(match (ex, kind) {
        ("binance_spot", K::Trades) => open!(BinanceSpot, PublicTrades, subs, keys),
        ("binance_spot", K::L1) => open!(BinanceSpot, OrderBooksL1, subs, keys),
        ("binance_spot", K::L2) => open!(BinanceSpot, OrderBooksL2, subs, keys),
        ("binance_futures_usd", K::Trades) => open!(BinanceFuturesUsd, PublicTrades, subs, keys),
        ("binance_futures_usd", K::L1) => open!(BinanceFuturesUsd, OrderBooksL1, subs, keys),
        ("binance_futures_usd", K::L2) => open!(BinanceFuturesUsd, OrderBooksL2, subs, keys),
        ("binance_futures_usd", K::Liqs) => open!(BinanceFuturesUsd, Liquidations, subs, keys),
        ("bitfinex", K::Trades) => open!(Bitfinex, PublicTrades, subs, keys),
        ("bitmex", K::Trades) => open!(Bitmex, PublicTrades, subs, keys),
        ("bybit_spot", K::Trades) => open!(BybitSpot, PublicTrades, subs, keys),
        ("bybit_perpetuals_usd", K::Trades) => open!(BybitPerpetualsUsd, PublicTrades, subs, keys),
        ("coinbase", K::Trades) => open!(Coinbase, PublicTrades, subs, keys),
        ("gateio_spot", K::Trades) => open!(GateioSpot, PublicTrades, subs, keys),
        ("gateio_futures_usd", K::Trades) => open!(GateioFuturesUsd, PublicTrades, subs, keys),
        ("gateio_futures_btc", K::Trades) => open!(GateioFuturesBtc, PublicTrades, subs, keys),
        ("gateio_perpetuals_usd", K::Trades) => open!(GateioPerpetualsUsd, PublicTrades, subs, keys),
        ("gateio_perpetuals_btc", K::Trades) => open!(GateioPerpetualsBtc, PublicTrades, subs, keys),
        ("gateio_options", K::Trades) => open!(GateioOptions, PublicTrades, subs, keys),
        ("kraken", K::Trades) => open!(Kraken, PublicTrades, subs, keys),
        ("kraken", K::L1) => open!(Kraken, OrderBooksL1, subs, keys),
        ("okx", K::Trades) => open!(Okx, PublicTrades, subs, keys),
        _ => return None,
    })
}

fn run() {
    run_cases(|case, lines| {
        let mut state: Option<(String, K, Box<dyn Session>)> = None;
        // a `keys` line waiting for its `sub`
        let mut pending: Option<Vec<usize>> = None;
        for op in &case.ops {
            lines.push("@".into());
            match op[0].as_str() {
                "keys" => match parse_keys(&op[1..]) {
                    Some(ks) => {
                        lines.push(format!("keys {}", ks.len()));
                        pending = Some(ks);
                    }
                    None => {
                        pending = None;
                        lines.push("bad-op".into());
                    }
                },
                "sub" if op.len() >= 3 => {
                    let keys = pending.take();
                    let kind = parse_kind(&op[2]);
                    // keys belong to a keyed subscription list of the same length
                    let insts = parse_subs(&op[3..]).filter(|s| match (&keys, s) {
                        (None, _) => true,
                        (Some(_), Subs::Unkeyed(_)) => false,
                        (Some(ks), Subs::Formatted(v)) => ks.len() == v.len(),
                        (Some(ks), Subs::Verbatim(v)) => ks.len() == v.len(),
                    });
                    match (kind, insts) {
                        (Some(kind), Some(insts)) => match open_session(&op[1], kind, &insts, keys.as_ref()) {
                            Some(sess) => {
                                lines.push(sess.map_line());
                                state = Some((op[1].clone(), kind, sess));
                            }
                            None => lines.push("bad-op".into()),
                        },
                        _ => lines.push("bad-op".into()),
                    }
                }
                "conf" if op.len() == 4 => match (&mut state, op[3].parse::<u32>()) {
                    (Some((ex, _, sess)), Ok(cid)) if ex == "bitfinex" => {
                        sess.conf(&op[1], &op[2], cid);
                        lines.push(sess.map_line());
                    }
                    _ => lines.push("bad-op".into()),
                },
                "msg" => match (&state, parse_msg(&op[1..])) {
                    (Some((ex, kind, sess)), Some(msg)) if shape_ok(ex, *kind, &msg) => {
                        let json = json_for(ex, *kind, &msg);
                        sess.msg(&json, lines);
                    }
                    _ => lines.push("bad-op".into()),
                },
                // venue messages that are not market data (heartbeats, venue errors, command responses)
                "noise" if op.len() == 2 => match (&state, noise_json(op[1].as_str())) {
                    (Some((ex, _, sess)), Some((venues, json))) if venues.contains(&ex.as_str()) => {
                        sess.msg(json, lines);
                    }
                    _ => lines.push("bad-op".into()),
                },
                _ => lines.push("bad-op".into()),
            }
        }
    });
}

/// the venues' documented non-market messages (kraken/message.rs tests, bybit/subscription.rs docs)
fn noise_json(v: &str) -> Option<(&'static [&'static str], &'static str)> {
    const KRAKEN: &[&str] = &["kraken"];
    const BYBIT: &[&str] = &["bybit_spot", "bybit_perpetuals_usd"];
    Some(match v {
        "kraken_hb" => (KRAKEN, r#"{"event": "heartbeat"}"#),
        "kraken_err" => (KRAKEN, r#"{"errorMessage": "Malformed request", "event": "error"}"#),
        "bybit_resp" => (
            BYBIT,
            r#"{"success":true,"ret_msg":"subscribe","conn_id":"2324d924-aa4d-45b0-a858-7b8be29ab52b","req_id":"10001","op":"subscribe"}"#,
        ),
        "bybit_pong" => (
            BYBIT,
            r#"{"success":true,"ret_msg":"pong","conn_id":"0970e817-426e-429a-a679-ff7f55e0b16a","op":"ping"}"#,
        ),
        _ => return None,
    })
}

// ------------------------------------------------------------------------------------------ generator
// The generator names markets with its own venue table (what the venues call their symbols), written
// independently of both the code under test and the Lean model.

#[derive(Clone)]
struct GInst {
    base: String,
    quote: String,
    kind: String, // S | P | Fyyyymmdd | Oyyyymmdd:k:C
    /// `Some(name_exchange)`: subscribed through `MarketInstrumentData` under this name, verbatim
    verbatim: Option<String>,
    /// subscribed as a plain `MarketDataInstrument` (instrument key = the instrument itself)
    unkeyed: bool,
}

impl GInst {
    fn tok(&self) -> String {
        match &self.verbatim {
            Some(name) => format!("@{name}:{}", self.kind),
            None if self.unkeyed => format!("={}:{}:{}", self.base, self.quote, self.kind),
            None => format!("{}:{}:{}", self.base, self.quote, self.kind),
        }
    }
    /// the market the instrument is subscribed under: the supplied name, or the venue's symbol
    fn sub_symbol(&self, ex: &str) -> String {
        self.verbatim.clone().unwrap_or_else(|| self.venue_symbol(ex))
    }
    fn venue_symbol(&self, ex: &str) -> String {
        let b = self.base.to_ascii_uppercase();
        let qt = self.quote.to_ascii_uppercase();
        let kf: Vec<&str> = self.kind.split(':').collect();
        match ex {
            "binance_spot" | "binance_futures_usd" | "bybit_spot" | "bybit_perpetuals_usd" | "bitmex" => {
                format!("{b}{qt}")
            }
            "bitfinex" => format!("t{b}{qt}"),
            "coinbase" => format!("{b}-{qt}"),
            "kraken" => format!("{b}/{qt}"),
            "okx" => match kf[0].as_bytes()[0] {
                b'S' => format!("{b}-{qt}"),
                b'P' => format!("{b}-{qt}-SWAP"),
                b'F' => format!("{b}-{qt}-{}", &kf[0][3..]),
                _ => format!("{b}-{qt}-{}-{}-{}", &kf[0][3..], kf[1], kf[2]),
            },
            _ => match kf[0].as_bytes()[0] {
                b'S' | b'P' => format!("{b}_{qt}"),
                b'F' => format!("{b}_{qt}_QUARTERLY_{}", &kf[0][1..]),
                _ => format!("{b}_{qt}-{}-{}-{}", &kf[0][1..], kf[1], kf[2]),
            },
        }
    }
    fn venue_channel(&self, ex: &str, kind: &str) -> &'static str {
        match (ex, kind) {
            ("binance_spot" | "binance_futures_usd", "trades") => "@trade",
            ("binance_spot" | "binance_futures_usd", "l1") => "@bookTicker",
            ("binance_spot" | "binance_futures_usd", "l2") => "@depth@100ms",
            ("binance_futures_usd", "liqs") => "@forceOrder",
            ("bitfinex", _) => "trades",
            ("bitmex", _) => "trade",
            ("bybit_spot" | "bybit_perpetuals_usd", _) => "publicTrade",
            ("coinbase", _) => "matches",
            ("kraken", "trades") => "trade",
            ("kraken", _) => "spread",
            ("okx", _) => "trades",
            _ => match self.kind.as_bytes()[0] {
                b'S' => "spot.trades",
                b'O' => "options.trades",
                _ => "futures.trades",
            },
        }
    }
}

const ASSETS: [&str; 22] = [
    "btc", "BTC", "Btc", "eth", "ETH", "usdt", "USDT", "usd", "Usd", "xbt", "XBT", "1inch", "a1",
    "A1", "b", "bt", "cusd", "tc", "usdc", "C98", "eth2", "e",
];
const DATES: [&str; 6] = ["20251226", "20260327", "20260626", "20261225", "20270326", "20300628"];
/// expiry dates whose ISO-8601 week-based year differs from the calendar year
const ISO_BOUNDARY_DATES: [&str; 4] = ["20270101", "20241230", "20210101", "20291231"];

fn gen_kind(rng: &mut Rng, ex: &str, iso_boundary: bool) -> String {
    let date = |rng: &mut Rng| -> &'static str {
        if iso_boundary && rng.chance(25) {
            *rng.pick(&ISO_BOUNDARY_DATES)
        } else {
            *rng.pick(&DATES)
        }
    };
    let opt = |rng: &mut Rng| {
        let d = date(rng);
        let k = *rng.pick(&[1u64, 250, 30000, 50000]);
        let c = *rng.pick(&["C", "P"]);
        format!("O{d}:{k}:{c}")
    };
    match ex {
        "binance_futures_usd" | "bitmex" | "bybit_perpetuals_usd" | "gateio_perpetuals_usd"
        | "gateio_perpetuals_btc" => "P".into(),
        "gateio_futures_usd" | "gateio_futures_btc" => format!("F{}", date(rng)),
        "gateio_options" => opt(rng),
        "okx" => match rng.below(4) {
            0 => "S".into(),
            1 => "P".into(),
            2 => format!("F{}", date(rng)),
            _ => opt(rng),
        },
        _ => "S".into(),
    }
}

fn dyadic(rng: &mut Rng, allow_zero: bool) -> String {
    // k/8 with k small: exactly representable as f64 and as Decimal
    let k = if allow_zero && rng.chance(8) { 0 } else { rng.range(1, 4000) };
    dec_str(k * 125, 3)
}

fn mutate_symbol(rng: &mut Rng, s: &str) -> String {
    match rng.below(6) {
        0 => s.to_ascii_lowercase(),
        1 => format!("{s}X"),
        2 if s.len() > 1 => s[..s.len() - 1].to_string(),
        3 => s.replace(['-', '_', '/'], ""),
        4 => s.replace('-', "_").replace('/', "-"),
        _ => {
            let mut c: Vec<char> = s.chars().collect();
            if let Some(x) = c.first_mut() {
                *x = if *x == 'Z' { 'Y' } else { 'Z' };
            }
            c.into_iter().collect()
        }
    }
}

fn generate(seed: u64, n_cases: usize, tier: &str) {
    let mut out = Out::new();
    let mut rng = Rng::new(seed);
    // expiry dates whose ISO week-based year differs from the calendar year are ordinary inputs (regression
    // guard for the Okx `%g` defect fixed in /repo commit ef20a36)
    let iso_boundary = true;
    let thorough = tier == "thorough";
    for id in 0..n_cases {
        let (ex, kind) = PAIRS[id % PAIRS.len()];
        out.case(format!("{}-{ex}-{kind}", id + 1));
        // instruments: small pool of names so that prefixes/case variants/concatenation collisions occur
        let n_inst = rng.range(1, if thorough { 6 } else { 4 }) as usize;
        // a third of the cases subscribe through `MarketInstrumentData` (name_exchange verbatim): the name is
        // the venue's symbol for the underlying (70 %), that symbol in the wrong case (15 %), or ANOTHER
        // venue's symbol for the same underlying (15 %) - nothing normalises either
        let round = id / PAIRS.len();
        let verbatim_case = round % 3 == 2;
        // a quarter of the formatted cases (every fourth formatted round over the 21 pairs) subscribe the plain,
        // un-keyed `MarketDataInstrument` (the first `Identifier<Market>` impl of every connector; the README form)
        let unkeyed_case = !verbatim_case && ((round / 3) * 2 + round % 3) % 4 == 3;
        let mut insts: Vec<GInst> = Vec::new();
        for _ in 0..n_inst {
            let base = rng.pick(&ASSETS).to_string();
            let mut quote = rng.pick(&ASSETS).to_string();
            if quote.eq_ignore_ascii_case(&base) {
                quote = "usdt".into();
            }
            let mut inst = GInst { base, quote, kind: gen_kind(&mut rng, ex, iso_boundary), verbatim: None, unkeyed: unkeyed_case };
            if verbatim_case {
                let sym = inst.venue_symbol(ex);
                inst.verbatim = Some(match rng.below(100) {
                    0..=69 => sym,
                    70..=84 => {
                        if sym.chars().any(|c| c.is_ascii_uppercase()) {
                            sym.to_ascii_lowercase()
                        } else {
                            sym.to_ascii_uppercase()
                        }
                    }
                    _ => {
                        let other = rng.pick(&PAIRS).0;
                        inst.venue_symbol(other)
                    }
                });
            }
            insts.push(inst);
        }
        out.line(format!(
            "sub {ex} {kind} {}",
            insts.iter().map(|i| i.tok()).collect::<Vec<_>>().join(" ")
        ));
        // an instrument that is not subscribed (for unsubscribed-market messages)
        let outsider = GInst {
            base: rng.pick(&ASSETS).to_string(),
            quote: "dai".into(),
            kind: gen_kind(&mut rng, ex, iso_boundary),
            verbatim: None,
            unkeyed: false,
        };
        // Bitfinex: the venue confirms (a subset of) the subscriptions with distinct channel ids, each
        // symbol at most once; now and then it confirms something that was never subscribed
        let mut chan_ids: Vec<(String, u32)> = Vec::new();
        if ex == "bitfinex" {
            let mut next = rng.range(1, 5) as u32;
            let mut order: Vec<usize> = (0..insts.len()).collect();
            for i in (1..order.len()).rev() {
                order.swap(i, rng.below(i as u64 + 1) as usize);
            }
            for k in order {
                if rng.chance(85) {
                    let sym = insts[k].sub_symbol(ex);
                    if chan_ids.iter().any(|(s, _)| *s == sym) {
                        continue;
                    }
                    out.line(format!("conf trades {sym} {next}"));
                    chan_ids.push((sym, next));
                    next += rng.range(1, 3) as u32;
                }
            }
            if rng.chance(30) {
                out.line(format!("conf trades {} {next}", outsider.venue_symbol(ex)));
                chan_ids.push((outsider.venue_symbol(ex), next));
            }
        }
        let n_msg = rng.range(2, if thorough { 10 } else { 6 });
        let base_time: i64 = 1_700_000_000_000 + rng.range(0, 1_000_000) * 1000;
        for _ in 0..n_msg {
            // non-market traffic in between (heartbeats, venue errors, command responses)
            if ex == "kraken" && rng.chance(25) {
                out.line(format!("noise {}", rng.pick(&["kraken_hb", "kraken_hb", "kraken_err"])));
            }
            if ex.starts_with("bybit_") && rng.chance(25) {
                out.line(format!("noise {}", rng.pick(&["bybit_resp", "bybit_pong"])));
            }
            // whose market does the message name?
            let roll = rng.below(100);
            let (symbol, chan) = if roll < 55 {
                let i = rng.pick(&insts);
                // what the venue sends for the underlying; for a verbatim subscription half of the time the
                // name it was subscribed under (differs when the name is not the venue's symbol)
                let sym = if i.verbatim.is_some() && rng.chance(50) { i.sub_symbol(ex) } else { i.venue_symbol(ex) };
                (sym, i.venue_channel(ex, kind))
            } else if roll < 70 {
                (outsider.venue_symbol(ex), outsider.venue_channel(ex, kind))
            } else {
                let i = rng.pick(&insts);
                (mutate_symbol(&mut rng, &i.venue_symbol(ex)), i.venue_channel(ex, kind))
            };
            if symbol.is_empty() {
                continue;
            }
            let chan_id = if ex == "bitfinex" {
                match chan_ids.iter().find(|(s, _)| *s == symbol) {
                    Some((_, c)) if rng.chance(90) => *c,
                    _ => rng.range(0, 12) as u32,
                }
            } else {
                0
            };
            let n_items = match kind {
                "l1" => 2,
                "liqs" => 1,
                "l2" => rng.range(1, 2),
                _ if ex == "bitfinex" => if rng.chance(25) { 0 } else { 1 },
                _ if single_trade(ex) => 1,
                _ => *rng.pick(&[0i64, 1, 1, 2, 3]),
            } as usize;
            let mut items = Vec::new();
            let first_sell = rng.chance(50);
            for j in 0..n_items {
                let sell = if kind == "l2" { (j == 1) != first_sell } else { rng.chance(50) };
                let price = dyadic(&mut rng, kind == "l1");
                let mut amount = dyadic(&mut rng, false);
                let signed = ex == "bitfinex" || (ex.starts_with("gateio_") && ex != "gateio_spot");
                if signed && rng.chance(50) {
                    amount = format!("-{amount}");
                }
                // Kraken sends seconds as a decimal string parsed through f64: multiples of 125 ms are exact
                let dt = if ex == "kraken" { rng.range(0, 8000) * 125 } else { rng.range(0, 1_000_000) };
                items.push(format!(
                    "{price}:{amount}:{}:{}",
                    if sell { "s" } else { "b" },
                    base_time + dt
                ));
            }
            out.line(format!("msg {chan} {symbol} {chan_id} {}", items.join(" ")).trim_end().to_string());
        }
    }
    // the input-domain family: separately seeded, after the random cases (which stay as they were)
    generate_domain(seed, n_cases / 4, n_cases, &mut out);
    // the configuration-shape family: separately seeded, after both (which stay as they were)
    generate_keys(seed, n_cases / 5, n_cases + n_cases / 4, &mut out);
    out.flush();
}

// ------------------------------------------------------------------------------------------ configuration-shape family
// Every case above subscribes the k-th instrument under key k. The engine's indexed market stream
// (`init_indexed_multi_exchange_market_stream`) subscribes each instrument under its GLOBAL `InstrumentIndex`: the
// keys of one connection do not start at 0, are not contiguous and need not ascend in subscription order. This
// family (ids `<n>-cfgk-<exchange>-<kind>`; a `keys` line before the `sub`) cycles over the 21 pairs with 2-6
// distinct instruments, formatted or verbatim, under keys that are REVERSED positions, positions + an offset,
// a shuffled sparse subset of 0..60, or large (10^15 + ..); most messages name a subscribed market, so that the
// key of nearly every event is checked; the L2 pairs additionally meet per-market snapshot sequences (`l2_seq`).
fn generate_keys(seed: u64, n_extra: usize, first_id: usize, out: &mut Out) {
    let mut rng = Rng::new(seed ^ 0xC13_0CF6_4B45);
    const BASES: [&str; 8] = ["btc", "eth", "sol", "xrp", "ada", "dot", "BTC1", "a1"];
    for j in 0..n_extra {
        let (ex, kind) = PAIRS[j % PAIRS.len()];
        out.case(format!("{}-cfgk-{ex}-{kind}", first_id + j + 1));
        let n_inst = rng.range(2, 6) as usize;
        let verbatim = rng.chance(50);
        let mut insts: Vec<GInst> = vec![];
        let mut guard = 0;
        while insts.len() < n_inst && guard < 50 {
            guard += 1;
            let base = rng.pick(&BASES).to_string();
            let quote = rng.pick(&["usdt", "usd", "USDC"]).to_string();
            let mut inst = GInst { base, quote, kind: gen_kind(&mut rng, ex, true), verbatim: None, unkeyed: false };
            // pairwise distinct venue symbols (the property's hypothesis)
            if insts.iter().any(|i| i.venue_symbol(ex).eq_ignore_ascii_case(&inst.venue_symbol(ex))) {
                continue;
            }
            if verbatim {
                inst.verbatim = Some(inst.venue_symbol(ex));
            }
            insts.push(inst);
        }
        let n = insts.len();
        let keys: Vec<u64> = match rng.below(4) {
            0 => (0..n as u64).rev().collect(),
            1 => {
                let off = *rng.pick(&[1u64, 7, 1000]);
                (0..n as u64).map(|k| k + off).collect()
            }
            2 => {
                let mut pool: Vec<u64> = (0..60).collect();
                for i in (1..pool.len()).rev() {
                    pool.swap(i, rng.below(i as u64 + 1) as usize);
                }
                pool.truncate(n);
                pool
            }
            _ => {
                let mut v: Vec<u64> = (0..n as u64).map(|k| 1_000_000_000_000_000 + 3 * k).collect();
                v.swap(0, n - 1);
                v
            }
        };
        out.line(format!("keys {}", keys.iter().map(|k| k.to_string()).collect::<Vec<_>>().join(" ")));
        out.line(format!("sub {ex} {kind} {}", insts.iter().map(|i| i.tok()).collect::<Vec<_>>().join(" ")));
        let outsider = GInst { base: "ltc".into(), quote: "dai".into(), kind: gen_kind(&mut rng, ex, true), verbatim: None, unkeyed: false };
        let mut chan_ids: Vec<(String, u32)> = Vec::new();
        if ex == "bitfinex" {
            // confirmed in reverse subscription order under ascending channel ids
            let mut next = rng.range(1, 5) as u32;
            for i in insts.iter().rev() {
                if rng.chance(90) {
                    out.line(format!("conf trades {} {next}", i.sub_symbol(ex)));
                    chan_ids.push((i.sub_symbol(ex), next));
                    next += rng.range(1, 3) as u32;
                }
            }
        }
        let base_time: i64 = 1_700_000_000_000 + rng.range(0, 1_000_000) * 1000;
        for _ in 0..rng.range(3, 7) {
            let (symbol, chan) = if rng.chance(80) {
                let i = rng.pick(&insts);
                (i.venue_symbol(ex), i.venue_channel(ex, kind))
            } else {
                (outsider.venue_symbol(ex), outsider.venue_channel(ex, kind))
            };
            let chan_id = if ex == "bitfinex" {
                match chan_ids.iter().find(|(s, _)| *s == symbol) {
                    Some((_, c)) => *c,
                    None => 99,
                }
            } else {
                0
            };
            let n_items = match kind {
                "l1" => 2,
                "liqs" => 1,
                "l2" => rng.range(1, 2),
                _ if ex == "bitfinex" => 1,
                _ if single_trade(ex) => 1,
                _ => *rng.pick(&[1i64, 1, 2, 3]),
            } as usize;
            let mut items = Vec::new();
            let first_sell = rng.chance(50);
            for j in 0..n_items {
                let sell = if kind == "l2" { (j == 1) != first_sell } else { rng.chance(50) };
                let price = dyadic(&mut rng, false);
                let mut amount = dyadic(&mut rng, false);
                let signed = ex == "bitfinex" || (ex.starts_with("gateio_") && ex != "gateio_spot");
                if signed && rng.chance(50) {
                    amount = format!("-{amount}");
                }
                let dt = if ex == "kraken" { rng.range(0, 8000) * 125 } else { rng.range(0, 1_000_000) };
                items.push(format!("{price}:{amount}:{}:{}", if sell { "s" } else { "b" }, base_time + dt));
            }
            out.line(format!("msg {chan} {symbol} {chan_id} {}", items.join(" ")).trim_end().to_string());
        }
    }
}

// ------------------------------------------------------------------------------------------ domain family
// Input classes of the property's quantifier that the random family above produces never or almost never:
// instrument SETS (empty, one instrument with base == quote, 30-40 instruments with numbered names where one name is
// a prefix of another, case-variant twins + exact duplicates, the same base/quote under every kind / two expiries /
// two strikes / call+put the pair accepts), MESSAGES (a sibling market that differs from a subscribed one only by
// kind suffix, expiry, strike or C/P; first char dropped / char prepended / one char case-flipped; a subscribed market
// on ANOTHER channel for the venues whose payload names its channel), VALUES (exact extremes 2^-27 .. 2^52, amount 0,
// many-digit decimals where the event field is a Decimal) and TIMES (0, equal, decreasing by one, successive).

/// extreme magnitudes that are exact both as f64 and as Decimal (dyadic rationals)
const DYADIC_EXTREMES: [&str; 8] = [
    "1000000000000",
    "1099511627776.5",
    "4503599627370496",
    "123456789.015625",
    "0.00000095367431640625",
    "0.000000007450580596923828125",
    "0.0009765625",
    "1",
];
/// many-digit decimals for the kinds whose event fields are `Decimal` (L1 / L2 levels): no f64 in between
const DECIMAL_EXTREMES: [&str; 6] = [
    "0.00000001",
    "123456789012.12345678",
    "99999999999.99999999",
    "1000000000000",
    "0.1",
    "31415.92653589793",
];
/// channel texts a venue that names the channel in its payload can send besides the subscribed one
const OTHER_CHANNELS: [&str; 12] = [
    "tickers", "bbo-tbt", "books", "trade", "trades", "Trades", "quote", "spot.book_ticker", "spot.trades",
    "futures.trades", "options.trades", "futures.book_ticker",
];

fn reads_chan(ex: &str) -> bool {
    ex == "okx" || ex == "bitmex" || ex.starts_with("gateio_")
}

/// every kind token the dynamic builder accepts for the venue, over two expiries / two strikes / both option kinds
fn sibling_kinds(ex: &str) -> Vec<String> {
    let opts = |d: &str| vec![format!("O{d}:30000:C"), format!("O{d}:30000:P"), format!("O{d}:3000:C")];
    match ex {
        "binance_futures_usd" | "bitmex" | "bybit_perpetuals_usd" | "gateio_perpetuals_usd" | "gateio_perpetuals_btc" => {
            vec!["P".into()]
        }
        "gateio_futures_usd" | "gateio_futures_btc" => vec!["F20260327".into(), "F20260626".into(), "F20270101".into()],
        "gateio_options" => [opts("20260327"), opts("20260626")].concat(),
        "okx" => [
            vec!["S".to_string(), "P".into(), "F20260327".into(), "F20260626".into()],
            opts("20260327"),
            vec!["O20260626:30000:C".into()],
        ]
        .concat(),
        _ => vec!["S".into()],
    }
}

fn mutate_symbol_more(rng: &mut Rng, s: &str) -> String {
    let c: Vec<char> = s.chars().collect();
    match rng.below(6) {
        // suffix of a subscribed symbol
        0 if c.len() > 1 => c[1..].iter().collect(),
        // a subscribed symbol is a suffix of it
        1 => format!("X{s}"),
        // one letter in the other case
        2 => {
            let letters: Vec<usize> = (0..c.len()).filter(|i| c[*i].is_ascii_alphabetic()).collect();
            let mut c = c.clone();
            if !letters.is_empty() {
                let i = *rng.pick(&letters);
                c[i] = if c[i].is_ascii_uppercase() { c[i].to_ascii_lowercase() } else { c[i].to_ascii_uppercase() };
            }
            c.into_iter().collect()
        }
        // kind suffix dropped / added (BTC-USDT-SWAP <-> BTC-USDT, .._QUARTERLY_.. <-> .._)
        3 => match s.rfind(['-', '_']) {
            Some(i) if i > 0 => s[..i].to_string(),
            _ => format!("{s}-SWAP"),
        },
        4 => format!("{s}-SWAP"),
        // last digit changed (another expiry / strike) or a digit appended
        _ => match c.iter().rposition(|x| x.is_ascii_digit()) {
            Some(i) => {
                let mut c = c.clone();
                c[i] = if c[i] == '9' { '0' } else { (c[i] as u8 + 1) as char };
                c.into_iter().collect()
            }
            None => format!("{s}0"),
        },
    }
}

fn generate_domain(seed: u64, n_extra: usize, first_id: usize, out: &mut Out) {
    let mut rng = Rng::new(seed ^ 0xD0_4A_13);
    for e in 0..n_extra {
        let (ex, kind) = PAIRS[e % PAIRS.len()];
        let round = e / PAIRS.len();
        // the set class walks through all six per pair (shifted per pair so that a short run covers every class)
        let set_class = (round + e % PAIRS.len()) % 6;
        let rep = rng.below(4); // 0,1 formatted   2 verbatim   3 un-keyed
        out.case(format!("{}-dom{set_class}-{ex}-{kind}", first_id + e + 1));
        let kinds = sibling_kinds(ex);
        let mk = |base: &str, quote: &str, k: &str| GInst {
            base: base.into(),
            quote: quote.into(),
            kind: k.into(),
            verbatim: None,
            unkeyed: rep == 3,
        };
        let mut insts: Vec<GInst> = Vec::new();
        match set_class {
            // the empty set: every message is for an unsubscribed market
            0 => {}
            // one instrument whose base and quote are the same asset / differ only in case
            1 => {
                let a = *rng.pick(&ASSETS);
                let b = if rng.chance(50) { a.to_string() } else { a.to_ascii_uppercase() };
                insts.push(mk(a, &b, rng.pick(&kinds[..]).as_str()));
            }
            // 30-40 instruments, numbered names: btc1 is a prefix of btc12, a1+2 collides with a+12 on concatenating venues
            2 => {
                let n = rng.range(30, 40) as usize;
                let stem = *rng.pick(&ASSETS);
                for k in 0..n {
                    let base = if k % 3 == 2 { rng.pick(&ASSETS).to_string() } else { format!("{stem}{}", k + 1) };
                    let quote = *rng.pick(&["usdt", "USD", "2usd", "tc"]);
                    insts.push(mk(&base, quote, rng.pick(&kinds[..]).as_str()));
                }
            }
            // names that differ only in case, the same subscription twice, and something else
            3 => {
                let a = *rng.pick(&["btc", "eth", "a1", "c98", "xbt", "1inch"]);
                let qt = *rng.pick(&["usdt", "usd", "Usd"]);
                let k0 = rng.pick(&kinds[..]).clone();
                insts.push(mk(a, qt, &k0));
                insts.push(mk(&a.to_ascii_uppercase(), qt, &k0));
                insts.push(mk(a, qt, &k0));
                insts.push(mk(*rng.pick(&ASSETS), "usdc", rng.pick(&kinds[..]).as_str()));
                if rng.chance(50) {
                    let mut c: Vec<char> = a.chars().collect();
                    c[0] = c[0].to_ascii_uppercase();
                    insts.push(mk(&c.into_iter().collect::<String>(), &qt.to_ascii_uppercase(), &k0));
                }
            }
            // one base/quote under every kind / expiry / strike / C-P the pair accepts, plus prefix relatives
            4 => {
                for k in &kinds {
                    insts.push(mk("btc", "usd", k));
                }
                insts.push(mk("bt", "cusd", &kinds[0]));
                insts.push(mk("b", "tc", &kinds[0]));
                insts.push(mk("btc", "usdc", kinds.last().unwrap()));
                insts.push(mk("btc", "us", &kinds[0]));
            }
            // a small random set as in the random family (the message / value / time classes are what differs)
            _ => {
                for _ in 0..rng.range(1, 4) {
                    let base = rng.pick(&ASSETS).to_string();
                    let quote = rng.pick(&ASSETS).to_string();
                    insts.push(mk(&base, &quote, rng.pick(&kinds[..]).as_str()));
                }
            }
        }
        if rep == 2 {
            for inst in insts.iter_mut() {
                let sym = inst.venue_symbol(ex);
                inst.verbatim = Some(if rng.chance(80) { sym } else { sym.to_ascii_lowercase() });
            }
        }
        // shuffle so that the duplicates / twins are not always first
        for i in (1..insts.len()).rev() {
            insts.swap(i, rng.below(i as u64 + 1) as usize);
        }
        out.line(
            format!("sub {ex} {kind} {}", insts.iter().map(|i| i.tok()).collect::<Vec<_>>().join(" "))
                .trim_end()
                .to_string(),
        );
        let outsider = mk(*rng.pick(&ASSETS), "dai", rng.pick(&kinds[..]).as_str());
        // a sibling of a subscribed instrument: same base / quote, another kind / expiry / strike (unsubscribed
        // unless the set holds it as well); for single-kind venues a base that extends the subscribed one
        let sibling = |rng: &mut Rng, i: &GInst| -> GInst {
            let others: Vec<&String> = kinds.iter().filter(|k| **k != i.kind).collect();
            if others.is_empty() {
                mk(&format!("{}{}", i.base, rng.pick(&["1", "x", "usd"])), &i.quote, &i.kind)
            } else {
                mk(&i.base, &i.quote, rng.pick(&others[..]).as_str())
            }
        };
        let mut chan_ids: Vec<(String, u32)> = Vec::new();
        if ex == "bitfinex" {
            // channel ids from 0, with the largest u32 now and then
            let mut next = rng.below(3) as u32;
            for k in 0..insts.len() {
                if rng.chance(85) {
                    let sym = insts[k].sub_symbol(ex);
                    if chan_ids.iter().any(|(s, _)| *s == sym) {
                        continue;
                    }
                    let cid = if rng.chance(10) && !chan_ids.iter().any(|(_, c)| *c == u32::MAX) { u32::MAX } else { next };
                    out.line(format!("conf trades {sym} {cid}"));
                    chan_ids.push((sym, cid));
                    next += rng.range(1, 2) as u32;
                }
            }
        }
        let n_msg = rng.range(4, 8);
        let base_time: i64 = *rng.pick(&[0i64, 0, 1000, 1_700_000_000_000, 4_102_444_800_000]);
        let mut last_time = base_time;
        let f64_fields = kind == "trades" || kind == "liqs";
        for _ in 0..n_msg {
            let roll = rng.below(100);
            let venue_chan = |i: &GInst| i.venue_channel(ex, kind);
            let (symbol, mut chan) = if insts.is_empty() {
                let o = if roll < 50 { outsider.clone() } else { mk("btc", "usdt", &kinds[0]) };
                (o.venue_symbol(ex), venue_chan(&o).to_string())
            } else if roll < 45 {
                let i = rng.pick(&insts);
                (i.sub_symbol(ex), venue_chan(i).to_string())
            } else if roll < 55 {
                (outsider.venue_symbol(ex), venue_chan(&outsider).to_string())
            } else if roll < 72 {
                let i = rng.pick(&insts).clone();
                let sib = sibling(&mut rng, &i);
                (sib.venue_symbol(ex), venue_chan(&sib).to_string())
            } else {
                let i = rng.pick(&insts);
                (mutate_symbol_more(&mut rng, &i.venue_symbol(ex)), venue_chan(i).to_string())
            };
            if symbol.is_empty() {
                continue;
            }
            // the subscribed market on another channel (only where the payload names its channel)
            if reads_chan(ex) && rng.chance(22) {
                chan = match rng.below(4) {
                    0 => chan.to_ascii_uppercase(),
                    1 => chan[..chan.len() - 1].to_string(),
                    _ => rng.pick(&OTHER_CHANNELS).to_string(),
                };
            }
            let chan_id = if ex == "bitfinex" {
                match chan_ids.iter().find(|(s, _)| *s == symbol) {
                    Some((_, c)) if rng.chance(85) => *c,
                    _ => *rng.pick(&[0u32, 1, 2, 3, u32::MAX]),
                }
            } else {
                0
            };
            let n_items = match kind {
                "l1" => 2,
                "liqs" => 1,
                "l2" => rng.range(1, 2),
                _ if ex == "bitfinex" => if rng.chance(20) { 0 } else { 1 },
                _ if single_trade(ex) => 1,
                _ => *rng.pick(&[0i64, 1, 2, 3, 5]),
            } as usize;
            let mut items = Vec::new();
            let first_sell = rng.chance(50);
            for j in 0..n_items {
                let sell = if kind == "l2" { (j == 1) != first_sell } else { rng.chance(50) };
                let value = |rng: &mut Rng, zero_pct: u64| -> String {
                    if rng.chance(zero_pct) {
                        (*rng.pick(&["0", "0.000", "0.0"])).to_string()
                    } else if rng.chance(55) {
                        if f64_fields || rng.chance(40) { *rng.pick(&DYADIC_EXTREMES) } else { *rng.pick(&DECIMAL_EXTREMES) }.to_string()
                    } else {
                        dyadic(rng, false)
                    }
                };
                let price = value(&mut rng, if kind == "l1" { 12 } else { 0 });
                let mut amount = value(&mut rng, 15);
                let signed = ex == "bitfinex" || (ex.starts_with("gateio_") && ex != "gateio_spot");
                if signed && rng.chance(50) && amount.parse::<Decimal>().is_ok_and(|d| !d.is_zero()) {
                    amount = format!("-{amount}");
                }
                // times: equal to the previous one, one less, one more, or a jump; Kraken in steps of 125 ms
                let unit = if ex == "kraken" { 125 } else { 1 };
                let t = match rng.below(5) {
                    0 | 1 => last_time,
                    2 => (last_time - unit).max(0),
                    3 => last_time + unit,
                    _ => base_time + rng.range(0, 8000) * 125,
                };
                last_time = t;
                items.push(format!("{price}:{amount}:{}:{t}", if sell { "s" } else { "b" }));
            }
            out.line(format!("msg {chan} {symbol} {chan_id} {}", items.join(" ")).trim_end().to_string());
        }
    }
}

fn main() {
    let a = args();
    match a.cmd.as_str() {
        "gen" => generate(a.seed, a.n, &a.tier),
        "run" => run(),
        _ => {
            eprintln!("usage: c13 gen <seed> <n> <tier> | run < cases");
            std::process::exit(2)
        }
    }
}
