//! C08 — simulated exchange ledger.
//!
//! Ops (see `lean/BarterModel/Driver/C08.lean`):
//!   `init <direct|async> <latency_ms> <fee> <n> <bal>*n <k> <base:quote>*k`
//!        the mode may carry a configuration shape `:<m|b|k>:<tok>.<tok>…` (see `parse_mode`)
//!   `open <t> <instr> <B|S> <M|L> <price> <qty> <strategy> <cid> [<ioc|fok|day|gtc|gtcp>]`
//!        (time in force; default ioc for market, gtc for limit; when given, the response's
//!        time in force is printed as `echo_tif`)
//!   `snap <t>` `balances <t>` `orders <t>` `trades <t> <since>` `cancel <t>`
//! `direct`: `MockExchange::open_order` / `account_snapshot` called on the struct.
//! `async` : requests go through `MockExecution` (oneshot responses) to a spawned
//!           `MockExchange::run`, notifications are read from the client's account stream; tokio
//!           current-thread runtime with a paused clock, the client's clock is injected (`t`).
use barter_execution::{
    AccountEventKind, UnindexedAccountEvent, UnindexedAccountSnapshot,
    balance::{AssetBalance, Balance},
    client::{
        ExecutionClient,
        mock::{MockExecution, MockExecutionClientConfig, MockExecutionConfig},
    },
    error::{ApiError, ConnectivityError, OrderError, UnindexedOrderError},
    exchange::mock::MockExchange,
    order::{
        Order, OrderKey, OrderKind, TimeInForce,
        id::{ClientOrderId, StrategyId},
        request::{OrderRequestCancel, OrderRequestOpen, RequestCancel, RequestOpen},
        state::Open,
    },
    trade::Trade,
};
use barter_instrument::{
    Side, Underlying,
    asset::{QuoteAsset, name::AssetNameExchange},
    exchange::ExchangeId,
    instrument::{
        Instrument,
        kind::{
            InstrumentKind,
            future::FutureContract,
            option::{OptionContract, OptionExercise, OptionKind},
            perpetual::PerpetualContract,
        },
        name::InstrumentNameExchange,
        quote::InstrumentQuoteAsset,
        spec::{
            InstrumentSpec, InstrumentSpecNotional, InstrumentSpecPrice, InstrumentSpecQuantity,
            OrderQuantityUnits,
        },
    },
};
use chrono::{DateTime, TimeZone, Utc};
use fnv::FnvHashMap;
use futures::{FutureExt, StreamExt};
use rust_decimal::Decimal;
use std::sync::{
    Arc,
    atomic::{AtomicI64, Ordering},
};
use tokio::sync::{broadcast, mpsc};
use vh::*;

const EXCHANGE: ExchangeId = ExchangeId::Mock;

// ------------------------------------------------------------------ configuration shape (`cfg` cases)
//
// The mode token of `init` may carry a SHAPE: `<direct|async>:<e>:<tok>.<tok>…` (one token per
// instrument, none for k = 0). `<e>` = the exchange id the mock stands for (`m` Mock, `b` BinanceSpot,
// `k` Kraken: `MockExecutionConfig::mocked_exchange`, the snapshot's and every instrument's exchange, the
// client's `mocked_exchange` and the exchange of every request key). A token is `<K><Q><S><C>[+]`:
// K = s|p|f|o (spot / perpetual / future / option), Q = q|b (`InstrumentQuoteAsset::UnderlyingQuote` /
// `UnderlyingBase`), S = one digit: the settlement asset of a derivative (any asset index, also one
// without balance; ignored for spot), C = u|t|c contract size 1 / 10 / 0.01 (ignored for spot), `+` =
// an `InstrumentSpec` with large minima is present. `MockExchange::new` is public and takes any
// `Instrument`; no path of `open_order` reads anything but `underlying`, so the model ignores the shape.
// Without a shape everything is as before: Mock, spot, quoted in the underlying quote, no spec.
thread_local! {
    static CUR_EXCHANGE: std::cell::Cell<ExchangeId> = const { std::cell::Cell::new(EXCHANGE) };
}

fn exch() -> ExchangeId {
    CUR_EXCHANGE.with(|c| c.get())
}

/// an exchange id seen in an answer that is not the configured one (never printed on the real code)
fn check_exch(seen: ExchangeId, place: &str, lines: &mut Vec<String>) {
    if seen != exch() {
        lines.push(format!("exch-mismatch {place} {seen:?}"));
    }
}

#[derive(Clone)]
struct IShape {
    kind: char,
    quote_base: bool,
    settle: usize,
    csize: Decimal,
    spec: bool,
}

fn parse_ishape(tok: &str) -> Option<IShape> {
    let c: Vec<char> = tok.chars().collect();
    if !(c.len() == 4 || (c.len() == 5 && c[4] == '+')) {
        return None;
    }
    Some(IShape {
        kind: "spfo".contains(c[0]).then_some(c[0])?,
        quote_base: match c[1] {
            'q' => false,
            'b' => true,
            _ => return None,
        },
        settle: c[2].to_digit(10)? as usize,
        csize: match c[3] {
            'u' => Decimal::ONE,
            't' => Decimal::TEN,
            'c' => Decimal::new(1, 2),
            _ => return None,
        },
        spec: c.len() == 5,
    })
}

/// `(mode, shape)`; `None` = ill-formed (`bad-op`, as in the driver's `parseMode`)
fn parse_mode(tok: &str) -> Option<(bool, Option<(ExchangeId, Vec<IShape>)>)> {
    let parts: Vec<&str> = tok.split(':').collect();
    let is_async = match parts[0] {
        "async" => true,
        "direct" => false,
        _ => return None,
    };
    match parts.len() {
        1 => Some((is_async, None)),
        3 => {
            let e = match parts[1] {
                "m" => ExchangeId::Mock,
                "b" => ExchangeId::BinanceSpot,
                "k" => ExchangeId::Kraken,
                _ => return None,
            };
            let toks: Vec<&str> = if parts[2].is_empty() { vec![] } else { parts[2].split('.').collect() };
            let shapes = toks.iter().map(|t| parse_ishape(t)).collect::<Option<Vec<_>>>()?;
            Some((is_async, Some((e, shapes))))
        }
        _ => None,
    }
}

/// the shape is well formed and has one token per instrument
fn init_shape_ok(op: &[String]) -> bool {
    let Some((_, shape)) = op.get(1).and_then(|m| parse_mode(m)) else { return false };
    match shape {
        None => true,
        Some((_, shapes)) => {
            let k = op
                .get(4)
                .and_then(|n| n.parse::<usize>().ok())
                .and_then(|n| op.get(5 + n))
                .and_then(|k| k.parse::<usize>().ok());
            k == Some(shapes.len())
        }
    }
}

fn build_instrument(
    i: usize,
    b: usize,
    q: usize,
    sh: Option<&IShape>,
) -> Instrument<ExchangeId, AssetNameExchange> {
    let name = instr_name(i);
    let underlying = Underlying::new(asset_name(b), asset_name(q));
    let Some(sh) = sh else {
        return Instrument::spot(exch(), format!("mock-i{i}"), name, underlying, None);
    };
    let settlement_asset = asset_name(sh.settle);
    let contract_size = sh.csize;
    let expiry = time_ms(1_900_000_000_000);
    let kind = match sh.kind {
        's' => InstrumentKind::Spot,
        'p' => InstrumentKind::Perpetual(PerpetualContract { contract_size, settlement_asset }),
        'f' => InstrumentKind::Future(FutureContract { contract_size, settlement_asset, expiry }),
        _ => InstrumentKind::Option(OptionContract {
            contract_size,
            settlement_asset,
            kind: if i % 2 == 0 { OptionKind::Call } else { OptionKind::Put },
            exercise: if i % 2 == 0 { OptionExercise::European } else { OptionExercise::American },
            expiry,
            strike: Decimal::new(100, 0),
        }),
    };
    let spec = sh.spec.then(|| InstrumentSpec {
        price: InstrumentSpecPrice { min: Decimal::new(1_000_000, 0), tick_size: Decimal::new(1000, 0) },
        quantity: InstrumentSpecQuantity {
            unit: match sh.kind {
                's' => OrderQuantityUnits::Asset(asset_name(b)),
                'p' => OrderQuantityUnits::Contract,
                _ => OrderQuantityUnits::Quote,
            },
            min: Decimal::new(1_000_000, 0),
            increment: Decimal::new(1000, 0),
        },
        notional: InstrumentSpecNotional { min: Decimal::new(1_000_000_000, 0) },
    });
    Instrument::new(
        exch(),
        format!("mock-i{i}"),
        name,
        underlying,
        if sh.quote_base { InstrumentQuoteAsset::UnderlyingBase } else { InstrumentQuoteAsset::UnderlyingQuote },
        kind,
        spec,
    )
}

fn time_ms(ms: i64) -> DateTime<Utc> {
    Utc.timestamp_millis_opt(ms).unwrap()
}

fn asset_name(a: usize) -> AssetNameExchange {
    AssetNameExchange::new(format!("a{a}"))
}

fn asset_index(a: &AssetNameExchange) -> usize {
    a.as_ref()[1..].parse().expect("asset name a<idx>")
}

fn instr_name(i: usize) -> InstrumentNameExchange {
    InstrumentNameExchange::new(format!("i{i}"))
}

fn instr_index(i: &InstrumentNameExchange) -> usize {
    i.as_ref()[1..].parse().expect("instrument name i<idx>")
}

fn strat_index(s: &StrategyId) -> usize {
    s.0.as_str()[1..].parse().expect("strategy name s<idx>")
}

fn cid_index(c: &ClientOrderId) -> usize {
    c.0.as_str()[1..].parse().expect("cid c<idx>")
}

struct Setup {
    is_async: bool,
    config: MockExecutionConfig,
    instruments: FnvHashMap<InstrumentNameExchange, Instrument<ExchangeId, AssetNameExchange>>,
}

fn parse_init(op: &[String]) -> Setup {
    let (is_async, shape) = parse_mode(&op[1]).unwrap_or_else(|| panic!("bad mode {}", op[1]));
    CUR_EXCHANGE.with(|c| c.set(shape.as_ref().map_or(EXCHANGE, |s| s.0)));
    let shapes = shape.map(|s| s.1);
    let latency_ms: u64 = op[2].parse().unwrap();
    let fees_percent = parse_dec(&op[3]);
    let n: usize = op[4].parse().unwrap();
    let balances = (0..n)
        .map(|a| {
            let tok = &op[5 + a];
            let (total, free) = match tok.split_once(':') {
                Some((t, f)) => (parse_dec(t), parse_dec(f)),
                None => (parse_dec(tok), parse_dec(tok)),
            };
            AssetBalance {
                asset: asset_name(a),
                balance: Balance::new(total, free),
                time_exchange: time_ms(0),
            }
        })
        .collect::<Vec<_>>();
    let k: usize = op[5 + n].parse().unwrap();
    assert_eq!(op.len(), 6 + n + k, "init arity");
    let instruments = (0..k)
        .map(|i| {
            let (b, q) = op[6 + n + i].split_once(':').expect("base:quote");
            let (b, q): (usize, usize) = (b.parse().unwrap(), q.parse().unwrap());
            (instr_name(i), build_instrument(i, b, q, shapes.as_ref().map(|s| &s[i])))
        })
        .collect();
    Setup {
        is_async,
        config: MockExecutionConfig {
            mocked_exchange: exch(),
            initial_state: UnindexedAccountSnapshot {
                exchange: exch(),
                balances,
                instruments: vec![],
            },
            latency_ms,
            fees_percent,
        },
        instruments,
    }
}

struct OpenArgs {
    /// the op spelled the time in force out
    tif_given: bool,
    instrument: InstrumentNameExchange,
    strategy: StrategyId,
    cid: ClientOrderId,
    state: RequestOpen,
}

fn parse_open(op: &[String]) -> OpenArgs {
    assert!(op.len() == 9 || op.len() == 10, "open arity");
    let side = match op[3].as_str() {
        "B" => Side::Buy,
        "S" => Side::Sell,
        o => panic!("bad side {o}"),
    };
    let kind = match op[4].as_str() {
        "M" => OrderKind::Market,
        "L" => OrderKind::Limit,
        o => panic!("bad kind {o}"),
    };
    let _t: i64 = op[1].parse().unwrap();
    OpenArgs {
        tif_given: op.len() == 10,
        instrument: instr_name(op[2].parse().unwrap()),
        strategy: StrategyId::new(format!("s{}", op[7].parse::<usize>().unwrap())),
        cid: ClientOrderId::new(format!("c{}", op[8].parse::<usize>().unwrap())),
        state: RequestOpen {
            side,
            price: parse_dec(&op[5]),
            quantity: parse_dec(&op[6]),
            kind,
            time_in_force: match (op.get(9).map(|s| s.as_str()), kind) {
                (None, OrderKind::Market) | (Some("ioc"), _) => TimeInForce::ImmediateOrCancel,
                (None, OrderKind::Limit) | (Some("gtc"), _) => TimeInForce::GoodUntilCancelled { post_only: false },
                (Some("gtcp"), _) => TimeInForce::GoodUntilCancelled { post_only: true },
                (Some("fok"), _) => TimeInForce::FillOrKill,
                (Some("day"), _) => TimeInForce::GoodUntilEndOfDay,
                (Some(o), _) => panic!("bad time in force {o}"),
            },
        },
    }
}

fn side_s(s: Side) -> &'static str {
    match s {
        Side::Buy => "B",
        Side::Sell => "S",
    }
}

fn kind_s(k: OrderKind) -> &'static str {
    match k {
        OrderKind::Market => "M",
        OrderKind::Limit => "L",
    }
}

fn fmt_trade(tr: &Trade<QuoteAsset, InstrumentNameExchange>) -> String {
    // `fees.asset` is the unit type `QuoteAsset`: nothing to print
    let QuoteAsset = tr.fees.asset;
    format!(
        "{} {} {} {} {} {} {} {}",
        tr.id.0,
        tr.order_id.0,
        instr_index(&tr.instrument),
        strat_index(&tr.strategy),
        side_s(tr.side),
        fmt_dec(tr.price),
        fmt_dec(tr.quantity),
        fmt_dec(tr.fees.fees)
    )
}

fn bal_lines(mut bs: Vec<AssetBalance<AssetNameExchange>>, lines: &mut Vec<String>) {
    bs.sort_by_key(|b| asset_index(&b.asset));
    for b in &bs {
        lines.push(format!(
            "bal {} {} {}",
            asset_index(&b.asset),
            fmt_dec(b.balance.total),
            fmt_dec(b.balance.free)
        ));
    }
    lines.push(format!(
        "bal_time {}",
        bs.iter()
            .map(|b| b.time_exchange.timestamp_millis().to_string())
            .collect::<Vec<_>>()
            .join(" ")
    ));
}

fn snapshot_lines(s: UnindexedAccountSnapshot, lines: &mut Vec<String>) {
    check_exch(s.exchange, "snapshot", lines);
    bal_lines(s.balances, lines);
    lines.push(format!("instruments {}", s.instruments.len()));
}

/// notifications as delivered: (event kinds in order, lines)
fn notif_lines(events: &[UnindexedAccountEvent], lines: &mut Vec<String>) {
    let mut nb = 0;
    let mut nt = 0;
    let mut order = String::new();
    let mut detail = Vec::new();
    for ev in events {
        if ev.exchange != exch() {
            detail.push(format!("exch-mismatch event {:?}", ev.exchange));
        }
        match &ev.kind {
            AccountEventKind::BalanceSnapshot(b) => {
                nb += 1;
                order.push('B');
                let b = &b.0;
                detail.push(format!(
                    "nbal {} {} {}",
                    asset_index(&b.asset),
                    fmt_dec(b.balance.total),
                    fmt_dec(b.balance.free)
                ));
                detail.push(format!("nbal_time {}", b.time_exchange.timestamp_millis()));
            }
            AccountEventKind::Trade(tr) => {
                nt += 1;
                order.push('T');
                detail.push(format!("ntrade {}", fmt_trade(tr)));
                detail.push(format!("ntrade_time {}", tr.time_exchange.timestamp_millis()));
            }
            other => {
                order.push('?');
                detail.push(format!("nother {other:?}").replace(' ', "_"));
            }
        }
    }
    lines.push(format!("notif {nb} {nt}"));
    lines.push(format!("norder {}", if order.is_empty() { "-".into() } else { order }));
    lines.extend(detail);
}

/// `resp …`, `echo …`, then `open`/`resp_time` or `err …`
fn tif_s(t: TimeInForce) -> &'static str {
    match t {
        TimeInForce::ImmediateOrCancel => "ioc",
        TimeInForce::FillOrKill => "fok",
        TimeInForce::GoodUntilEndOfDay => "day",
        TimeInForce::GoodUntilCancelled { post_only: false } => "gtc",
        TimeInForce::GoodUntilCancelled { post_only: true } => "gtcp",
    }
}

fn response_lines(
    r: &Order<ExchangeId, InstrumentNameExchange, Result<Open, UnindexedOrderError>>,
    tif_given: bool,
    lines: &mut Vec<String>,
) {
    let start = lines.len();
    response_lines_(r, lines);
    check_exch(r.key.exchange, "response", lines);
    if let Err(OrderError::Connectivity(ConnectivityError::ExchangeOffline(e))) = &r.state {
        check_exch(*e, "offline", lines);
    }
    if tif_given {
        // directly after the `echo` line
        lines.insert(start + 2, format!("echo_tif {}", tif_s(r.time_in_force)));
    }
}

fn response_lines_(
    r: &Order<ExchangeId, InstrumentNameExchange, Result<Open, UnindexedOrderError>>,
    lines: &mut Vec<String>,
) {
    let echo = format!(
        "echo {} {} {} {} {} {} {}",
        cid_index(&r.key.cid),
        strat_index(&r.key.strategy),
        instr_index(&r.key.instrument),
        side_s(r.side),
        fmt_dec(r.price),
        fmt_dec(r.quantity),
        kind_s(r.kind)
    );
    match &r.state {
        Ok(open) => {
            lines.push("resp ok".into());
            lines.push(echo);
            lines.push(format!("open {} {}", open.id.0, fmt_dec(open.filled_quantity)));
            lines.push(format!("resp_time {}", open.time_exchange.timestamp_millis()));
        }
        Err(e) => {
            lines.push("resp err".into());
            lines.push(echo);
            lines.push(match e {
                OrderError::Rejected(ApiError::OrderRejected(_)) => "err kind".to_string(),
                OrderError::Rejected(ApiError::InstrumentInvalid(i, _)) => {
                    format!("err instrument {}", instr_index(i))
                }
                OrderError::Rejected(ApiError::BalanceInsufficient(a, msg)) => {
                    // "Available Balance: {}, Required Balance inc. fees: {}"
                    let nums: Vec<Decimal> = msg
                        .split(", ")
                        .map(|part| parse_dec(part.rsplit(": ").next().unwrap()))
                        .collect();
                    assert_eq!(nums.len(), 2, "insufficient message {msg}");
                    format!(
                        "err insufficient {} {} {}",
                        asset_index(a),
                        fmt_dec(nums[0]),
                        fmt_dec(nums[1])
                    )
                }
                OrderError::Connectivity(ConnectivityError::ExchangeOffline(_)) => {
                    "err offline".to_string()
                }
                other => format!("err other {other:?}").replace(' ', "_"),
            });
        }
    }
}

fn run_direct(setup: Setup, ops: &[Vec<String>], lines: &mut Vec<String>) {
    let (_request_tx, request_rx) = mpsc::unbounded_channel();
    let (event_tx, _event_rx) = broadcast::channel(16);
    let mut exchange = MockExchange::new(setup.config, request_rx, event_tx, setup.instruments);
    snapshot_lines(exchange.account_snapshot(), lines);
    for op in ops {
        lines.push("@".into());
        match op[0].as_str() {
            "open" => {
                let a = parse_open(op);
                let tif_given = a.tif_given;
                let request = OrderRequestOpen {
                    key: OrderKey {
                        exchange: exch(),
                        instrument: a.instrument,
                        strategy: a.strategy,
                        cid: a.cid,
                    },
                    state: a.state,
                };
                let (response, notifications) = exchange.open_order(request);
                response_lines(&response, tif_given, lines);
                let events: Vec<UnindexedAccountEvent> = match notifications {
                    Some(n) => vec![
                        UnindexedAccountEvent { exchange: exch(), kind: n.balance.into() },
                        UnindexedAccountEvent { exchange: exch(), kind: n.trade.into() },
                    ],
                    None => vec![],
                };
                notif_lines(&events, lines);
            }
            "snap" => {
                let _t: i64 = op[1].parse().unwrap();
                assert_eq!(op.len(), 2);
                snapshot_lines(exchange.account_snapshot(), lines)
            }
            _ => lines.push("bad-op".into()),
        }
    }
}

fn run_async(setup: Setup, ops: &[Vec<String>], lines: &mut Vec<String>) {
    let rt = tokio::runtime::Builder::new_current_thread()
        .enable_time()
        .start_paused(true)
        .build()
        .unwrap();
    rt.block_on(async {
        // wiring of barter/src/execution/builder.rs:96-129
        let (request_tx, request_rx) = mpsc::unbounded_channel();
        let (event_tx, event_rx) = broadcast::channel(256);
        let now = Arc::new(AtomicI64::new(0));
        let clock = {
            let now = now.clone();
            move || time_ms(now.load(Ordering::SeqCst))
        };
        let client = <MockExecution<_> as ExecutionClient>::new(MockExecutionClientConfig {
            mocked_exchange: exch(),
            clock,
            request_tx,
            event_rx,
        });
        let exchange = MockExchange::new(setup.config, request_rx, event_tx, setup.instruments);
        // initial observation straight from the struct (no request: the exchange clock must not move)
        snapshot_lines(exchange.account_snapshot(), lines);
        let mut stream = client.account_stream(&[], &[]).await.unwrap();
        let _handle = tokio::spawn(exchange.run());

        for op in ops {
            lines.push("@".into());
            let t: i64 = op[1].parse().unwrap();
            now.store(t, Ordering::SeqCst);
            let mut is_open = false;
            match op[0].as_str() {
                "open" => {
                    is_open = true;
                    let a = parse_open(op);
                    let request = OrderRequestOpen {
                        key: OrderKey {
                            exchange: exch(),
                            instrument: &a.instrument,
                            strategy: a.strategy,
                            cid: a.cid,
                        },
                        state: a.state,
                    };
                    let response = client.open_order(request).await;
                    response_lines(&response, a.tif_given, lines);
                }
                "snap" => {
                    assert_eq!(op.len(), 2);
                    match client.account_snapshot(&[], &[]).await {
                        Ok(s) => snapshot_lines(s, lines),
                        Err(e) => lines.push(format!("resp clienterr {e:?}").replace(' ', "_")),
                    }
                }
                "balances" => {
                    assert_eq!(op.len(), 2);
                    match client.fetch_balances().await {
                        Ok(bs) => bal_lines(bs, lines),
                        Err(e) => lines.push(format!("resp clienterr {e:?}").replace(' ', "_")),
                    }
                }
                "orders" => {
                    assert_eq!(op.len(), 2);
                    match client.fetch_open_orders().await {
                        Ok(os) => lines.push(format!("orders {}", os.len())),
                        Err(e) => lines.push(format!("resp clienterr {e:?}").replace(' ', "_")),
                    }
                }
                "trades" => {
                    assert_eq!(op.len(), 3);
                    let since: i64 = op[2].parse().unwrap();
                    match client.fetch_trades(time_ms(since)).await {
                        Ok(ts) => {
                            lines.push(format!("trades {}", ts.len()));
                            for tr in &ts {
                                lines.push(format!(
                                    "trade {} {}",
                                    fmt_trade(tr),
                                    tr.time_exchange.timestamp_millis()
                                ));
                            }
                        }
                        Err(e) => lines.push(format!("resp clienterr {e:?}").replace(' ', "_")),
                    }
                }
                "cancel" => {
                    assert_eq!(op.len(), 2);
                    let name = instr_name(0);
                    let request = OrderRequestCancel {
                        key: OrderKey {
                            exchange: exch(),
                            instrument: &name,
                            strategy: StrategyId::new("s0"),
                            cid: ClientOrderId::new("c0"),
                        },
                        state: RequestCancel { id: None },
                    };
                    let response = client.cancel_order(request).await;
                    // the exchange drops the oneshot sender without answering: the client reports
                    // `ExchangeOffline`
                    check_exch(response.key.exchange, "cancel", lines);
                    match response.state {
                        Err(OrderError::Connectivity(ConnectivityError::ExchangeOffline(e))) => {
                            lines.push("resp none".into());
                            check_exch(e, "offline", lines);
                        }
                        other => lines.push(format!("resp cancel {other:?}").replace(' ', "_")),
                    }
                }
                _ => {
                    lines.push("bad-op".into());
                    continue;
                }
            }
            // let the notification task (spawned after the response task, same latency) finish
            tokio::time::sleep(std::time::Duration::from_millis(1)).await;
            let mut events = Vec::new();
            while let Some(Some(ev)) = stream.next().now_or_never() {
                events.push(ev);
            }
            if is_open {
                // on an error response `notif 0 0` must come before nothing else: same layout as model
                notif_lines(&events, lines);
            } else if !events.is_empty() {
                lines.push(format!("unexpected-events {}", events.len()));
            }
        }
    });
}

fn run() {
    run_cases(|case, lines| {
        let Some(first) = case.ops.first() else { return };
        lines.push("@".into());
        if first[0] != "init" || !init_shape_ok(first) {
            lines.push("bad-op".into());
            return;
        }
        let setup = parse_init(first);
        if setup.is_async {
            run_async(setup, &case.ops[1..], lines)
        } else {
            run_direct(setup, &case.ops[1..], lines)
        }
    });
}

// ------------------------------------------------------------------------------------ generators

fn d(m: i64, scale: u32) -> String {
    dec_str(m, scale)
}

struct World {
    latency: i64,
    n_assets: usize,
    instruments: Vec<(usize, usize)>,
    mag: Mag,
}

/// Magnitude class of a case (oracle review C08-M1 / M4): `Normal` = the original distribution
/// (notional of an accepted order <= 2000, <= 8 decimal places); `Large` = prices up to 1e6, quantities
/// up to 1e4, balances up to 1e12 (notionals far beyond any threshold a tiered rule could use); `Small`
/// = prices / quantities / balances between 1e-9 and 1e-2. Large and Small also draw the fee from a
/// wider set (below -1, above 1, three and four decimals). All three stay inside what `rust_decimal`
/// computes EXACTLY: every product has at most 20 significant digits and 18 decimal places.
#[derive(Clone, Copy, PartialEq)]
enum Mag {
    Normal,
    Large,
    Small,
}

const WIDE_FEES: [&str; 12] =
    ["0", "0.001", "0.0025", "0.075", "0.333", "0.5", "1", "1.5", "2", "5", "-0.5", "-2"];

fn gen_init(rng: &mut Rng, mode: &str, malformed: bool, mag: Mag) -> (String, World) {
    let latency = *rng.pick(&[0u64, 1, 2, 7, 100, 101]);
    let fee = *rng.pick(&["0", "0", "0.01", "0.001", "0.1", "0.25", "1"]);
    let fee = if rng.chance(3) { "-0.01" } else { fee };
    let fee = if mag == Mag::Normal { fee } else { *rng.pick(&WIDE_FEES) };
    let n_assets = rng.range(1, 4) as usize;
    let mut bals: Vec<String> = (0..n_assets)
        .map(|_| match (mag, rng.below(6)) {
            (Mag::Large, 0) => d(rng.range(1, 100), 0),
            (Mag::Large, 1) => d(rng.range(1, 999_999_999_999), 3),
            (Mag::Large, 2) => d(*rng.pick(&[10_000i64, 1_000_000, 1_000_000_000, 1_000_000_000_000]), 0),
            (Mag::Large, _) => d(rng.range(10_000, 99_999_999_999), 2),
            (Mag::Small, 0) => "0".to_string(),
            (Mag::Small, 1) => d(rng.range(1, 999_999), 9),
            (Mag::Small, 2) => d(*rng.pick(&[1i64, 5, 10, 25]), *rng.pick(&[3u32, 6, 9])),
            (Mag::Small, _) => d(rng.range(1, 9_999), 6),
            (Mag::Normal, 0) => "0".to_string(),
            (Mag::Normal, 1) => d(rng.range(1, 30), 0),
            (Mag::Normal, 2) => d(rng.range(1, 3000), 2),
            (Mag::Normal, 3) => d(rng.range(50, 2000), 0),
            (Mag::Normal, 4) => d(rng.range(1, 99999), 3),
            (Mag::Normal, _) => d(rng.range(1, 100), 0),
        })
        .collect();
    if rng.chance(2) {
        let a = rng.below(n_assets as u64) as usize;
        bals[a] = d(-rng.range(1, 10), 0);
    }
    let k = if rng.chance(5) { 0 } else { rng.range(1, 3) as usize };
    let mut instruments: Vec<(usize, usize)> = (0..k)
        .map(|_| (rng.below(n_assets as u64) as usize, rng.below(n_assets as u64) as usize))
        .collect();
    if malformed && k > 0 {
        // an instrument whose asset has no balance, or a balance with total != free
        if rng.chance(50) {
            let i = rng.below(k as u64) as usize;
            if rng.chance(50) {
                instruments[i].0 = n_assets + rng.below(2) as usize;
            } else {
                instruments[i].1 = n_assets + rng.below(2) as usize;
            }
        } else {
            let a = rng.below(n_assets as u64) as usize;
            bals[a] = format!("{}:{}", d(rng.range(5, 50), 0), d(rng.range(0, 4), 0));
        }
    }
    let line = format!(
        "init {mode} {latency} {fee} {n_assets} {} {k}{}",
        bals.join(" "),
        instruments
            .iter()
            .map(|(b, q)| format!(" {b}:{q}"))
            .collect::<String>()
    );
    (line, World { latency: latency as i64, n_assets, instruments, mag })
}

fn gen_open(rng: &mut Rng, w: &World, t: i64) -> String {
    let k = w.instruments.len();
    let instr = if k == 0 || rng.chance(8) {
        k + rng.below(2) as usize
    } else {
        rng.below(k as u64) as usize
    };
    let side = if rng.chance(50) { "B" } else { "S" };
    let kind = if rng.chance(10) { "L" } else { "M" };
    let price = match (w.mag, rng.below(10)) {
        (_, 0) => "0".to_string(),
        (Mag::Large, 1) => d(-rng.range(1, 5000), 0),
        (Mag::Large, 2 | 3) => d(*rng.pick(&[1_000i64, 10_000, 100_000, 1_000_000]), 0),
        (Mag::Large, 4 | 5) => d(rng.range(1, 99_999_999), 2),
        (Mag::Large, _) => d(rng.range(100, 50_000), 0),
        (Mag::Small, 1) => d(-rng.range(1, 5), 6),
        (Mag::Small, 2 | 3) => d(*rng.pick(&[1i64, 2, 5, 25]), *rng.pick(&[3u32, 6, 8])),
        (Mag::Small, _) => d(rng.range(1, 9_999), 6),
        (Mag::Normal, 1) => d(-rng.range(1, 5), 0),
        (Mag::Normal, 2 | 3) => d(rng.range(1, 5), 0),
        (Mag::Normal, 4) => d(rng.range(1, 20000), 2),
        (Mag::Normal, _) => d(*rng.pick(&[1i64, 2, 10, 100]), 0),
    };
    let qty = match (w.mag, rng.below(12)) {
        (_, 0) => "0".to_string(),
        (Mag::Large, 1) => d(-rng.range(1, 5000), 0),
        (Mag::Large, 2 | 3) => d(rng.range(1, 9_999_999), 3),
        (Mag::Large, 4) => d(*rng.pick(&[100i64, 1_000, 10_000]), 0),
        (Mag::Large, _) => d(rng.range(1, 400), 0),
        (Mag::Small, 1) => d(-rng.range(1, 5), 6),
        (Mag::Small, 2 | 3) => d(rng.range(1, 9_999), 6),
        (Mag::Small, _) => d(*rng.pick(&[1i64, 2, 5, 10, 25, 50]), *rng.pick(&[2u32, 3, 4])),
        (Mag::Normal, 1) => d(-rng.range(1, 5), 0),
        (Mag::Normal, 2) => d(rng.range(1, 9999), 3),
        (Mag::Normal, 3) => d(rng.range(1, 400), 0),
        (Mag::Normal, _) => d(*rng.pick(&[1i64, 2, 5, 10, 25, 50]), *rng.pick(&[0u32, 0, 1])),
    };
    let _ = w.n_assets;
    format!(
        "open {t} {instr} {side} {kind} {price} {qty} {} {}",
        rng.below(3),
        rng.below(1000)
    )
}

fn gen_case(rng: &mut Rng, out: &mut Out, big: bool, mag: Mag) {
    let is_async = rng.chance(70);
    let malformed = !is_async && rng.chance(25);
    let (line, w) = gen_init(rng, if is_async { "async" } else { "direct" }, malformed, mag);
    out.line(line);
    let len = rng.range(0, if big { 60 } else { 25 });
    let mut t: i64 = rng.range(0, 5);
    let monotone = rng.chance(80);
    for _ in 0..len {
        t = if monotone {
            t + *rng.pick(&[0i64, 0, 1, 1, 2, 50])
        } else {
            rng.range(0, 60)
        };
        let r = rng.below(100);
        if malformed {
            // stop at the first op that may panic (it must be the last one of the case)
            let op = gen_open(rng, &w, t);
            out.line(&op);
            if op_may_panic(&op, &w) {
                return;
            }
            continue;
        }
        if !is_async {
            if r < 75 {
                out.line(gen_open(rng, &w, t));
            } else {
                out.line(format!("snap {t}"));
            }
            continue;
        }
        if r < 60 {
            out.line(gen_open(rng, &w, t));
        } else if r < 72 {
            out.line(format!("snap {t}"));
        } else if r < 82 {
            out.line(format!("balances {t}"));
        } else if r < 94 {
            // since: everything, or around the exchange times of the fills so far (t + latency/2)
            let since = if rng.chance(30) { 0 } else { t + w.latency / 2 - rng.range(-2, 12) };
            out.line(format!("trades {t} {since}"));
        } else if r < 97 {
            out.line(format!("orders {t}"));
        } else {
            out.line(format!("cancel {t}"));
        }
    }
}


// ------------------------------------------------------------------- input-domain family (`d` cases)

/// INPUT-DOMAIN family (own PRNG stream; the random cases above stay exactly as they are). It aims at
/// the classes the random generator reaches never or hardly ever:
/// * orders placed EXACTLY at the funds boundary: the generator keeps the ledger (the accept rule of the
///   property, in `Decimal`) and asks for the largest affordable quantity `free / (price * (1 + fee))`,
///   that quantity plus one unit in the last place (1e-8 .. 1) and minus one unit, on both sides, with
///   fees whose `1 + fee` has a terminating reciprocal (so the boundary is an exact decimal);
/// * every time in force (ioc / fok / day / gtc / gtc post-only) on market AND limit orders;
/// * client order ids and strategies from a set of two or three (the same cid on several orders, also
///   on different instruments and for different strategies);
/// * request times at realistic epoch offsets (1.7e12 ms) and before the epoch (negative), latencies
///   of seconds and minutes, `trades since` exactly at / one ms around the exchange time of a fill;
/// * larger accounts (up to 8 assets, 6 instruments sharing them).
fn gen_dom_case(rng: &mut Rng, out: &mut Out, big: bool) {
    let is_async = rng.chance(70);
    let latency = *rng.pick(&[0i64, 1, 3, 100, 1000, 60_001]);
    // 1 + fee in {1, 1.25, 2, 0.5, 1.6, 1.001 (no boundary: reciprocal does not terminate), 0, -1}
    let fee_s = *rng.pick(&["0", "0.25", "0.25", "1", "-0.5", "0.6", "0.6", "0.001", "-1", "-2"]);
    let fee = parse_dec(fee_s);
    let wide = rng.chance(30);
    let n_assets = rng.range(2, if wide { 8 } else { 4 }) as usize;
    let mut free: Vec<Decimal> = (0..n_assets)
        .map(|_| match rng.below(6) {
            0 => Decimal::ZERO,
            1 => Decimal::new(rng.range(1, 500), 0),
            2 => Decimal::new(rng.range(1, 99_999), 2),
            3 => Decimal::new(rng.range(1, 9_999_999), 8),
            4 => Decimal::new(*rng.pick(&[1i64, 10, 1_000_000, 1_000_000_000_000]), 0),
            _ => Decimal::new(rng.range(1, 100_000), 3),
        })
        .collect();
    let k = rng.range(1, if n_assets > 4 { 6 } else { 3 }) as usize;
    let instruments: Vec<(usize, usize)> = (0..k)
        .map(|_| (rng.below(n_assets as u64) as usize, rng.below(n_assets as u64) as usize))
        .collect();
    out.line(format!(
        "init {} {latency} {fee_s} {n_assets} {} {k}{}",
        if is_async { "async" } else { "direct" },
        free.iter().map(|b| b.normalize().to_string()).collect::<Vec<_>>().join(" "),
        instruments.iter().map(|(b, q)| format!(" {b}:{q}")).collect::<String>()
    ));
    let base_t = *rng.pick(&[0i64, 0, 1_700_000_000_000, -5_000, 86_399_990]);
    let mut t = base_t;
    let mut fills: Vec<i64> = vec![]; // exchange times of the fills so far
    let one_plus_fee = Decimal::ONE + fee;
    let len = rng.range(1, if big { 40 } else { 20 });
    for _ in 0..len {
        t += *rng.pick(&[0i64, 0, 1, 1, 2, 50, -1, 1000]);
        let r = rng.below(100);
        if is_async && r >= 72 {
            match r {
                72..=87 => {
                    // around a fill's exchange time: exactly at it, one before, one after; or before / after all
                    let since = match (fills.is_empty(), rng.below(5)) {
                        (true, _) | (_, 0) => t + latency / 2 + rng.range(-2, 2),
                        (_, 1) => -1_000_000_000_000,
                        _ => *rng.pick(&fills) + rng.range(-1, 1),
                    };
                    out.line(format!("trades {t} {since}"));
                }
                88..=91 => out.line(format!("snap {t}")),
                92..=95 => out.line(format!("balances {t}")),
                96..=97 => out.line(format!("orders {t}")),
                _ => out.line(format!("cancel {t}")),
            }
            continue;
        }
        if !is_async && r >= 85 {
            out.line(format!("snap {t}"));
            continue;
        }
        let i = if rng.chance(4) { k + rng.below(2) as usize } else { rng.below(k as u64) as usize };
        let buy = rng.chance(50);
        let market = !rng.chance(8);
        let tif = *rng.pick(&["ioc", "fok", "day", "gtc", "gtcp"]);
        let strategy = rng.below(2);
        let cid = rng.below(3);
        let price = parse_dec(*rng.pick(&["1", "2", "4", "5", "8", "10", "100", "0.5", "0.25", "0.00000001", "1000000"]));
        // the asset the order spends and what one unit of quantity costs
        let (spent, unit_cost) = if i < k {
            let (b, q) = instruments[i];
            if buy { (Some(q), price * one_plus_fee) } else { (Some(b), one_plus_fee) }
        } else {
            (None, Decimal::ONE)
        };
        let ulp = Decimal::new(1, *rng.pick(&[8u32, 8, 6, 3, 0]));
        // largest affordable quantity, if it is an exact decimal of moderate length
        let qmax = spent.and_then(|a| {
            if unit_cost <= Decimal::ZERO || free[a] < Decimal::ZERO {
                return None;
            }
            let q = free[a].checked_div(unit_cost)?.normalize();
            // short enough that every product of the order stays exact in rust_decimal (the quotient of a
            // non-terminating reciprocal, e.g. fee 0.001, is 28 digits long and is dropped here)
            (q.scale() <= 10 && q.mantissa().abs() < 100_000_000_000_000 && q.checked_mul(unit_cost)? == free[a])
                .then_some(q)
        });
        let qty = match (qmax, rng.below(10)) {
            (Some(q), 0..=2) => q,
            (Some(q), 3..=4) => q + ulp,
            (Some(q), 5) if q >= ulp => q - ulp,
            // a sell quantity written negative (the code takes the magnitude)
            (Some(q), 6) => -q,
            (Some(q), 7) if !q.is_zero() => (q / Decimal::TWO).normalize(),
            _ => Decimal::new(*rng.pick(&[0i64, 1, 2, 5, 25]), *rng.pick(&[0u32, 1, 3])),
        };
        let qty = if qty.scale() > 10 || qty.mantissa().abs() >= 100_000_000_000_000 { Decimal::ONE } else { qty };
        out.line(format!(
            "open {t} {i} {} {} {} {} {strategy} {cid} {tif}",
            if buy { "B" } else { "S" },
            if market { "M" } else { "L" },
            price.normalize(),
            qty.normalize()
        ));
        // keep the ledger: the accept rule of the property
        if let (true, Some(a)) = (market, spent) {
            let rest = free[a] - qty.abs() * unit_cost;
            if rest >= Decimal::ZERO {
                free[a] = rest;
                fills.push(if is_async { t + latency / 2 } else { 0 });
            }
        }
    }
}

// ----------------------------------------------------------- configuration-shape family (`cfg` cases)

/// CONFIGURATION-SHAPE family (own PRNG stream; every other case stays byte for byte as it was). The
/// set-up shapes the other families fix: the exchange id the mock stands for (always `Mock` before; here
/// also BinanceSpot / Kraken), the KIND of the instruments handed to `MockExchange::new` (always spot,
/// quoted in the underlying quote, no `InstrumentSpec` before; here perpetual / future / option with a
/// settlement asset that is the quote, the base, a third asset or one without balance, contract sizes
/// 1 / 10 / 0.01, in-kind quoting, a spec with large minima), an account without any balance (0 assets),
/// up to 4 instruments. Well formed only; requests as in the random family (normal magnitudes).
fn gen_cfg_case(rng: &mut Rng, out: &mut Out, big: bool) {
    let is_async = rng.chance(70);
    let e = *rng.pick(&["m", "b", "b", "k", "k"]);
    let latency = *rng.pick(&[0u64, 1, 2, 7, 100]);
    let fee = *rng.pick(&["0", "0", "0.01", "0.25", "0.5"]);
    let n_assets = if rng.chance(8) { 0 } else { rng.range(1, 5) as usize };
    let bals: Vec<String> = (0..n_assets)
        .map(|_| match rng.below(5) {
            0 => "0".to_string(),
            1 => d(rng.range(1, 30), 0),
            2 => d(rng.range(1, 300_000), 2),
            _ => d(rng.range(50, 2000), 0),
        })
        .collect();
    let k = if n_assets == 0 { 0 } else { rng.range(0, 4) as usize };
    let instruments: Vec<(usize, usize)> = (0..k)
        .map(|_| (rng.below(n_assets as u64) as usize, rng.below(n_assets as u64) as usize))
        .collect();
    let shapes: Vec<String> = (0..k)
        .map(|_| {
            format!(
                "{}{}{}{}{}",
                *rng.pick(&["s", "p", "p", "f", "o"]),
                if rng.chance(25) { "b" } else { "q" },
                rng.below((n_assets as u64 + 2).min(10)),
                *rng.pick(&["u", "t", "t", "c"]),
                if rng.chance(40) { "+" } else { "" }
            )
        })
        .collect();
    out.line(format!(
        "init {}:{e}:{} {latency} {fee} {n_assets}{} {k}{}",
        if is_async { "async" } else { "direct" },
        shapes.join("."),
        bals.iter().map(|b| format!(" {b}")).collect::<String>(),
        instruments.iter().map(|(b, q)| format!(" {b}:{q}")).collect::<String>()
    ));
    let w = World { latency: latency as i64, n_assets, instruments, mag: Mag::Normal };
    let len = rng.range(1, if big { 40 } else { 20 });
    let mut t: i64 = rng.range(0, 5);
    for _ in 0..len {
        t += *rng.pick(&[0i64, 0, 1, 1, 2, 50]);
        let r = rng.below(100);
        if !is_async {
            if r < 80 {
                out.line(gen_open(rng, &w, t));
            } else {
                out.line(format!("snap {t}"));
            }
        } else if r < 65 {
            out.line(gen_open(rng, &w, t));
        } else if r < 75 {
            out.line(format!("snap {t}"));
        } else if r < 83 {
            out.line(format!("balances {t}"));
        } else if r < 93 {
            let since = if rng.chance(30) { 0 } else { t + w.latency / 2 - rng.range(-2, 12) };
            out.line(format!("trades {t} {since}"));
        } else if r < 96 {
            out.line(format!("orders {t}"));
        } else {
            out.line(format!("cancel {t}"));
        }
    }
}

// In malformed (direct) cases every market order on a known instrument is treated as possibly
// panicking, so it ends the case: conservative and independent of the balances.
fn op_may_panic(op: &str, w: &World) -> bool {
    let toks: Vec<&str> = op.split(' ').collect();
    let instr: usize = toks[2].parse().unwrap();
    toks[4] == "M" && instr < w.instruments.len()
}

fn generate(seed: u64, n_cases: usize, tier: &str) {
    let mut out = Out::new();
    let mut rng = Rng::new(seed);
    let mut id = 0usize;
    let big = tier == "thorough";
    if big {
        // small-scope exhaustive: one instrument 0:1, balances {base 2, quote 20}, fee 0.5, price 10,
        // every sequence of length <= 4 over {buy 1, buy 2, sell 1, sell 2, limit, unknown, trades}
        let syms = [
            "open T 0 B M 10 1 0 1",
            "open T 0 B M 10 2 0 2",
            "open T 0 S M 10 1 0 3",
            "open T 0 S M 10 2 0 4",
            "open T 0 B L 10 1 0 5",
            "open T 1 S M 10 1 0 6",
            "trades T 1",
        ];
        for mode in ["async", "direct"] {
            for len in 0..=4usize {
                let total = syms.len().pow(len as u32);
                for mut code in 0..total {
                    let mut ops = Vec::new();
                    let mut ok = true;
                    for step in 0..len {
                        let s = syms[code % syms.len()];
                        code /= syms.len();
                        if mode == "direct" && s.starts_with("trades") {
                            ok = false;
                        }
                        ops.push(s.replace(" T ", &format!(" {step} ")));
                    }
                    if !ok {
                        continue;
                    }
                    id += 1;
                    out.case(format!("x{id}"));
                    out.line(format!("init {mode} 2 0.5 2 2 20 1 0:1"));
                    for o in ops {
                        out.line(o);
                    }
                    out.line(if mode == "async" { "trades 9 0" } else { "snap 9" });
                    out.line("snap 9");
                }
            }
        }
    }
    for _ in 0..n_cases {
        id += 1;
        out.case(format!("r{id}"));
        let mut r = rng.fork();
        // every 10th case each: large / small magnitudes (the others are generated exactly as before)
        let mag = match id % 10 {
            3 => Mag::Large,
            7 => Mag::Small,
            _ => Mag::Normal,
        };
        gen_case(&mut r, &mut out, big, mag);
    }
    // input-domain family: a quarter as many cases again, from its own PRNG stream
    let mut drng = Rng::new(seed ^ 0x0D08_D0A1_5EED);
    for _ in 0..n_cases.div_ceil(4) {
        id += 1;
        out.case(format!("d{id}"));
        let mut r = drng.fork();
        gen_dom_case(&mut r, &mut out, big);
    }
    // configuration-shape family: a quarter as many cases again, from its own PRNG stream
    let mut crng = Rng::new(seed ^ 0x0C08_CF61_5EED);
    for _ in 0..n_cases.div_ceil(4) {
        id += 1;
        out.case(format!("cfg{id}"));
        let mut r = crng.fork();
        gen_cfg_case(&mut r, &mut out, big);
    }
    out.flush();
}

fn main() {
    let a = args();
    match a.cmd.as_str() {
        "gen" => generate(a.seed, a.n, &a.tier),
        "run" => run(),
        _ => {
            eprintln!("usage: c08 gen <seed> <n> <tier> | run < cases");
            std::process::exit(2)
        }
    }
}
