//! C03 — request path of the real `Engine` (see `vh::engine_proto` for the protocol).
use vh::{engine_proto::run_case, *};

fn gen_req_open(rng: &mut Rng, nex: usize, nins: usize, defs: &[(usize, usize, usize)], refused_ok: bool) -> String {
    let ins = rng.below(nins as u64) as usize;
    // mostly the instrument's own exchange; sometimes another one or an unknown index
    let ex = match rng.below(100) {
        0..=79 => defs[ins].0,
        80..=92 => rng.below(nex as u64) as usize,
        _ => nex + rng.below(2) as usize,
    };
    let cid = if refused_ok && rng.chance(25) { 5000 + rng.below(3) } else { 1 + rng.below(6) };
    let side = if rng.chance(50) { "B" } else { "S" };
    format!("o:{ex}:{ins}:{cid}:{side}:{}:{}", 100 + rng.below(3), 1 + rng.below(3))
}

fn gen_req_cancel(rng: &mut Rng, nex: usize, nins: usize, defs: &[(usize, usize, usize)], refused_ok: bool) -> String {
    let ins = rng.below(nins as u64) as usize;
    let ex = match rng.below(100) {
        0..=79 => defs[ins].0,
        80..=92 => rng.below(nex as u64) as usize,
        _ => nex + rng.below(2) as usize,
    };
    let cid = if refused_ok && rng.chance(25) { 5000 + rng.below(3) } else { 1 + rng.below(6) };
    if rng.chance(30) {
        format!("c:{ex}:{ins}:{cid}:{}", 1 + rng.below(3))
    } else {
        format!("c:{ex}:{ins}:{cid}")
    }
}

fn gen_filter(rng: &mut Rng, nex: usize, nins: usize) -> String {
    match rng.below(4) {
        0 => "none".into(),
        1 => format!("ex:{}", rng.below(nex as u64 + 1)),
        2 => format!("ins:{}", rng.below(nins as u64)),
        _ => format!("und:{}-{}", rng.below(3), 3),
    }
}

fn gen_case(rng: &mut Rng, out: &mut Out, tier: &str) {
    let nex = rng.range(1, 3) as usize;
    // link pattern: healthy-biased, but every pattern occurs
    let links: String = (0..nex)
        .map(|_| match rng.below(100) {
            0..=54 => 'H',
            55..=69 => 'C',
            70..=84 => 'U',
            _ => 'M',
        })
        .collect();
    let mut defs: Vec<(usize, usize, usize)> = (0..nex).map(|e| (e, rng.below(3) as usize, 3)).collect();
    for _ in 0..rng.below(3) {
        defs.push((rng.below(nex as u64) as usize, rng.below(3) as usize, 3));
    }
    let nins = defs.len();
    let trading = if rng.chance(50) { "on" } else { "off" };
    out.line(format!(
        "init {trading} L {links} I {}",
        defs.iter().map(|(e, b, q)| format!("{e},{b},{q}")).collect::<Vec<_>>().join(" ")
    ));
    let len = rng.range(1, if tier == "thorough" { 40 } else { 25 });
    let mut has_pos = vec![false; nins];
    // a third of the cases start with a priced position on (almost) every instrument, so that
    // ClosePositions / CancelOrders commands produce requests for SEVERAL exchanges at once (mixed
    // link health within one command)
    if rng.chance(33) {
        for i in 0..nins {
            if rng.chance(85) {
                out.line(format!("ev price {i} {}", 100 + rng.below(5)));
                out.line(format!("ev fill {i} {} {}", if rng.chance(50) { "B" } else { "S" }, 1 + rng.below(3)));
                has_pos[i] = true;
            }
        }
        out.line(format!("ev close_positions {}", gen_filter(rng, nex, nins)));
    }
    for _ in 0..len {
        if rng.chance(55) {
            let nc = rng.below(3);
            let no = rng.below(3);
            let mut reqs: Vec<String> = vec![];
            for _ in 0..nc {
                reqs.push(gen_req_cancel(rng, nex, nins, &defs, true));
            }
            for _ in 0..no {
                reqs.push(gen_req_open(rng, nex, nins, &defs, true));
            }
            out.line(format!("algo {}", reqs.join(" ")).trim_end().to_string());
        }
        let i = rng.below(nins as u64) as usize;
        let cid = 1 + rng.below(6);
        let line = match rng.below(100) {
            0..=17 => {
                let k = rng.range(1, 3);
                format!("ev cmd_open {}", (0..k).map(|_| gen_req_open(rng, nex, nins, &defs, false)).collect::<Vec<_>>().join(" "))
            }
            18..=32 => {
                let k = rng.range(1, 3);
                format!("ev cmd_cancel {}", (0..k).map(|_| gen_req_cancel(rng, nex, nins, &defs, false)).collect::<Vec<_>>().join(" "))
            }
            33..=44 => format!("ev trading {}", if rng.chance(50) { "on" } else { "off" }),
            45..=59 => format!("ev snap {i} {cid} 10 100 O {} {} {}", 1 + rng.below(3), rng.below(5), rng.pick(&[0, 5])),
            60..=64 => format!("ev snap {i} {cid} 10 100 X 0 0 0"),
            65..=71 => format!("ev resp {i} {cid} {}", if rng.chance(50) { "ok" } else { "err" }),
            72..=74 => "ev shutdown".into(),
            75..=81 => format!("ev cancel_orders {}", gen_filter(rng, nex, nins)),
            82..=88 => format!("ev close_positions {}", gen_filter(rng, nex, nins)),
            89..=93 => {
                if has_pos[i] && rng.chance(40) {
                    format!("ev reduce {i}")
                } else if has_pos[i] {
                    has_pos[i] = false;
                    format!("ev flat {i}")
                } else {
                    has_pos[i] = true;
                    format!("ev fill {i} {} {}", if rng.chance(50) { "B" } else { "S" }, 1 + rng.below(3))
                }
            }
            94..=96 => format!(
                "ev other {} {}",
                rng.pick(&["mktre", "accre", "bal"]),
                rng.below(nex as u64)
            ),
            _ => format!("ev price {i} {}", 100 + rng.below(5)),
        };
        out.line(line);
    }
}

fn generate(seed: u64, n_cases: usize, tier: &str) {
    let mut out = Out::new();
    let mut rng = Rng::new(seed);
    for id in 0..n_cases {
        out.case(format!("r{id}"));
        gen_case(&mut rng, &mut out, tier);
    }
    out.flush();
}

fn main() {
    let a = args();
    match a.cmd.as_str() {
        "gen" => generate(a.seed, a.n, &a.tier),
        "run" => run_cases(run_case),
        _ => {
            eprintln!("usage: c03 gen <seed> <n> <tier> | run < cases");
            std::process::exit(2)
        }
    }
}
