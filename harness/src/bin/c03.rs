//! C03 — request path of the real `Engine` (see `vh::engine_proto` for the protocol).
use vh::{engine_proto::run_case, *};

fn gen_req_open(rng: &mut Rng, nex: usize, nins: usize, defs: &[(usize, usize, usize)], refused_ok: bool) -> String {
    let ins = rng.below(nins as u64) as usize;
    // mostly the instrument's own exchange; sometimes another one or an unknown index
    let ex = match rng.below(100) {
        0..=79 => defs[ins].0,
        80..=92 => rng.below(nex as u64) as usize,
        _ => nex + rng.below(2) as usize,
    };
    let cid = if refused_ok && rng.chance(25) { 5000 + rng.below(3) } else { 1 + rng.below(6) };
    let side = if rng.chance(50) { "B" } else { "S" };
    format!("o:{ex}:{ins}:{cid}:{side}:{}:{}", 100 + rng.below(3), 1 + rng.below(3))
}

fn gen_req_cancel(rng: &mut Rng, nex: usize, nins: usize, defs: &[(usize, usize, usize)], refused_ok: bool) -> String {
    let ins = rng.below(nins as u64) as usize;
    let ex = match rng.below(100) {
        0..=79 => defs[ins].0,
        80..=92 => rng.below(nex as u64) as usize,
        _ => nex + rng.below(2) as usize,
    };
    let cid = if refused_ok && rng.chance(25) { 5000 + rng.below(3) } else { 1 + rng.below(6) };
    if rng.chance(30) {
        format!("c:{ex}:{ins}:{cid}:{}", 1 + rng.below(3))
    } else {
        format!("c:{ex}:{ins}:{cid}")
    }
}

fn gen_filter(rng: &mut Rng, nex: usize, nins: usize) -> String {
    match rng.below(4) {
        0 => "none".into(),
        1 => format!("ex:{}", rng.below(nex as u64 + 1)),
        2 => format!("ins:{}", rng.below(nins as u64)),
        _ => format!("und:{}-{}", rng.below(3), 3),
    }
}

fn gen_case(rng: &mut Rng, out: &mut Out, tier: &str) {
    let nex = rng.range(1, 3) as usize;
    // link pattern: healthy-biased, but every pattern occurs
    let links: String = (0..nex)
        .map(|_| match rng.below(100) {
            0..=54 => 'H',
            55..=69 => 'C',
            70..=84 => 'U',
            _ => 'M',
        })
        .collect();
    let mut defs: Vec<(usize, usize, usize)> = (0..nex).map(|e| (e, rng.below(3) as usize, 3)).collect();
    for _ in 0..rng.below(3) {
        defs.push((rng.below(nex as u64) as usize, rng.below(3) as usize, 3));
    }
    let trading = if rng.chance(50) { "on" } else { "off" };
    out.line(format!(
        "init {trading} L {links} I {}",
        defs.iter().map(|(e, b, q)| format!("{e},{b},{q}")).collect::<Vec<_>>().join(" ")
    ));
    gen_body(rng, out, tier, nex, &defs);
}

/// the event history of an `r` / `cfg` case (everything after the `init` line)
fn gen_body(rng: &mut Rng, out: &mut Out, tier: &str, nex: usize, defs: &[(usize, usize, usize)]) {
    let nins = defs.len();
    let len = rng.range(1, if tier == "thorough" { 40 } else { 25 });
    let mut has_pos = vec![false; nins];
    // a third of the cases start with a priced position on (almost) every instrument, so that
    // ClosePositions / CancelOrders commands produce requests for SEVERAL exchanges at once (mixed
    // link health within one command)
    if rng.chance(33) {
        for i in 0..nins {
            if rng.chance(85) {
                out.line(format!("ev price {i} {}", 100 + rng.below(5)));
                out.line(format!("ev fill {i} {} {}", if rng.chance(50) { "B" } else { "S" }, 1 + rng.below(3)));
                has_pos[i] = true;
            }
        }
        out.line(format!("ev close_positions {}", gen_filter(rng, nex, nins)));
    }
    for _ in 0..len {
        if rng.chance(55) {
            let nc = rng.below(3);
            let no = rng.below(3);
            let mut reqs: Vec<String> = vec![];
            for _ in 0..nc {
                reqs.push(gen_req_cancel(rng, nex, nins, defs, true));
            }
            for _ in 0..no {
                reqs.push(gen_req_open(rng, nex, nins, defs, true));
            }
            out.line(format!("algo {}", reqs.join(" ")).trim_end().to_string());
        }
        let i = rng.below(nins as u64) as usize;
        let cid = 1 + rng.below(6);
        let line = match rng.below(100) {
            0..=17 => {
                let k = rng.range(1, 3);
                format!("ev cmd_open {}", (0..k).map(|_| gen_req_open(rng, nex, nins, defs, false)).collect::<Vec<_>>().join(" "))
            }
            18..=32 => {
                let k = rng.range(1, 3);
                format!("ev cmd_cancel {}", (0..k).map(|_| gen_req_cancel(rng, nex, nins, defs, false)).collect::<Vec<_>>().join(" "))
            }
            33..=44 => format!("ev trading {}", if rng.chance(50) { "on" } else { "off" }),
            45..=59 => format!("ev snap {i} {cid} 10 100 O {} {} {}", 1 + rng.below(3), rng.below(5), rng.pick(&[0, 5])),
            60..=64 => format!("ev snap {i} {cid} 10 100 X 0 0 0"),
            65..=71 => format!("ev resp {i} {cid} {}", if rng.chance(50) { "ok" } else { "err" }),
            72..=74 => "ev shutdown".into(),
            75..=81 => format!("ev cancel_orders {}", gen_filter(rng, nex, nins)),
            82..=88 => format!("ev close_positions {}", gen_filter(rng, nex, nins)),
            89..=93 => {
                if has_pos[i] && rng.chance(40) {
                    format!("ev reduce {i}")
                } else if has_pos[i] {
                    has_pos[i] = false;
                    format!("ev flat {i}")
                } else {
                    has_pos[i] = true;
                    format!("ev fill {i} {} {}", if rng.chance(50) { "B" } else { "S" }, 1 + rng.below(3))
                }
            }
            94..=96 => format!(
                "ev other {} {}",
                rng.pick(&["mktre", "accre", "bal"]),
                rng.below(nex as u64)
            ),
            _ => format!("ev price {i} {}", 100 + rng.below(5)),
        };
        out.line(line);
    }
}

// ------------------------------------------------------------------------------------------------
// Input-domain family (`d<id>` cases, separately seeded; the `r<id>` cases above stay as they are).
// Same op vocabulary, wider value classes per field - everything here is legal at the public API and
// inside the quantifier of C03 ("all engine event histories x strategy/risk outputs x link patterns x
// trading toggles x the four command kinds"):
//   * open requests: price / quantity over the signed Decimal domain (0, negative, fractional, 1e-8,
//     1e12) - the request path forwards and records them untouched;
//   * client order ids 0, 4999 | 5000.. (the scripted risk predicate's boundary) also in COMMANDS:
//     commands bypass the risk manager, so a cid the risk manager would refuse is sent;
//   * exchange indices far beyond the link table (not only nex, nex+1);
//   * batch sizes: empty commands (`OneOrMany::Many([])`), 6-12 requests per command / algo output;
//   * filters with SEVERAL elements (`OneOrMany::Many`): duplicates, known + unknown exchange,
//     out-of-range instrument, reversed / unknown underlyings;
//   * order snapshots: OpenInFlight (`F`), fully filled / over-filled Open (filled = | > quantity),
//     zero quantity / price, exchange time negative, far ahead;
//   * fills (on a flat instrument) and prices with fractional / tiny / huge magnitudes, price 0;
//   * long histories (120-200 events) and up to 6 instruments.
const D_PRICES: &[&str] = &["0", "-1", "0.5", "100.25", "0.00000001", "1000000000000", "100", "101"];
const D_QTYS: &[&str] = &["0", "-2.5", "0.5", "0.00000001", "1000000000000", "1", "2", "-1"];
/// never 9000..9099 (reserved for the injected close-position cid generator, canonicalised by label)
const D_CIDS: &[u64] = &[0, 1, 2, 3, 4999, 5000, 5001, 8999];

fn d_ex(rng: &mut Rng, nex: usize, own: usize) -> usize {
    match rng.below(100) {
        0..=69 => own,
        70..=81 => rng.below(nex as u64) as usize,
        82..=89 => nex + rng.below(2) as usize,
        _ => *rng.pick(&[nex + 50, 1_000_000]),
    }
}

fn d_req_open(rng: &mut Rng, nex: usize, defs: &[(usize, usize, usize)]) -> String {
    let ins = rng.below(defs.len() as u64) as usize;
    let ex = d_ex(rng, nex, defs[ins].0);
    let side = if rng.chance(50) { "B" } else { "S" };
    format!("o:{ex}:{ins}:{}:{side}:{}:{}", rng.pick(D_CIDS), rng.pick(D_PRICES), rng.pick(D_QTYS))
}

fn d_req_cancel(rng: &mut Rng, nex: usize, defs: &[(usize, usize, usize)]) -> String {
    let ins = rng.below(defs.len() as u64) as usize;
    let ex = d_ex(rng, nex, defs[ins].0);
    let cid = rng.pick(D_CIDS);
    if rng.chance(30) { format!("c:{ex}:{ins}:{cid}:{}", rng.below(3)) } else { format!("c:{ex}:{ins}:{cid}") }
}

/// batch size: empty, ordinary, large
fn d_batch(rng: &mut Rng) -> u64 {
    match rng.below(100) {
        0..=11 => 0,
        12..=79 => 1 + rng.below(3),
        _ => 6 + rng.below(7),
    }
}

/// filters with 1-3 elements (mostly several): duplicates, unknown exchange, out-of-range instrument,
/// reversed / degenerate / unknown underlyings
fn d_filter(rng: &mut Rng, nex: usize, nins: usize) -> String {
    let k = if rng.chance(20) { 1 } else { 2 + rng.below(2) };
    let list = |rng: &mut Rng, f: &mut dyn FnMut(&mut Rng) -> String| (0..k).map(|_| f(rng)).collect::<Vec<_>>().join(",");
    match rng.below(7) {
        0 => "none".into(),
        1 | 2 => format!("ex:{}", list(rng, &mut |r| r.below(nex as u64 + 2).to_string())),
        3 | 4 => format!("ins:{}", list(rng, &mut |r| r.below(nins as u64 + 1).to_string())),
        _ => format!("und:{}", list(rng, &mut |r| match r.below(10) {
            0 => format!("3-{}", r.below(3)),
            1 => "3-3".into(),
            2 => format!("{}-4", r.below(3)),
            _ => format!("{}-3", r.below(3)),
        })),
    }
}

fn gen_case_dom(rng: &mut Rng, out: &mut Out, tier: &str, id: usize) {
    let nex = rng.range(1, 3) as usize;
    let links: String = (0..nex)
        .map(|_| match rng.below(100) {
            0..=54 => 'H',
            55..=69 => 'C',
            70..=84 => 'U',
            _ => 'M',
        })
        .collect();
    let mut defs: Vec<(usize, usize, usize)> = (0..nex).map(|e| (e, rng.below(3) as usize, 3)).collect();
    for _ in 0..rng.below(4) {
        defs.push((rng.below(nex as u64) as usize, rng.below(3) as usize, 3));
    }
    let nins = defs.len();
    out.line(format!(
        "init {} L {links} I {}",
        if rng.chance(60) { "on" } else { "off" },
        defs.iter().map(|(e, b, q)| format!("{e},{b},{q}")).collect::<Vec<_>>().join(" ")
    ));
    // every tenth case is a long history
    let len = if id % 10 == 9 {
        rng.range(120, if tier == "thorough" { 200 } else { 150 })
    } else {
        rng.range(1, if tier == "thorough" { 40 } else { 25 })
    };
    let mut has_pos = vec![false; nins];
    for _ in 0..len {
        if rng.chance(45) {
            let (nc, no) = if rng.chance(12) { (3 + rng.below(4), 3 + rng.below(4)) } else { (rng.below(3), rng.below(3)) };
            let mut reqs: Vec<String> = vec![];
            for _ in 0..nc {
                reqs.push(d_req_cancel(rng, nex, &defs));
            }
            for _ in 0..no {
                reqs.push(d_req_open(rng, nex, &defs));
            }
            out.line(format!("algo {}", reqs.join(" ")).trim_end().to_string());
        }
        let i = rng.below(nins as u64) as usize;
        let line = match rng.below(100) {
            0..=17 => {
                let k = d_batch(rng);
                format!("ev cmd_open {}", (0..k).map(|_| d_req_open(rng, nex, &defs)).collect::<Vec<_>>().join(" "))
            }
            18..=32 => {
                let k = d_batch(rng);
                format!("ev cmd_cancel {}", (0..k).map(|_| d_req_cancel(rng, nex, &defs)).collect::<Vec<_>>().join(" "))
            }
            33..=40 => format!("ev trading {}", if rng.chance(50) { "on" } else { "off" }),
            41..=58 => {
                let cid = rng.pick(D_CIDS);
                let q = *rng.pick(&["10", "10", "0", "0.5"]);
                let p = *rng.pick(&["100", "0", "-1", "0.00000001"]);
                match rng.below(10) {
                    0 | 1 => format!("ev snap {i} {cid} {q} {p} F 0 0 0"),
                    2 | 3 => format!("ev snap {i} {cid} {q} {p} X 0 0 0"),
                    _ => format!(
                        "ev snap {i} {cid} {q} {p} O {} {} {}",
                        rng.below(4),
                        rng.pick(&[-1i64, 0, 1, 2, 3, 4, 100_000]),
                        rng.pick(&["0", "5", "10", "15", "0.5", "-1"])
                    ),
                }
            }
            59..=64 => format!("ev resp {i} {} {}", rng.pick(D_CIDS), if rng.chance(50) { "ok" } else { "err" }),
            65..=66 => "ev shutdown".into(),
            67..=75 => format!("ev cancel_orders {}", d_filter(rng, nex, nins)),
            76..=85 => format!("ev close_positions {}", d_filter(rng, nex, nins)),
            86..=93 => {
                if has_pos[i] && rng.chance(30) {
                    format!("ev reduce {i}")
                } else if has_pos[i] {
                    has_pos[i] = false;
                    format!("ev flat {i}")
                } else {
                    has_pos[i] = true;
                    format!(
                        "ev fill {i} {} {}",
                        if rng.chance(50) { "B" } else { "S" },
                        rng.pick(&["0.5", "0.00000001", "1000000000000", "1", "3", "2.25"])
                    )
                }
            }
            94..=95 => format!("ev other {} {}", rng.pick(&["mktre", "accre", "bal"]), rng.below(nex as u64)),
            // binary-exact prices only (the harness builds the market trade from an f64)
            _ => format!("ev price {i} {}", rng.pick(&["100", "100.5", "0.25", "0", "1000000000", "-3"])),
        };
        out.line(line.trim_end().to_string());
    }
}

// ------------------------------------------------------------------------------------------------
// Configuration-shape family (`cfg<id>` cases, separately seeded; `r` / `d` cases stay as they are).
// The `r` / `d` families have at most three exchanges and always ADD the first instrument of exchange
// label e at position e. All legal at the API and inside the quantifier ("configurations"):
//   * 4 and 5 exchanges (labels 3 = Okx, 4 = Bitfinex). `IndexedInstruments::builder().build()` SORTS
//     exchanges / instruments / assets, so ExchangeIndex order is always ExchangeId enum order; with label
//     4 (Bitfinex < Coinbase) the harness label differs from the ExchangeIndex for the first time, link
//     tables of 4-5 slots with every letter, requests / filters / reconnect notices for exchanges 3, 4;
//   * exchanges and instruments ADDED in a permuted, interleaved order (never label order): the builder
//     normalises it - a builder or state table that kept insertion order on one side only is exposed;
//   * forced link shapes: only the LAST index linked (`None` slots before it), only the first index
//     missing, no usable link at all.
fn gen_case_cfg(rng: &mut Rng, out: &mut Out, tier: &str, id: usize) {
    let nex = match rng.below(10) {
        0..=2 => 2,
        3..=5 => 3,
        6..=7 => 4,
        _ => 5,
    } as usize;
    // order in which the exchanges are added: a non-identity permutation of the labels
    let mut perm: Vec<usize> = (0..nex).collect();
    loop {
        for i in (1..nex).rev() {
            let j = rng.below(i as u64 + 1) as usize;
            perm.swap(i, j);
        }
        if perm.iter().enumerate().any(|(i, p)| i != *p) {
            break;
        }
    }
    let mut defs: Vec<(usize, usize, usize)> = perm.iter().map(|e| (*e, rng.below(3) as usize, 3)).collect();
    // extra instruments at random positions AFTER the first one (the first appearance order stays `perm`
    // only when the extra lands behind its exchange's first instrument; either way legal)
    for _ in 0..rng.below(4) {
        let at = 1 + rng.below(defs.len() as u64) as usize;
        defs.insert(at, (rng.below(nex as u64) as usize, rng.below(3) as usize, 3));
    }
    // order of first appearance actually resulting; rotate until it is not the identity
    let first_appearance = |defs: &[(usize, usize, usize)]| {
        let mut order: Vec<usize> = vec![];
        for (e, _, _) in defs.iter() {
            if !order.contains(e) {
                order.push(*e);
            }
        }
        order
    };
    for _ in 0..defs.len() {
        if first_appearance(&defs).iter().enumerate().any(|(i, e)| i != *e) {
            break;
        }
        defs.rotate_left(1);
    }
    let mut links: Vec<char> = (0..nex)
        .map(|_| match rng.below(100) {
            0..=54 => 'H',
            55..=69 => 'C',
            70..=84 => 'U',
            _ => 'M',
        })
        .collect();
    // labels in ExchangeIndex order = ExchangeId enum order: BinanceSpot(0) < Bitfinex(4) < Coinbase(1) < Kraken(2) < Okx(3)
    let mut order: Vec<usize> = (0..nex).collect();
    order.sort_by_key(|l| [0, 2, 3, 4, 1][*l]);
    match id % 8 {
        // only the last ExchangeIndex linked, `None` slots before it
        1 => {
            for (pos, e) in order.iter().enumerate() {
                links[*e] = if pos + 1 == nex { 'H' } else { 'M' };
            }
        }
        // only the first ExchangeIndex missing
        3 => {
            for (pos, e) in order.iter().enumerate() {
                links[*e] = if pos == 0 { 'M' } else { 'H' };
            }
        }
        // no usable link at all
        5 => {
            for l in links.iter_mut() {
                if *l == 'H' {
                    *l = *rng.pick(&['C', 'M', 'U']);
                }
            }
        }
        _ => {}
    }
    let trading = if rng.chance(50) { "on" } else { "off" };
    out.line(format!(
        "init {trading} L {} I {}",
        links.iter().collect::<String>(),
        defs.iter().map(|(e, b, q)| format!("{e},{b},{q}")).collect::<Vec<_>>().join(" ")
    ));
    gen_body(rng, out, tier, nex, &defs);
}

/// NETTING family (`n<k>`): account trades on instruments that ALREADY hold a position (increase / reduce /
/// exact close / flip: the four arms of `Position::update_from_trade`, netted by the model's `netFill`), with
/// ClosePositions commands in between, so that the requests the engine sends are built from NET positions.
fn gen_case_net(rng: &mut Rng, out: &mut Out, tier: &str) {
    let nex = rng.range(1, 3) as usize;
    let links: String = (0..nex).map(|_| if rng.chance(80) { 'H' } else { *rng.pick(&['C', 'U', 'M']) }).collect();
    let mut defs: Vec<(usize, usize, usize)> = (0..nex).map(|e| (e, rng.below(3) as usize, 3)).collect();
    for _ in 0..rng.below(3) {
        defs.push((rng.below(nex as u64) as usize, rng.below(3) as usize, 3));
    }
    let nins = defs.len();
    let trading = if rng.chance(50) { "on" } else { "off" };
    out.line(format!(
        "init {trading} L {links} I {}",
        defs.iter().map(|(e, b, q)| format!("{e},{b},{q}")).collect::<Vec<_>>().join(" ")
    ));
    for i in 0..nins {
        if rng.chance(85) {
            out.line(format!("ev price {i} {}", 100 + rng.below(5)));
        }
    }
    let len = rng.range(6, if tier == "thorough" { 30 } else { 18 });
    for _ in 0..len {
        let i = rng.below(nins as u64) as usize;
        let line = match rng.below(12) {
            0..=6 => format!(
                "ev fill {i} {} {}",
                if rng.chance(50) { "B" } else { "S" },
                rng.pick(&["1", "2", "3", "0.5", "1.5", "4"])
            ),
            7 => format!("ev close_positions {}", gen_filter(rng, nex, nins)),
            8 => format!("ev price {i} {}", 100 + rng.below(5)),
            9 => format!("ev reduce {i}"),
            10 => format!("ev flat {i}"),
            _ => format!("ev trading {}", if rng.chance(50) { "on" } else { "off" }),
        };
        out.line(line);
    }
    out.line("ev close_positions none");
}

fn generate(seed: u64, n_cases: usize, tier: &str) {
    let mut out = Out::new();
    let mut rng = Rng::new(seed);
    for id in 0..n_cases {
        out.case(format!("r{id}"));
        gen_case(&mut rng, &mut out, tier);
    }
    // input-domain family: one extra case per five random ones, own random stream
    let mut drng = Rng::new(seed ^ 0xD0_3A_11_5E_ED);
    for id in 0..n_cases / 5 {
        out.case(format!("d{id}"));
        gen_case_dom(&mut drng, &mut out, tier, id);
    }
    // configuration-shape family: one extra case per five random ones, own random stream
    let mut crng = Rng::new(seed ^ 0xCF_61_C0_03_5E_ED);
    for id in 0..n_cases / 5 {
        out.case(format!("cfg{id}"));
        gen_case_cfg(&mut crng, &mut out, tier, id);
    }
    // netting family (fills on instruments that already hold a position), own random stream
    let mut nrng = Rng::new(seed ^ 0x4E_77_C0_03_5E_ED);
    for id in 0..(n_cases / 5).max(if n_cases > 0 { 10 } else { 0 }) {
        out.case(format!("n{id}"));
        gen_case_net(&mut nrng, &mut out, tier);
    }
    out.flush();
}

fn main() {
    let a = args();
    match a.cmd.as_str() {
        "gen" => generate(a.seed, a.n, &a.tier),
        "run" => run_cases(run_case),
        _ => {
            eprintln!("usage: c03 gen <seed> <n> <tier> | run < cases");
            std::process::exit(2)
        }
    }
}
