//! C20K — engine clocks (`barter/src/engine/clock.rs` and the `time_exchange` accessors).
//!
//! Ops (all times integer nanoseconds since the epoch):
//!   `new <t>`      a bare `HistoricalClock::new(t)`
//!   `enew <t>`     a real `Engine` (vh::engine_util) whose clock is `HistoricalClock::new(t)`; events then go
//!                  through `Engine::process`, `time` through `Engine::time`
//!   `ev <event>`   `event.time_exchange()`, then `clock.process(&event)` / `engine.process(event)`
//!   `evc <event>`  the same through a clone of the clock (clones share the cell)
//!   `time`         `clock.time()` / `engine.time()`
//!   `live`         `LiveClock.process(&event)` (no-op) and `LiveClock.time()`
//!   `sleep <us>`   busy-wait
//!   `numms <ns>` / `numsec <ns>`   chrono's `TimeDelta::num_milliseconds` / `num_seconds`
//!
//! `Utc::now()` cannot be controlled. Compared are only wall-independent observations: the event's
//! exchange time (`tx`), the stored `time_exchange_last` (`last`) and whether `time_live_last_event` was
//! re-read (`anchor fresh|kept`) — both read through the clock's public `Debug` impl — and for `time()`
//! whether the returned value equals `last + (w - anchor)` for a wall reading `w` between a reading taken
//! before and one taken after the call (`time within`).
use barter::{
    EngineEvent,
    engine::{
        Processor,
        clock::{EngineClock, HistoricalClock, LiveClock, TimeExchange},
        command::Command,
        state::{instrument::filter::InstrumentFilter, trading::TradingState},
    },
    execution::AccountStreamEvent,
};
use barter_data::{
    event::{DataKind, MarketEvent},
    streams::consumer::MarketStreamEvent,
    subscription::trade::PublicTrade,
};
use barter_execution::{
    AccountEvent, AccountEventKind, AccountSnapshot, InstrumentAccountSnapshot,
    balance::{AssetBalance, Balance},
    error::{ApiError, ConnectivityError, OrderError},
    order::{
        Order, OrderEvent, OrderKey, OrderKind, TimeInForce,
        id::{ClientOrderId, OrderId, StrategyId},
        state::{
            ActiveOrderState, CancelInFlight, Cancelled, InactiveOrderState, Open, OpenInFlight,
            OrderState,
        },
    },
    trade::{AssetFees, Trade, TradeId},
};
use barter_instrument::{
    Side, asset::AssetIndex, exchange::ExchangeIndex, instrument::InstrumentIndex,
};
use barter_integration::snapshot::Snapshot;
use chrono::{DateTime, TimeDelta, Utc};
use rust_decimal::Decimal;
use vh::{engine_util::*, *};

const NS: i64 = 1_000_000_000;

fn dt(ns: i64) -> DateTime<Utc> {
    DateTime::from_timestamp(ns.div_euclid(NS), ns.rem_euclid(NS) as u32).expect("time in range")
}

fn ns_of(t: DateTime<Utc>) -> i128 {
    t.timestamp() as i128 * NS as i128 + t.timestamp_subsec_nanos() as i128
}

/// `(time_exchange_last, time_live_last_event)` read through the public `Debug` impl of the clock
/// (`HistoricalClock { inner: RwLock { data: HistoricalClockInner { time_exchange_last: .., .. } } }`).
fn inner(clock: &HistoricalClock) -> (i128, i128) {
    let s = format!("{clock:?}");
    let grab = |key: &str| -> i128 {
        let i = s.find(key).unwrap_or_else(|| panic!("no {key} in {s}")) + key.len();
        let rest = &s[i..];
        let end = rest
            .find(|c: char| c == ',' || c == ' ' || c == '}')
            .unwrap_or(rest.len());
        let t: DateTime<Utc> = rest[..end]
            .parse()
            .unwrap_or_else(|e| panic!("bad time {:?}: {e}", &rest[..end]));
        ns_of(t)
    };
    (grab("time_exchange_last: "), grab("time_live_last_event: "))
}

/// A wall-clock reading strictly later than every reading taken before this call.
fn fresh_now() -> i128 {
    let a = Utc::now();
    loop {
        let b = Utc::now();
        if b > a {
            return ns_of(b);
        }
    }
}

fn key(cid: &str) -> OrderKey {
    OrderKey {
        exchange: ExchangeIndex(0),
        instrument: InstrumentIndex(0),
        strategy: StrategyId::new("verif"),
        cid: ClientOrderId::new(cid),
    }
}

fn parse_state(s: &str) -> OrderState {
    let (head, arg) = match s.split_once(':') {
        Some((h, a)) => (h, Some(a)),
        None => (s, None),
    };
    let open = |t: &str| Open {
        id: OrderId::new("o"),
        time_exchange: dt(t.parse().expect("time")),
        filled_quantity: Decimal::ZERO,
    };
    match (head, arg) {
        ("oif", None) => OrderState::Active(ActiveOrderState::OpenInFlight(OpenInFlight)),
        ("open", Some(t)) => OrderState::Active(ActiveOrderState::Open(open(t))),
        ("cif", Some("none")) => {
            OrderState::Active(ActiveOrderState::CancelInFlight(CancelInFlight { order: None }))
        }
        ("cif", Some(t)) => OrderState::Active(ActiveOrderState::CancelInFlight(CancelInFlight {
            order: Some(open(t)),
        })),
        ("canc", Some(t)) => OrderState::Inactive(InactiveOrderState::Cancelled(Cancelled {
            id: OrderId::new("o"),
            time_exchange: dt(t.parse().expect("time")),
        })),
        ("full", None) => OrderState::Inactive(InactiveOrderState::FullyFilled),
        ("failed", None) => OrderState::Inactive(InactiveOrderState::OpenFailed(
            OrderError::Rejected(ApiError::OrderRejected("verif".into())),
        )),
        ("exp", None) => OrderState::Inactive(InactiveOrderState::Expired),
        _ => panic!("bad order state {s}"),
    }
}

fn order(cid: &str, state: OrderState) -> Order {
    Order {
        key: key(cid),
        side: Side::Buy,
        price: Decimal::from(100),
        quantity: Decimal::from(1),
        kind: OrderKind::Limit,
        time_in_force: TimeInForce::GoodUntilCancelled { post_only: false },
        state,
    }
}

fn list(s: &str) -> Vec<&str> {
    if s.is_empty() { vec![] } else { s.split(',').collect() }
}

fn account(kind: AccountEventKind<ExchangeIndex, AssetIndex, InstrumentIndex>) -> Event {
    EngineEvent::Account(AccountStreamEvent::Item(AccountEvent {
        exchange: ExchangeIndex(0),
        kind,
    }))
}

fn balance(asset: usize, t: &str) -> AssetBalance<AssetIndex> {
    AssetBalance {
        asset: AssetIndex(asset),
        balance: Balance::new(Decimal::from(1000), Decimal::from(1000)),
        time_exchange: dt(t.parse().expect("time")),
    }
}

fn parse_event(toks: &[String], k: usize) -> Event {
    let t = |i: usize| -> DateTime<Utc> { dt(toks[i].parse().expect("time")) };
    match toks[0].as_str() {
        "shutdown" => EngineEvent::shutdown(),
        "command" => EngineEvent::Command(Command::ClosePositions(InstrumentFilter::None)),
        "tsu" => EngineEvent::TradingStateUpdate(TradingState::Enabled),
        "accre" => EngineEvent::Account(AccountStreamEvent::Reconnecting(EXCHANGES[0])),
        "mktre" => EngineEvent::Market(MarketStreamEvent::Reconnecting(EXCHANGES[0])),
        "mkt" => EngineEvent::Market(MarketStreamEvent::Item(MarketEvent {
            time_exchange: t(1),
            time_received: Utc::now(),
            exchange: EXCHANGES[0],
            instrument: InstrumentIndex(0),
            kind: DataKind::Trade(PublicTrade {
                id: k.to_string(),
                price: 100.0,
                amount: 1.0,
                side: Side::Buy,
            }),
        })),
        "bal" => account(AccountEventKind::BalanceSnapshot(Snapshot(balance(0, &toks[1])))),
        "trade" => account(AccountEventKind::Trade(Trade {
            id: TradeId::new(k.to_string()),
            order_id: OrderId::new("o"),
            instrument: InstrumentIndex(0),
            strategy: StrategyId::new("verif"),
            time_exchange: t(1),
            side: Side::Buy,
            price: Decimal::from(100),
            quantity: Decimal::from(1),
            fees: AssetFees::quote_fees(Decimal::ZERO),
        })),
        "ord" => account(AccountEventKind::OrderSnapshot(Snapshot(order(
            &format!("c{k}"),
            parse_state(&toks[1]),
        )))),
        "cancel" => {
            let state = match toks[1].split_once(':') {
                Some(("ok", t)) => Ok(Cancelled {
                    id: OrderId::new("o"),
                    time_exchange: dt(t.parse().expect("time")),
                }),
                None if toks[1] == "err" => {
                    Err(OrderError::Connectivity(ConnectivityError::Timeout))
                }
                _ => panic!("bad cancel {}", toks[1]),
            };
            account(AccountEventKind::OrderCancelled(OrderEvent {
                key: key(&format!("c{k}")),
                state,
            }))
        }
        "snap" => {
            let b = toks[1].strip_prefix("b=").expect("b=");
            let balances = list(b)
                .iter()
                .enumerate()
                .map(|(i, t)| balance(i % 2, t))
                .collect();
            let instruments = toks[2..]
                .iter()
                .map(|tok| {
                    let i = tok.strip_prefix("i=").expect("i=");
                    InstrumentAccountSnapshot {
                        instrument: InstrumentIndex(0),
                        orders: list(i)
                            .iter()
                            .enumerate()
                            .map(|(j, s)| order(&format!("c{k}_{j}"), parse_state(s)))
                            .collect(),
                    }
                })
                .collect();
            account(AccountEventKind::Snapshot(AccountSnapshot {
                exchange: ExchangeIndex(0),
                balances,
                instruments,
            }))
        }
        other => panic!("bad event {other}"),
    }
}

enum Sut {
    None,
    Clock(HistoricalClock),
    Engine(Box<Built>),
}

impl Sut {
    fn clock(&self) -> &HistoricalClock {
        match self {
            Sut::Clock(c) => c,
            Sut::Engine(b) => &b.engine.clock,
            Sut::None => panic!("new first"),
        }
    }
}

fn run() {
    run_cases(|case, lines| {
        let mut sut = Sut::None;
        for (k, op) in case.ops.iter().enumerate() {
            lines.push("@".into());
            match op[0].as_str() {
                "new" | "enew" => {
                    let t: i64 = op[1].parse().expect("time");
                    let w0 = fresh_now();
                    sut = if op[0] == "new" {
                        Sut::Clock(HistoricalClock::new(dt(t)))
                    } else {
                        let instruments = build_instruments(&[(0, "btc", "usdt")]);
                        let mut built = build_engine(&instruments, &[], TradingState::Disabled);
                        built.engine.clock = HistoricalClock::new(dt(t));
                        Sut::Engine(Box::new(built))
                    };
                    let w1 = ns_of(Utc::now());
                    let (last, live) = inner(sut.clock());
                    lines.push(format!("last {last}"));
                    lines.push(format!(
                        "anchor {}",
                        if w0 <= live && live <= w1 { "fresh" } else { "bad" }
                    ));
                }
                "ev" | "evc" => {
                    let event = parse_event(&op[1..], k);
                    let tx = event.time_exchange();
                    let (_, live_before) = inner(sut.clock());
                    let w0 = fresh_now();
                    match &mut sut {
                        Sut::Clock(c) => {
                            if op[0] == "evc" {
                                let mut alias = c.clone();
                                alias.process(&event);
                            } else {
                                c.process(&event);
                            }
                        }
                        Sut::Engine(b) => {
                            if op[0] == "evc" {
                                let mut alias = b.engine.clock.clone();
                                alias.process(&event);
                            } else {
                                let _audit = b.engine.process(event);
                            }
                        }
                        Sut::None => panic!("new first"),
                    }
                    let w1 = ns_of(Utc::now());
                    let (last, live) = inner(sut.clock());
                    lines.push(format!(
                        "tx {}",
                        tx.map(|t| ns_of(t).to_string()).unwrap_or_else(|| "none".into())
                    ));
                    lines.push(format!("last {last}"));
                    lines.push(format!(
                        "anchor {}",
                        if live == live_before {
                            "kept"
                        } else if w0 <= live && live <= w1 {
                            "fresh"
                        } else {
                            "bad"
                        }
                    ));
                }
                "time" => {
                    let (last, live) = inner(sut.clock());
                    let w0 = fresh_now();
                    let t = match &sut {
                        Sut::Clock(c) => c.time(),
                        Sut::Engine(b) => b.engine.time(),
                        Sut::None => panic!("new first"),
                    };
                    let w1 = ns_of(Utc::now());
                    let t = ns_of(t);
                    // the wall reading `w` for which `t = last + (w - anchor)`
                    let implied = live + (t - last);
                    lines.push(format!(
                        "time {}",
                        if w0 <= implied && implied <= w1 { "within" } else { "outside" }
                    ));
                    lines.push(format!("ge_last {}", if t >= last { 1 } else { 0 }));
                }
                "live" => {
                    let mut clock = LiveClock;
                    let event: Event = EngineEvent::shutdown();
                    clock.process(&event);
                    let w0 = fresh_now();
                    let t = ns_of(clock.time());
                    let w1 = ns_of(Utc::now());
                    lines.push(format!(
                        "live {}",
                        if w0 <= t && t <= w1 { "within" } else { "outside" }
                    ));
                }
                "sleep" => {
                    let us: u64 = op[1].parse().expect("us");
                    let start = std::time::Instant::now();
                    while start.elapsed() < std::time::Duration::from_micros(us) {
                        std::hint::spin_loop();
                    }
                }
                "numms" => {
                    let d = TimeDelta::nanoseconds(op[1].parse().expect("ns"));
                    lines.push(format!("numms {}", d.num_milliseconds()));
                    lines.push(format!("guard {}", if d.num_milliseconds() >= 0 { 1 } else { 0 }));
                }
                "numsec" => {
                    let d = TimeDelta::nanoseconds(op[1].parse().expect("ns"));
                    lines.push(format!("numsec {}", d.num_seconds()));
                }
                other => panic!("bad op {other}"),
            }
        }
    });
}

const BASE: i64 = 1_700_000_000_000_000_000;

/// Offsets (ns) at every scale the code distinguishes: sub-millisecond, the 1 s and 30 s log thresholds.
const OFFSETS: [i64; 17] = [
    0,
    1,
    999_999,
    1_000_000,
    1_000_001,
    500_000_000,
    999_999_999,
    1_000_000_000,
    1_000_000_001,
    1_999_999_999,
    2_000_000_000,
    29_999_999_999,
    30_000_000_000,
    30_000_000_001,
    60_000_000_000,
    3_600_000_000_000,
    86_400_000_000_000,
];

fn gen_state(rng: &mut Rng, pool: &[i64]) -> String {
    let t = *rng.pick(pool);
    match rng.below(9) {
        0 => "oif".into(),
        1 | 2 => format!("open:{t}"),
        3 => "cif:none".into(),
        4 => format!("cif:{t}"),
        5 => format!("canc:{t}"),
        6 => "full".into(),
        7 => "failed".into(),
        _ => "exp".into(),
    }
}

fn gen_event(rng: &mut Rng, pool: &[i64]) -> String {
    let t = *rng.pick(pool);
    match rng.below(20) {
        0 => "shutdown".into(),
        1 => "command".into(),
        2 => "tsu".into(),
        3 => "accre".into(),
        4 => "mktre".into(),
        5..=9 => format!("mkt {t}"),
        10 => format!("bal {t}"),
        11 => format!("trade {t}"),
        12 | 13 => format!("ord {}", gen_state(rng, pool)),
        14 => format!("cancel ok:{t}"),
        15 => "cancel err".into(),
        _ => {
            let nb = rng.below(4);
            let b: Vec<String> = (0..nb).map(|_| rng.pick(pool).to_string()).collect();
            let ni = rng.below(3);
            let mut s = format!("snap b={}", b.join(","));
            for _ in 0..ni {
                let no = rng.below(4);
                let o: Vec<String> = (0..no).map(|_| gen_state(rng, pool)).collect();
                s.push_str(&format!(" i={}", o.join(",")));
            }
            s
        }
    }
}

fn generate(seed: u64, n_cases: usize, tier: &str) {
    let mut out = Out::new();
    let mut rng = Rng::new(seed);
    let mut id = 0usize;
    if tier == "thorough" {
        // exhaustive: every sequence of length <= 4 over 11 symbols around one timestamp
        let (a, b, c) = (BASE - 1, BASE, BASE + 1);
        let syms: Vec<String> = vec![
            format!("ev mkt {a}"),
            format!("ev mkt {b}"),
            format!("ev mkt {c}"),
            "ev mktre".into(),
            "ev ord oif".into(),
            format!("ev ord open:{c}"),
            "ev cancel err".into(),
            format!("evc cancel ok:{a}"),
            "ev snap b=".into(),
            format!("ev snap b={a},{c} i=open:{b},oif"),
            "time".into(),
        ];
        for len in 0..=4usize {
            let total = syms.len().pow(len as u32);
            for mut code in 0..total {
                id += 1;
                out.case(format!("x{id}"));
                out.line(format!("new {b}"));
                for _ in 0..len {
                    out.line(&syms[code % syms.len()]);
                    code /= syms.len();
                }
            }
        }
    }
    // the input-domain family (cases `d<n>`, own PRNG stream, one per 10 random cases) runs the same loop around the
    // timestamps the random cases never come near: the epoch itself (0), 1 ns, sub-millisecond instants, instants BEFORE
    // 1970 (negative nanosecond counts: `DateTime<Utc>` is signed) and -1 ns
    let mut drng = Rng::new(seed ^ 0x444f_4d4b);
    let n_dom = n_cases / 10;
    for case_no in 0..n_cases + n_dom {
        let dom = case_no >= n_cases;
        let rng = if dom { &mut drng } else { &mut rng };
        id += 1;
        out.case(if dom { format!("d{}", case_no - n_cases + 1) } else { format!("r{id}") });
        // few distinct timestamps per case, so that ties and out-of-order events are frequent
        let centre = if dom {
            *rng.pick(&[0i64, 0, 1, -1, 999_999, -999_999, 1_000_000, -1_000_000_000, -86_400_000_000_000, 30_000_000_000])
        } else {
            BASE + rng.range(0, 1000) * 1_000_000
        };
        let mut pool = vec![centre];
        for _ in 0..rng.range(2, 5) {
            let off = *rng.pick(&OFFSETS);
            pool.push(if rng.chance(50) { centre + off } else { centre - off });
        }
        let engine = rng.chance(25);
        out.line(format!("{} {}", if engine { "enew" } else { "new" }, rng.pick(&pool)));
        let len = rng.range(1, if tier == "thorough" { 40 } else { 20 });
        for _ in 0..len {
            match rng.below(100) {
                0..=64 => {
                    let op = if rng.chance(10) { "evc" } else { "ev" };
                    let ev = gen_event(rng, &pool);
                    out.line(format!("{op} {ev}"));
                }
                65..=79 => out.line("time"),
                80..=84 => out.line("live"),
                85..=89 => out.line(format!("sleep {}", rng.pick(&[1u64, 10, 100, 1500]))),
                90..=95 => {
                    let off = *rng.pick(&OFFSETS);
                    let d = if rng.chance(50) { off } else { -off };
                    out.line(format!("numms {d}"));
                }
                _ => {
                    let off = *rng.pick(&OFFSETS);
                    let d = if rng.chance(50) { off } else { -off };
                    out.line(format!("numsec {d}"));
                }
            }
        }
    }
    out.flush();
}

fn main() {
    let a = args();
    match a.cmd.as_str() {
        "gen" => generate(a.seed, a.n, &a.tier),
        "run" => run(),
        _ => {
            eprintln!("usage: c20k gen <seed> <n> <tier> | run < cases");
            std::process::exit(2)
        }
    }
}
