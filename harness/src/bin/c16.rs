//! C16 — tear sheet PnL / win rate / profit factor and the keyed maps of the trading summary.
//!
//! Ops (see `lean/BarterModel/Driver/C16.lean`):
//!   `init n m direct|engine`   n instruments (instrument i on exchange i % 2, base `b{i}`, quote
//!                              `usdt`), m = number of exchange-assets of that configuration
//!   `initb n m direct|engine L<k> [a total free]..`
//!                              configuration-shape family: instrument layout `k` (see `layout_defs`: 0 the
//!                              layout of `init`, 1 three exchanges unevenly filled, 2 ONE exchange with chained
//!                              cross pairs that share assets, 3 the same pair on three exchanges) and INITIAL
//!                              balances given to `EngineStateBuilder::balances` (asset index `a`; they are
//!                              applied at `time_engine_start` = `bal a 0 total free`); odd layouts run with
//!                              exchange 0 tracked but without an execution link
//!   `pos i pnl entry qty`      (direct) `TradingSummaryGenerator::update_from_position`
//!   `rt i B|S entry qty exit feeIn feeOut`
//!                              (engine) opening fill + exactly closing fill via `Engine::process`
//!   `bal a t total free`       balance snapshot for `AssetIndex(a)` at `t0 + t ms`
//! Observations: `closed ..` (the `PositionExited` in the engine's audit, for `rt`), then per
//! instrument label `ts i pnl .. win .. pf ..` looked up in `TradingSummary.instruments` by the
//! instrument's *name*, per asset index `as a total free|none` looked up in `TradingSummary.assets`
//! by the asset's `ExchangeAsset` key.
use barter::{
    EngineEvent,
    engine::{
        EngineOutput, Processor,
        audit::EngineAudit,
        state::{position::PositionExited, trading::TradingState},
    },
    execution::AccountStreamEvent,
    statistic::{
        summary::{TradingSummary, TradingSummaryGenerator},
        time::Daily,
    },
};
use barter_execution::{
    AccountEvent, AccountEventKind,
    balance::{AssetBalance, Balance},
    order::id::{OrderId, StrategyId},
    trade::{AssetFees, Trade, TradeId},
};
use barter_instrument::{
    Side,
    asset::{AssetIndex, QuoteAsset},
    exchange::ExchangeIndex,
    instrument::{InstrumentIndex, name::InstrumentNameInternal},
};
use barter_integration::snapshot::Snapshot;
use rust_decimal::Decimal;
use barter::engine::state::{
    EngineState, global::DefaultGlobalData, instrument::data::DefaultInstrumentMarketData,
};
use barter_instrument::{Keyed, asset::{ExchangeAsset, name::AssetNameInternal}};
use vh::{engine_util::*, *};

fn instrument_name(i: usize) -> InstrumentNameInternal {
    InstrumentNameInternal::new(format!("b{}_usdt_x{}", i, i % 2))
}

fn n_assets(n: usize) -> usize {
    n + n.min(2)
}

/// Instrument layouts of the configuration-shape family: `(exchange label, base, quote)` of instrument label `i`.
fn layout_defs(layout: usize, n: usize) -> Vec<(usize, String, String)> {
    (0..n)
        .map(|i| match layout {
            // the layout of `init`
            0 => (i % 2, format!("b{i}"), "usdt".to_string()),
            // three exchanges, unevenly filled; the first instrument sits on the LAST exchange
            1 => ([2usize, 0, 0, 0, 1, 0][i % 6], format!("b{i}"), "usdt".to_string()),
            // one exchange (not the first of the table) with chained cross pairs: the quote of instrument i is
            // the base of instrument i-1, so assets are shared between instruments
            2 => (1, format!("b{i}"), if i == 0 { "usdt".to_string() } else { format!("b{}", i - 1) }),
            // the same pair on three exchanges (names differ by the exchange suffix only), descending bases
            _ => (i % 3, format!("b{}", 9 - i / 3), "usdt".to_string()),
        })
        .collect()
}

/// number of distinct exchange-assets of a layout
fn layout_assets(defs: &[(usize, String, String)]) -> usize {
    let mut keys: Vec<(usize, &str)> = vec![];
    for (ex, base, quote) in defs {
        keys.push((*ex, base.as_str()));
        keys.push((*ex, quote.as_str()));
    }
    keys.sort();
    keys.dedup();
    keys.len()
}

enum Sut {
    Direct(Box<TestEngine>, TradingSummaryGenerator),
    Engine(Box<TestEngine>),
}

fn fmt_pf(v: Option<Decimal>) -> String {
    match v {
        None => "none".into(),
        Some(d) if d == Decimal::MAX => "MAX".into(),
        Some(d) if d == Decimal::MIN => "MIN".into(),
        Some(d) => fmt_dec_approx(d),
    }
}

fn observe(
    engine: &TestEngine,
    names: &[InstrumentNameInternal],
    summary: &TradingSummary<Daily>,
    lines: &mut Vec<String>,
) {
    let n = names.len();
    assert_eq!(summary.instruments.len(), n, "summary has one entry per instrument");
    for i in 0..n {
        let sheet = summary
            .instruments
            .get(&names[i])
            .expect("summary entry for the instrument name");
        lines.push(format!(
            "ts {i} pnl {} win {} pf {}",
            fmt_dec(sheet.pnl),
            fmt_opt_dec_approx(sheet.win_rate.as_ref().map(|w| w.value)),
            fmt_pf(sheet.profit_factor.as_ref().map(|p| p.value)),
        ));
    }
    assert_eq!(summary.assets.len(), engine.state.assets.0.len());
    for (a, key) in engine.state.assets.0.keys().enumerate() {
        let sheet = summary.assets.get(key).expect("summary entry for the asset key");
        match sheet.balance_end {
            None => lines.push(format!("as {a} none")),
            Some(b) => lines.push(format!("as {a} {} {}", fmt_dec(b.total), fmt_dec(b.free))),
        }
    }
}

fn instrument_index(engine: &TestEngine, names: &[InstrumentNameInternal], i: usize) -> usize {
    let Some(name) = names.get(i) else { return 1000 + i };
    // an unknown label is passed through as an out-of-range index (the code panics on it)
    engine
        .state
        .instruments
        .0
        .get_index_of(name)
        .unwrap_or(1000 + i)
}

fn exchange_index_of_asset(engine: &TestEngine, a: usize) -> usize {
    match engine.state.assets.0.get_index(a) {
        Some((key, _)) => engine
            .state
            .connectivity
            .exchanges
            .get_index_of(&key.exchange)
            .unwrap(),
        None => 0,
    }
}

fn trade_event(
    engine: &TestEngine,
    k: usize,
    sub: usize,
    idx: usize,
    side: Side,
    price: Decimal,
    quantity: Decimal,
    fees: Decimal,
) -> Event {
    let exchange = engine
        .state
        .instruments
        .0
        .get_index(idx)
        .map(|(_, s)| s.instrument.exchange)
        .unwrap_or(ExchangeIndex(0));
    EngineEvent::Account(AccountStreamEvent::Item(AccountEvent {
        exchange,
        kind: AccountEventKind::Trade(Trade {
            id: TradeId::new(format!("t{k}_{sub}")),
            order_id: OrderId::new(format!("o{k}_{sub}")),
            instrument: InstrumentIndex(idx),
            strategy: StrategyId::new("verif"),
            time_exchange: time_ms((2 * k + sub) as i64),
            side,
            price,
            quantity,
            fees: AssetFees::quote_fees(fees),
        }),
    }))
}

fn position_exits(audit: &<TestEngine as Processor<Event>>::Audit) -> Vec<PositionExited<QuoteAsset>> {
    let mut res = vec![];
    if let EngineAudit::Process(p) = audit {
        for o in p.outputs.iter() {
            if let EngineOutput::PositionExit(pos) = o {
                res.push(pos.clone());
            }
        }
    }
    res
}

fn run() {
    run_cases(|case, lines| {
        let mut sut: Option<Sut> = None;
        let mut names: Vec<InstrumentNameInternal> = vec![];
        let rf = Decimal::new(5, 2);
        for (k, op) in case.ops.iter().enumerate() {
            lines.push("@".into());
            match op[0].as_str() {
                "init" => {
                    let n: usize = op[1].parse().unwrap();
                    names = (0..n).map(instrument_name).collect();
                    let m: usize = op[2].parse().unwrap();
                    let bases: Vec<String> = (0..n).map(|i| format!("b{i}")).collect();
                    let defs: Vec<(usize, &str, &str)> =
                        (0..n).map(|i| (i % 2, bases[i].as_str(), "usdt")).collect();
                    let instruments = build_instruments(&defs);
                    let built = build_engine(&instruments, &[], TradingState::Disabled);
                    let engine = built.engine;
                    assert_eq!(engine.state.assets.0.len(), m, "asset count of the configuration");
                    assert_eq!(m, n_assets(n));
                    let generator = engine.trading_summary_generator(rf);
                    let summary = generator.clone().generate(Daily);
                    observe(&engine, &names, &summary, lines);
                    sut = Some(match op[3].as_str() {
                        "direct" => Sut::Direct(Box::new(engine), generator),
                        "engine" => Sut::Engine(Box::new(engine)),
                        other => panic!("bad mode {other}"),
                    });
                }
                "initb" => {
                    let n: usize = op[1].parse().unwrap();
                    let m: usize = op[2].parse().unwrap();
                    let layout: usize = op[4].strip_prefix('L').expect("layout").parse().unwrap();
                    assert!(layout <= 3 && (op.len() - 5) % 3 == 0, "bad op initb");
                    let defs = layout_defs(layout, n);
                    names = defs
                        .iter()
                        .map(|(ex, b, q)| InstrumentNameInternal::new(format!("{b}_{q}_x{ex}")))
                        .collect();
                    let refs: Vec<(usize, &str, &str)> =
                        defs.iter().map(|(ex, b, q)| (*ex, b.as_str(), q.as_str())).collect();
                    let instruments = build_instruments(&refs);
                    assert_eq!(instruments.assets().len(), m, "asset count of the configuration");
                    assert_eq!(m, layout_assets(&defs));
                    // initial balances: `EngineStateBuilder::balances`, keyed by ExchangeAsset (an unknown asset
                    // index has no key: the builder is given a key the state does not contain and panics)
                    let balances: Vec<Keyed<ExchangeAsset<AssetNameInternal>, barter_execution::balance::Balance>> = op[5..]
                        .chunks(3)
                        .map(|c| {
                            let a: usize = c[0].parse().unwrap();
                            let key = match instruments.assets().get(a) {
                                Some(k) => ExchangeAsset::new(k.value.exchange, k.value.asset.name_internal.clone()),
                                None => ExchangeAsset::new(
                                    EXCHANGES[4],
                                    AssetNameInternal::new(format!("unknown{a}")),
                                ),
                            };
                            Keyed::new(key, Balance::new(parse_dec(&c[1]), parse_dec(&c[2])))
                        })
                        .collect();
                    // odd layouts: exchange 0 is tracked but has no execution link
                    let links: Vec<Link> = if layout % 2 == 1 { vec![Link::Missing] } else { vec![] };
                    let built = build_engine(&instruments, &links, TradingState::Disabled);
                    let mut engine = built.engine;
                    let state: State = EngineState::builder(
                        &instruments,
                        DefaultGlobalData::default(),
                        DefaultInstrumentMarketData::default,
                    )
                    .trading_state(TradingState::Disabled)
                    .balances(balances)
                    .time_engine_start(t0())
                    .build();
                    engine.state = state;
                    assert_eq!(engine.state.assets.0.len(), m);
                    let generator = engine.trading_summary_generator(rf);
                    let summary = generator.clone().generate(Daily);
                    observe(&engine, &names, &summary, lines);
                    sut = Some(match op[3].as_str() {
                        "direct" => Sut::Direct(Box::new(engine), generator),
                        "engine" => Sut::Engine(Box::new(engine)),
                        other => panic!("bad mode {other}"),
                    });
                }
                "pos" => {
                    let Some(Sut::Direct(engine, generator)) = sut.as_mut() else {
                        panic!("pos needs direct mode")
                    };
                    let i: usize = op[1].parse().unwrap();
                    let position = PositionExited::<QuoteAsset, InstrumentIndex> {
                        instrument: InstrumentIndex(instrument_index(engine, &names, i)),
                        side: if k % 2 == 0 { Side::Buy } else { Side::Sell },
                        price_entry_average: parse_dec(&op[3]),
                        quantity_abs_max: parse_dec(&op[4]),
                        pnl_realised: parse_dec(&op[2]),
                        fees_enter: AssetFees::quote_fees(Decimal::ZERO),
                        fees_exit: AssetFees::quote_fees(Decimal::ZERO),
                        // exit times are deliberately NOT monotone over the stream of closed positions
                        // (two instruments may close at the same instant, an exchange may deliver an exit
                        // late): the tear sheet of an instrument is that of its own history regardless
                        time_enter: time_ms(10 + ((k * 7) % 5) as i64),
                        time_exit: time_ms(11 + ((k * 7) % 5) as i64),
                        trades: vec![],
                    };
                    generator.update_from_position(&position);
                    let summary = generator.clone().generate(Daily);
                    observe(engine, &names, &summary, lines);
                }
                "rt" => {
                    let Some(Sut::Engine(engine)) = sut.as_mut() else {
                        panic!("rt needs engine mode")
                    };
                    let i: usize = op[1].parse().unwrap();
                    let idx = instrument_index(engine, &names, i);
                    let (open, close) = match op[2].as_str() {
                        "B" => (Side::Buy, Side::Sell),
                        "S" => (Side::Sell, Side::Buy),
                        other => panic!("bad side {other}"),
                    };
                    let (entry, qty, exit) = (parse_dec(&op[3]), parse_dec(&op[4]), parse_dec(&op[5]));
                    let (fee_in, fee_out) = (parse_dec(&op[6]), parse_dec(&op[7]));
                    let e1 = trade_event(engine, k, 0, idx, open, entry, qty, fee_in);
                    let a1 = engine.process(e1);
                    assert!(position_exits(&a1).is_empty(), "opening fill closes nothing");
                    let e2 = trade_event(engine, k, 1, idx, close, exit, qty, fee_out);
                    let a2 = engine.process(e2);
                    let exits = position_exits(&a2);
                    assert_eq!(exits.len(), 1, "closing fill exits exactly one position");
                    let p = &exits[0];
                    assert_eq!(p.instrument, InstrumentIndex(idx));
                    lines.push(format!(
                        "closed {i} {} {} {}",
                        fmt_dec(p.pnl_realised),
                        fmt_dec(p.price_entry_average),
                        fmt_dec(p.quantity_abs_max)
                    ));
                    let summary = engine.trading_summary_generator(rf).generate(Daily);
                    observe(engine, &names, &summary, lines);
                }
                // a position opened, flipped by ONE opposite fill of twice its size (closes it and opens the
                // opposite position in the same step), the remainder closed at the same price: two closed positions
                "flip" => {
                    let Some(Sut::Engine(engine)) = sut.as_mut() else {
                        panic!("flip needs engine mode")
                    };
                    let i: usize = op[1].parse().unwrap();
                    let idx = instrument_index(engine, &names, i);
                    let (open, close) = match op[2].as_str() {
                        "B" => (Side::Buy, Side::Sell),
                        "S" => (Side::Sell, Side::Buy),
                        other => panic!("bad side {other}"),
                    };
                    let (entry, qty, exit) = (parse_dec(&op[3]), parse_dec(&op[4]), parse_dec(&op[5]));
                    let (fee_in, fee_out) = (parse_dec(&op[6]), parse_dec(&op[7]));
                    let e1 = trade_event(engine, k, 0, idx, open, entry, qty, fee_in);
                    let a1 = engine.process(e1);
                    assert!(position_exits(&a1).is_empty(), "opening fill closes nothing");
                    let e2 = trade_event(engine, k, 1, idx, close, exit, qty + qty, fee_out);
                    let a2 = engine.process(e2);
                    let e3 = trade_event(engine, k, 2, idx, open, exit, qty, Decimal::ZERO);
                    let a3 = engine.process(e3);
                    for a in [&a2, &a3] {
                        let exits = position_exits(a);
                        assert_eq!(exits.len(), 1, "each of the two fills exits exactly one position");
                        let p = &exits[0];
                        assert_eq!(p.instrument, InstrumentIndex(idx));
                        lines.push(format!(
                            "closed {i} {} {} {}",
                            fmt_dec(p.pnl_realised),
                            fmt_dec(p.price_entry_average),
                            fmt_dec(p.quantity_abs_max)
                        ));
                    }
                    let summary = engine.trading_summary_generator(rf).generate(Daily);
                    observe(engine, &names, &summary, lines);
                }
                "bal" => {
                    let a: usize = op[1].parse().unwrap();
                    let t: i64 = op[2].parse().unwrap();
                    let balance = AssetBalance {
                        asset: AssetIndex(a),
                        balance: Balance::new(parse_dec(&op[3]), parse_dec(&op[4])),
                        time_exchange: time_ms(t),
                    };
                    match sut.as_mut().expect("init first") {
                        Sut::Direct(engine, generator) => {
                            generator.update_from_balance(Snapshot(&balance));
                            let summary = generator.clone().generate(Daily);
                            observe(engine, &names, &summary, lines);
                        }
                        Sut::Engine(engine) => {
                            let exchange = ExchangeIndex(exchange_index_of_asset(engine, a));
                            let _ = engine.process(EngineEvent::Account(AccountStreamEvent::Item(
                                AccountEvent {
                                    exchange,
                                    kind: AccountEventKind::BalanceSnapshot(Snapshot(balance)),
                                },
                            )));
                            let summary = engine.trading_summary_generator(rf).generate(Daily);
                            observe(engine, &names, &summary, lines);
                        }
                    }
                }
                other => panic!("bad op {other}"),
            }
        }
    });
}

// ------------------------------------------------------------------------------------ generator

const ENTRIES: [(i64, u32); 6] = [(100, 0), (50, 0), (5, 1), (125, 1), (2000, 0), (33, 0)];
const QTYS: [(i64, u32); 6] = [(1, 0), (5, 1), (2, 0), (10, 0), (1, 2), (3, 0)];

fn gen_pos(rng: &mut Rng, n: usize, bias: u64) -> String {
    let i = rng.below(n as u64);
    let (em, es) = *rng.pick(&ENTRIES);
    let (qm, qs) = *rng.pick(&QTYS);
    // bias: 0 mixed, 1 all wins, 2 all losses, 3 break-even heavy
    let mag = *rng.pick(&[1i64, 5, 10, 25, 120, 333, 1000, 12345]);
    let scale = *rng.pick(&[0u32, 1, 2, 2]);
    let sign = match bias {
        1 => 1,
        2 => -1,
        3 => *rng.pick(&[0i64, 0, 0, 1, -1]),
        _ => *rng.pick(&[1i64, 1, -1, -1, 0]),
    };
    let mut entry = dec_str(em, es);
    if rng.chance(3) {
        entry = format!("-{entry}");
    }
    format!("pos {i} {} {} {}", dec_str(sign * mag, scale), entry, dec_str(qm, qs))
}

fn gen_rt(rng: &mut Rng, n: usize, bias: u64) -> String {
    let i = rng.below(n as u64);
    let (em, es) = *rng.pick(&ENTRIES);
    let (qm, qs) = *rng.pick(&QTYS);
    let side = *rng.pick(&["B", "S"]);
    // exit = entry + delta (delta in entry's scale units), never <= 0
    let step = *rng.pick(&[1i64, 2, 5, 10]);
    let dir = match bias {
        1 => 1,
        2 => -1,
        3 => *rng.pick(&[0i64, 0, 0, 1, -1]),
        _ => *rng.pick(&[1i64, -1, 1, -1, 0]),
    };
    let dir = if side == "S" { -dir } else { dir };
    let exit_m = (em + dir * step).max(1);
    let fees = if bias == 3 || rng.chance(50) {
        ("0".to_string(), "0".to_string())
    } else {
        (
            dec_str(*rng.pick(&[0i64, 1, 5]), 1),
            dec_str(*rng.pick(&[0i64, 1, 25]), 2),
        )
    };
    // a quarter of the round trips go through a position FLIP (closed by one opposite fill of twice the size)
    let op = if rng.chance(25) { "flip" } else { "rt" };
    format!(
        "{op} {i} {side} {} {} {} {} {}",
        dec_str(em, es),
        dec_str(qm, qs),
        dec_str(exit_m, es),
        fees.0,
        fees.1
    )
}

fn gen_bal(rng: &mut Rng, m: usize, clock: &mut i64) -> String {
    let a = rng.below(m as u64);
    // mostly advancing, with equal and stale timestamps
    let t = match rng.below(10) {
        0 | 1 => *clock,
        2 => (*clock - rng.range(1, 5)).max(0),
        _ => {
            *clock += rng.range(1, 3);
            *clock
        }
    };
    let total = rng.range(0, 500);
    let free = rng.range(0, total.max(1));
    format!("bal {a} {t} {} {}", dec_str(total, 1), dec_str(free, 1))
}

fn generate(seed: u64, n_cases: usize, tier: &str) {
    let mut out = Out::new();
    let mut rng = Rng::new(seed);
    let mut id = 0usize;
    if tier == "thorough" {
        // small scope, exhaustive: every sequence of length <= 4 over {win, loss, break-even} x
        // {instrument 0, 1}, and every sequence of length <= 4 over five sizes on one instrument
        let syms2: Vec<String> = (0..2)
            .flat_map(|i| {
                ["3 100 1", "-2 50 2", "0 100 1"]
                    .iter()
                    .map(move |s| format!("pos {i} {s}"))
            })
            .collect();
        let syms1: Vec<String> = ["1 100 1", "25 50 0.5", "-1 100 1", "-7.5 12.5 2", "0 5 1"]
            .iter()
            .map(|s| format!("pos 0 {s}"))
            .collect();
        for (syms, n) in [(&syms2, 2usize), (&syms1, 1usize)] {
            for len in 0..=4usize {
                let total = syms.len().pow(len as u32);
                for mut code in 0..total {
                    id += 1;
                    out.case(format!("x{id}"));
                    out.line(format!("init {n} {} direct", n_assets(n)));
                    for _ in 0..len {
                        out.line(&syms[code % syms.len()]);
                        code /= syms.len();
                    }
                }
            }
        }
    }
    let max_len = if tier == "thorough" { 60 } else { 40 };
    for _ in 0..n_cases {
        id += 1;
        out.case(format!("r{id}"));
        let n = rng.range(1, 3) as usize;
        let m = n_assets(n);
        let engine = rng.chance(40);
        out.line(format!("init {n} {m} {}", if engine { "engine" } else { "direct" }));
        let len = match rng.below(10) {
            0 => 0,
            1 => rng.range(1, 3),
            _ => rng.range(0, max_len),
        };
        let bias = *rng.pick(&[0u64, 0, 0, 1, 2, 3]);
        let bal_pct = *rng.pick(&[0u64, 10, 30]);
        let mut clock = 0i64;
        for _ in 0..len {
            if rng.chance(bal_pct) {
                out.line(gen_bal(&mut rng, m, &mut clock));
            } else if engine {
                out.line(gen_rt(&mut rng, n, bias));
            } else {
                out.line(gen_pos(&mut rng, n, bias));
            }
        }
        // a final op on which the code panics (direct mode only; a panic ends the case)
        if !engine && rng.chance(6) {
            match rng.below(4) {
                0 => out.line(format!("pos {} 1 0 1", rng.below(n as u64))),
                1 => out.line(format!("pos {} -1 100 0", rng.below(n as u64))),
                2 => out.line(format!("pos {n} 1 100 1")),
                _ => out.line(format!("bal {m} 1 1 1")),
            }
        }
    }
    domain_family(&mut out, seed, n_cases, tier);
    config_family(&mut out, seed, n_cases, tier);
    out.flush();
}

// ---------------------------------------------------------------- input-domain family (`d..` cases)
//
// Separately seeded, appended after the random cases (which stay exactly as they were): input classes
// of the public API the random cases above never produce. One class per case, cycled by case number:
//   0 signed fees   (engine) maker REBATES (negative `Trade.fees`) on either fill, a fee that offsets the
//                   gross PnL exactly (break-even through fees), a fee larger than the gross win; 12 % of
//                   the fills carry a NEGATIVE `Trade.quantity` (the position manager uses its magnitude)
//   1 long direct   100-160 (thorough -300) closed positions, most on ONE instrument, incl. immediate
//                   duplicates of the previous position
//   2 long engine   60-100 (thorough -160) round trips / flips
//   3 magnitudes    (direct) per instrument one exact extreme regime: entry 1e-8 x size 1e12, entry 1e12
//                   x size 1e-8, cost 1e-16 with PnL ~1e-17, cost 1e18 with PnL ~1e16
//   4 magnitudes    (engine) the first two regimes as fills, fees incl. rebates
//   5 odd balances  negative totals (margin), free > total, free < 0, zero, negative / far exchange
//                   times, equal and stale ones right after; few positions
//   6 wide / empty  0 instruments (empty summary) or 4-6 instruments (10+ keys: `b1..` / `b10` prefixes
//                   do not occur, but index order != name order over > 3 entries)
//   7 signs of cost (direct) negative `quantity_abs_max`, negative entry, both (cost positive again),
//                   with wins, losses and break-evens on each; same values on two instruments

fn signed(rng: &mut Rng, m: i64, scale: u32) -> String {
    dec_str(if rng.chance(50) { -m } else { m }, scale)
}

fn dom_fee_rt(rng: &mut Rng, n: usize, entries: &[&str], qtys: &[&str]) -> String {
    let i = rng.below(n as u64);
    let entry = parse_dec(*rng.pick(entries));
    let qty = parse_dec(*rng.pick(qtys));
    let side = *rng.pick(&["B", "S"]);
    let unit = Decimal::new(1, entry.scale().max(1));
    let step = Decimal::from(*rng.pick(&[0i64, 1, 1, 2, 5, -1, -1, -3])) * unit;
    let mut exit = if side == "B" { entry + step } else { entry - step };
    if exit <= Decimal::ZERO {
        exit = entry;
    }
    let gross = if side == "B" { (exit - entry) * qty } else { (entry - exit) * qty };
    let fee = |rng: &mut Rng| -> Decimal {
        Decimal::new(*rng.pick(&[-50i64, -20, -10, -1, 0, 1, 10, 25, 50]), 2)
    };
    let flip = rng.chance(25);
    let fee_in = fee(rng);
    let fee_out = match rng.below(4) {
        // exactly break-even through the fees (a rebate when the gross PnL is a loss)
        0 if !flip => gross - fee_in,
        // the fees eat more than the gross win / a rebate larger than the gross loss
        1 if !flip => gross - fee_in + Decimal::new(*rng.pick(&[-1i64, 1]), 2),
        _ => fee(rng),
    };
    // `Trade.quantity` is a signed Decimal of which the position manager takes the absolute value
    let qty = if rng.chance(12) { -qty } else { qty };
    format!(
        "{} {i} {side} {} {} {} {} {}",
        if flip { "flip" } else { "rt" },
        entry.normalize(),
        qty.normalize(),
        exit.normalize(),
        fee_in.normalize(),
        fee_out.normalize()
    )
}

/// (entry, size, unit of PnL) per exact extreme regime: PnL = k * unit, k a small integer, so that the
/// running PnL and the running sum of returns stay exact `Decimal`s
const REGIMES: [(&[&str], &[&str], &str); 4] = [
    (&["0.00000001", "0.00000125"], &["1000000000000", "250000000000"], "0.01"),
    (&["1000000000000", "999999999999.5"], &["0.00000001", "0.00000025"], "0.01"),
    (&["0.00000001", "0.00000004"], &["0.00000001", "0.00000005"], "0.00000000000000001"),
    (&["1000000000000", "250000000000"], &["1000000", "4000000"], "10000000000000000"),
];

fn domain_family(out: &mut Out, seed: u64, n_cases: usize, tier: &str) {
    let mut rng = Rng::new(seed ^ 0xD0_16_D0_16);
    let thorough = tier == "thorough";
    let count = (n_cases / 8).max(8);
    for j in 0..count {
        out.case(format!("d{}", j + 1));
        let class = j % 8;
        match class {
            0 => {
                let n = rng.range(1, 3) as usize;
                out.line(format!("init {n} {} engine", n_assets(n)));
                for _ in 0..rng.range(1, 25) {
                    out.line(dom_fee_rt(&mut rng, n, &["100", "50", "0.5", "12.5", "33"], &["1", "0.5", "2", "10", "3"]));
                }
            }
            1 | 2 => {
                let n = rng.range(1, 2) as usize;
                let engine = class == 2;
                out.line(format!("init {n} {} {}", n_assets(n), if engine { "engine" } else { "direct" }));
                let len = if engine {
                    rng.range(60, if thorough { 160 } else { 100 })
                } else {
                    rng.range(100, if thorough { 300 } else { 160 })
                };
                let bias = *rng.pick(&[0u64, 0, 1, 2, 3]);
                let mut prev: Option<String> = None;
                for _ in 0..len {
                    // the second instrument gets one position in ten
                    let k = if rng.chance(10) { n } else { 1 };
                    let line = if engine {
                        gen_rt(&mut rng, k, bias)
                    } else if prev.is_some() && rng.chance(10) {
                        prev.clone().unwrap()
                    } else {
                        gen_pos(&mut rng, k, bias)
                    };
                    prev = Some(line.clone());
                    out.line(line);
                }
            }
            3 => {
                let n = rng.range(1, 3) as usize;
                out.line(format!("init {n} {} direct", n_assets(n)));
                let base = rng.below(4) as usize;
                for _ in 0..rng.range(1, 30) {
                    let i = rng.below(n as u64) as usize;
                    let (entries, qtys, unit) = REGIMES[(base + i) % 4];
                    let k = *rng.pick(&[0i64, 1, 1, 2, 7, 25, 120, 12345, -1, -1, -3, -25, -333, -12345]);
                    let pnl = Decimal::from(k) * parse_dec(unit);
                    out.line(format!("pos {i} {} {} {}", pnl.normalize(), rng.pick(entries), rng.pick(qtys)));
                }
            }
            4 => {
                let n = rng.range(1, 2) as usize;
                out.line(format!("init {n} {} engine", n_assets(n)));
                let base = rng.below(2) as usize;
                for _ in 0..rng.range(1, 20) {
                    let i = rng.below(n as u64) as usize;
                    let (entries, qtys, _) = REGIMES[(base + i) % 2];
                    let line = dom_fee_rt(&mut rng, 1, entries, qtys);
                    // dom_fee_rt drew instrument 0: re-address
                    let mut t: Vec<String> = line.split(' ').map(|s| s.to_string()).collect();
                    t[1] = i.to_string();
                    out.line(t.join(" "));
                }
            }
            5 => {
                let n = rng.range(1, 3) as usize;
                let m = n_assets(n);
                let engine = rng.chance(50);
                out.line(format!("init {n} {m} {}", if engine { "engine" } else { "direct" }));
                let mut t: i64 = *rng.pick(&[-5000i64, -1, 0, 1_700_000_000_000]);
                for _ in 0..rng.range(2, 25) {
                    if rng.chance(15) {
                        out.line(if engine { gen_rt(&mut rng, n, 0) } else { gen_pos(&mut rng, n, 0) });
                        continue;
                    }
                    let a = rng.below(m as u64);
                    t += *rng.pick(&[0i64, 0, -1, -3, 1, 1, 2, 1000, -1000]);
                    let total = match rng.below(5) {
                        0 => "0".to_string(),
                        1 | 2 => dec_str(-rng.range(1, 500), 1),
                        _ => dec_str(rng.range(1, 500), 1),
                    };
                    let free = match rng.below(5) {
                        0 => total.clone(),
                        1 => "0".to_string(),
                        2 => dec_str(-rng.range(1, 500), 1),
                        _ => dec_str(rng.range(0, 900), 1),
                    };
                    out.line(format!("bal {a} {t} {total} {free}"));
                }
            }
            6 => {
                let n = *rng.pick(&[0usize, 4, 5, 6]);
                let m = n_assets(n);
                let engine = rng.chance(50);
                out.line(format!("init {n} {m} {}", if engine { "engine" } else { "direct" }));
                if n > 0 {
                    let mut clock = 0i64;
                    for _ in 0..rng.range(0, 30) {
                        if rng.chance(20) {
                            out.line(gen_bal(&mut rng, m, &mut clock));
                        } else if engine {
                            out.line(gen_rt(&mut rng, n, 0));
                        } else {
                            out.line(gen_pos(&mut rng, n, 0));
                        }
                    }
                }
            }
            _ => {
                let n = rng.range(2, 3) as usize;
                out.line(format!("init {n} {} direct", n_assets(n)));
                for _ in 0..rng.range(2, 20) {
                    let i = rng.below(n as u64);
                    let (em, es) = *rng.pick(&ENTRIES);
                    let (qm, qs) = *rng.pick(&QTYS);
                    let pnl = match rng.below(3) {
                        0 => "0".to_string(),
                        _ => {
                            let mag = *rng.pick(&[1i64, 5, 25, 120]);
                            signed(&mut rng, mag, 1)
                        }
                    };
                    let (se, sq) = *rng.pick(&[(1i64, -1i64), (-1, 1), (-1, -1), (1, -1)]);
                    let line = format!("{pnl} {} {}", dec_str(se * em, es), dec_str(sq * qm, qs));
                    out.line(format!("pos {i} {line}"));
                    // the same closed position on another instrument: entries must not be mixed up
                    if rng.chance(30) {
                        out.line(format!("pos {} {line}", (i + 1) % n as u64));
                    }
                }
            }
        }
    }
}

// ---------------------------------------------------------- configuration-shape family (`cfg..` cases)
//
// Separately seeded, appended after the `d..` cases (random and domain cases stay exactly as they were):
// HOW the engine state is assembled before the first event. `init` always builds 1-3 (6) instruments
// alternating over two exchanges with an EMPTY starting state; here, cycled by case number, the four
// layouts of `layout_defs` (three exchanges unevenly filled, one exchange with shared assets, the same pair on
// three exchanges) and, in three of four cases, INITIAL balances configured through
// `EngineStateBuilder::balances` for a subset of the assets (zero / negative totals, 10 % an asset twice:
// the builder keeps the last). Events: closed positions / round trips and balance snapshots at, before
// (stale behind the engine's guard, not behind the direct generator) and after the engine start.
fn config_family(out: &mut Out, seed: u64, n_cases: usize, tier: &str) {
    let mut rng = Rng::new(seed ^ 0xCF_16_CF_16);
    let count = (n_cases / 8).max(8);
    let max_len = if tier == "thorough" { 40 } else { 25 };
    for j in 0..count {
        out.case(format!("cfg{}", j + 1));
        let layout = j % 4;
        let n = match layout {
            0 => rng.range(1, 3),
            1 => rng.range(1, 6),
            2 => rng.range(1, 4),
            _ => rng.range(2, 6),
        } as usize;
        let m = layout_assets(&layout_defs(layout, n));
        let engine = rng.chance(50);
        let mut line = format!("initb {n} {m} {} L{layout}", if engine { "engine" } else { "direct" });
        let unknown = rng.chance(3);
        if (j / 4) % 4 != 3 || unknown {
            let mut picked: Vec<usize> = (0..m).filter(|_| rng.chance(60)).collect();
            if picked.is_empty() {
                picked.push(rng.below(m as u64) as usize);
            }
            if j % 2 == 1 {
                picked.reverse();
            }
            if rng.chance(10) {
                picked.push(picked[0]);
            }
            if unknown {
                picked.push(m);
            }
            for a in picked {
                let total = match rng.below(6) {
                    0 => 0,
                    1 => -rng.range(1, 300),
                    _ => rng.range(1, 900),
                };
                let free = rng.range(0, total.abs().max(1));
                line.push_str(&format!(" {a} {} {}", dec_str(total, 1), dec_str(free, 1)));
            }
        }
        out.line(line);
        if unknown {
            continue;
        }
        let len = match rng.below(8) {
            0 => 0,
            _ => rng.range(1, max_len),
        };
        let bias = *rng.pick(&[0u64, 0, 1, 2, 3]);
        let bal_pct = *rng.pick(&[10u64, 30, 60]);
        let mut clock = 0i64;
        for _ in 0..len {
            if rng.chance(bal_pct) {
                if rng.chance(12) {
                    // older than the initial balance: dropped by the engine's guard, applied by the direct generator
                    let a = rng.below(m as u64);
                    out.line(format!("bal {a} {} {} 1", -rng.range(1, 50), dec_str(rng.range(0, 500), 1)));
                } else {
                    out.line(gen_bal(&mut rng, m, &mut clock));
                }
            } else if engine {
                out.line(gen_rt(&mut rng, n, bias));
            } else {
                out.line(gen_pos(&mut rng, n, bias));
            }
        }
    }
}

fn main() {
    let a = args();
    match a.cmd.as_str() {
        "gen" => generate(a.seed, a.n, &a.tier),
        "run" => run(),
        _ => {
            eprintln!("usage: c16 gen <seed> <n> <tier> | run < cases");
            std::process::exit(2)
        }
    }
}
